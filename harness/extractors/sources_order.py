"""Gen/SourcesOrder.lean: the shape of the precedence pipeline that Core/Sources.lean transcribes, read off the
AST of /repo/jsonargparse (no import of the model): every `merge_config(from, to)` call with its two arguments,
the statement order of `merge_config`, the three loops of `_load_env_vars`, the condition under which the
environment is read, how the matches of a default_config_files pattern are ordered and iterated, what
`apply_appends` passes as the previous value, the assignment of `Namespace.update`, the naming of `get_env_var`,
the append/NestedArg branches of `adapt_typehints`, how each parse method calls `_parse_defaults_and_environ`.  `Props/C04.lean` pins the table (`C04_transcription_pin`)."""
import ast
import os

from ..extract import lean_str, lean_str_list, write_if_changed


def _find(nodes, kind, name):
    for n in nodes:
        if isinstance(n, kind) and getattr(n, "name", None) == name:
            return n
    return None


def _calls(node, attr):
    """Call nodes `<x>.<attr>(...)` inside node, in source order"""
    out = [n for n in ast.walk(node) if isinstance(n, ast.Call) and isinstance(n.func, ast.Attribute) and n.func.attr == attr]
    return sorted(out, key=lambda n: (n.lineno, n.col_offset))


def _flat_stmts(stmts):
    """simple statements in order, descending into with/if/for/try bodies"""
    out = []
    for st in stmts:
        if isinstance(st, ast.Expr) and isinstance(st.value, ast.Constant) and isinstance(st.value.value, str):
            continue  # docstring
        if isinstance(st, ast.With):
            out += _flat_stmts(st.body)
        elif isinstance(st, ast.If):
            out.append("if " + ast.unparse(st.test))
            out += _flat_stmts(st.body)
            if st.orelse:
                out.append("else")
                out += _flat_stmts(st.orelse)
        elif isinstance(st, ast.For):
            out.append("for %s in %s" % (ast.unparse(st.target), ast.unparse(st.iter)))
            out += _flat_stmts(st.body)
        elif isinstance(st, ast.Try):
            out += _flat_stmts(st.body)
        else:
            out.append(ast.unparse(st))
    return out


def generate(problems):
    import jsonargparse

    pkg = os.path.dirname(os.path.abspath(jsonargparse.__file__))

    def mod(name):
        return ast.parse(open(os.path.join(pkg, name)).read())

    core, actions, nsmod, th, fmt = mod("_core.py"), mod("_actions.py"), mod("_namespace.py"), mod("_typehints.py"), mod("_formatters.py")
    cls = _find(core.body, ast.ClassDef, "ArgumentParser")
    if cls is None:
        problems.append("SourcesOrder: class ArgumentParser not found")
        return

    def method(name, klass=cls):
        f = _find(klass.body, ast.FunctionDef, name)
        if f is None:
            problems.append("SourcesOrder: %s.%s not found" % (klass.name, name))
        return f

    # 1. merge_config(from, to) calls
    merge_calls = []
    for fname in ("_parse_defaults_and_environ", "parse_args", "parse_object", "parse_string", "get_defaults"):
        f = method(fname)
        if f is None:
            return
        for c in _calls(f, "merge_config"):
            merge_calls.append("%s: merge_config(%s)" % (fname, ", ".join(ast.unparse(a) for a in c.args)))
    acf = _find(actions.body, ast.ClassDef, "ActionConfigFile")
    apply_config = method("apply_config", acf) if acf else None
    if apply_config is None:
        problems.append("SourcesOrder: ActionConfigFile.apply_config not found")
        return
    for c in _calls(apply_config, "merge_config"):
        merge_calls.append("apply_config: merge_config(%s)" % ", ".join(ast.unparse(a) for a in c.args))
    apply_config_tail = [s for s in _flat_stmts(apply_config.body) if "cfg_merged" in s or "cfg[dest]" in s or "cfg.get(dest)" in s]

    # 1b. how every parse method obtains its base: `_parse_defaults_and_environ(...)` and the condition it stands under
    base_calls = []
    for fname in ("parse_args", "parse_object", "parse_env", "parse_string"):
        f = method(fname)
        if f is None:
            return
        for c in _calls(f, "_parse_defaults_and_environ"):
            text = "%s: _parse_defaults_and_environ(%s)" % (fname, ", ".join(
                [ast.unparse(a) for a in c.args] + ["%s=%s" % (k.arg, ast.unparse(k.value)) for k in c.keywords]))
            for node in ast.walk(f):
                if isinstance(node, ast.If) and any(c is x for st in node.body for x in ast.walk(st)):
                    text += " if " + ast.unparse(node.test)
            base_calls.append(text)

    # 2. merge_config body
    mc = method("merge_config")
    if mc is None:
        return
    merge_body = _flat_stmts(mc.body)

    # 3. _parse_defaults_and_environ / _load_env_vars
    pde = method("_parse_defaults_and_environ")
    lev = method("_load_env_vars")
    if pde is None or lev is None:
        return
    pde_body = _flat_stmts(pde.body)
    env_loops = []
    for st in lev.body:
        if isinstance(st, ast.For):
            tests = [ast.unparse(s.test) for s in st.body if isinstance(s, ast.If)]
            env_loops.append("for %s in %s: %s" % (ast.unparse(st.target), ast.unparse(st.iter), " | ".join(tests)))
    lev_first = ast.unparse(lev.body[0]) if lev.body else ""
    env_assign = [s for s in _flat_stmts(lev.body) if s.startswith("cfg[action.dest]") or "apply_config" in s]
    # the subcommand variable: what the named sub-parser contributes to the environment layer
    env_sub_branch = [s for s in _flat_stmts(lev.body) if "parse_env(" in s or "env_val in action.choices" in s or "subcommand + '.' + k" in s
                      or s.startswith("for (k, v) in vars(pcfg)")]
    # merge_config: which statements stand inside which `with`
    merge_with = ["with %s: %s" % (", ".join(ast.unparse(i) for i in n.items), "; ".join(_flat_stmts(n.body)))
                  for n in ast.walk(mc) if isinstance(n, ast.With)]

    # 4. default config files: order of matches and of application
    gdf = method("_get_default_config_files")
    gd = method("get_defaults")
    if gdf is None or gd is None:
        return
    glob_order = [s for s in _flat_stmts(gdf.body) if "glob" in s or s.startswith("for ") or "default_config_files +=" in s]
    dcf_loop = [s for s in _flat_stmts(gd.body) if s.startswith("for ") or "merge_config" in s or "_load_config_parser_mode" in s or "cfg[action.dest]" in s]

    # 5. apply_appends, ActionTypeHint.__call__, adapt_typehints branches
    ath = _find(th.body, ast.ClassDef, "ActionTypeHint")
    aa = method("apply_appends", ath) if ath else None
    call = method("__call__", ath) if ath else None
    if aa is None or call is None:
        problems.append("SourcesOrder: ActionTypeHint.apply_appends / __call__ not found")
        return
    appends_body = _flat_stmts(aa.body)
    call_tail = [s for s in _flat_stmts(call.body) if "NestedArg(" in s or s.startswith("append =") or "_check_type_(" in s or s.startswith("cfg.update(")]
    ct = method("_check_type", ath)
    prev_val_src = [s for s in _flat_stmts(ct.body) if s.startswith("prev_val =")] if ct else []
    adapt = _find(th.body, ast.FunctionDef, "adapt_typehints")
    adapt_src = ast.unparse(adapt) if adapt else ""
    adapt_facts = [needle for needle in (
        "if prev_val is None:\n                prev_val = []",
        "val = prev_val + (val if val_is_list else [val])",
        "if isinstance(prev_val, dict):\n                val = {**prev_val, val.key: val.val}\n            else:\n                val = {val.key: val.val}",
    ) if needle in adapt_src]

    # 6. Namespace.update, get_env_var
    nscls = _find(nsmod.body, ast.ClassDef, "Namespace")
    upd = method("update", nscls) if nscls else None
    gev = _find(fmt.body, ast.FunctionDef, "get_env_var")
    if upd is None or gev is None:
        problems.append("SourcesOrder: Namespace.update / get_env_var not found")
        return
    update_body = _flat_stmts(upd.body)
    env_var_body = [s for s in _flat_stmts(gev.body) if s.startswith("env_var") or s.startswith("if ")]

    # default_env setter
    de = [f for f in cls.body if isinstance(f, ast.FunctionDef) and f.name == "default_env" and f.decorator_list
          and "setter" in ast.unparse(f.decorator_list[0])]
    default_env_body = _flat_stmts(de[0].body) if de else []
    if not de:
        problems.append("SourcesOrder: default_env setter not found")

    # 7. subcommand levels: what a sub-parser inherits when it is added, how its own parse_args is called, what
    #    handle_subcommands merges under its namespace, how _parse_common resolves `env`
    sub_cls = _find(actions.body, ast.ClassDef, "_ActionSubCommands")
    add_sub = method("add_subcommand", sub_cls) if sub_cls else None
    sub_call = method("__call__", sub_cls) if sub_cls else None
    handle = method("handle_subcommands", sub_cls) if sub_cls else None
    add_subs = method("add_subcommands")
    pcommon = method("_parse_common")
    pargs = method("parse_args")
    if None in (add_sub, sub_call, handle, add_subs, pcommon, pargs):
        problems.append("SourcesOrder: subcommand functions not found")
        return
    sub_inherit = [s for s in _flat_stmts(add_sub.body) if s.startswith("parser.env_prefix") or s.startswith("parser.default_env")
                   or s.startswith("if parser._subparsers") or "level order" in s]
    sub_inherit += [s for s in _flat_stmts(add_subs.body) if "env_prefix" in s]
    sub_call_body = _flat_stmts(sub_call.body)
    handle_body = _flat_stmts(handle.body)
    handle_withs = [ast.unparse(i) for n in ast.walk(handle) if isinstance(n, ast.With) for i in n.items]
    pc_all = _flat_stmts(pcommon.body)
    pcommon_env = pc_all[:pc_all.index("if defaults")] if "if defaults" in pc_all else pc_all[:6]
    pargs_withs = [ast.unparse(i) for n in ast.walk(pargs) if isinstance(n, ast.With) for i in n.items]
    penv = method("parse_env")
    penv_body = [s for s in _flat_stmts(penv.body) if "_parse_defaults_and_environ" in s or "kwargs" in s or "_parse_common" in s] if penv else []

    body = "namespace Jap.Gen.SourcesOrder\n"
    for name, val in (
        ("mergeCalls", merge_calls), ("baseCalls", base_calls), ("applyConfigTail", apply_config_tail), ("mergeConfigBody", merge_body),
        ("defaultsAndEnvironBody", pde_body), ("envLoops", env_loops), ("envAssign", env_assign),
        ("globOrder", glob_order), ("defaultConfigLoop", dcf_loop), ("applyAppendsBody", appends_body),
        ("typeHintCall", call_tail), ("prevValSource", prev_val_src), ("adaptFacts", adapt_facts),
        ("updateBody", update_body), ("envVarBody", env_var_body), ("defaultEnvSetter", default_env_body),
        ("subInherit", sub_inherit), ("subCallBody", sub_call_body), ("handleSubcommandsBody", handle_body),
        ("handleSubcommandsWith", handle_withs), ("parseCommonEnv", pcommon_env), ("parseArgsWith", pargs_withs),
        ("parseEnvBody", penv_body), ("envSubcommandBranch", env_sub_branch), ("mergeConfigWith", merge_with),
    ):
        body += "def %s : List String := %s\n" % (name, lean_str_list(val))
    body += "def loadEnvStart : String := %s\n" % lean_str(lev_first)
    body += "end Jap.Gen.SourcesOrder\n"
    write_if_changed("SourcesOrder.lean", body)

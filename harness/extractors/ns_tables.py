"""Gen/NsTables.lean: clash names (dir(Namespace)), clash mark, meta keys, dict-only attribute names."""
from ..extract import lean_str, lean_str_list, write_if_changed


def generate(problems):
    from jsonargparse import _namespace as m

    clash = sorted(m.clash_names)
    if set(clash) != set(dir(m.Namespace)):
        problems.append("NsTables: clash_names is no longer dir(Namespace)")
    dict_attrs = sorted(set(dir(dict)) - set(clash))
    body = "namespace Jap.Gen\n"
    body += "def clashNames : List String := %s\n" % lean_str_list(clash)
    body += "def clashMark : String := %s\n" % lean_str(m.clash_mark)
    body += "def metaKeys : List String := %s\n" % lean_str_list(sorted(m.meta_keys))
    body += "def dictAttrs : List String := %s\n" % lean_str_list(dict_attrs)
    body += "end Jap.Gen\n"
    write_if_changed("NsTables.lean", body)

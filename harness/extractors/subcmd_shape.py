"""Gen/SubcmdShape.lean: the shape of the subcommand selection code, read off the AST of
/repo/jsonargparse/_actions.py (get_subcommands, handle_subcommands, _ActionSubCommands.__call__,
ActionConfigFile.apply_config), _core.py (get_defaults' _parse_common call, the subcommand branch of
_load_env_vars) and _link_arguments.py (head of apply_parsing_links).  The tie theorems of
lean/Jap/Props/C17.lean compare these with what the model lean/Jap/Core/Subcmd.lean transcribes."""
import ast
import os

from ..extract import lean_str, lean_str_list, write_if_changed


def _find(tree, kind, name):
    for n in ast.walk(tree):
        if isinstance(n, kind) and getattr(n, "name", None) == name:
            return n
    raise LookupError(name)


def _u(node):
    return ast.unparse(node)


def _bool(b):
    return "true" if b else "false"


def generate(problems):
    from ..lib.common import REPO

    src_a = open(os.path.join(REPO, "jsonargparse", "_actions.py")).read()
    src_c = open(os.path.join(REPO, "jsonargparse", "_core.py")).read()
    src_l = open(os.path.join(REPO, "jsonargparse", "_link_arguments.py")).read()
    ta, tc, tl = ast.parse(src_a), ast.parse(src_c), ast.parse(src_l)
    cls = _find(ta, ast.ClassDef, "_ActionSubCommands")

    # ------------------------------------------------------------------ get_subcommands
    gs = _find(cls, ast.FunctionDef, "get_subcommands")
    keys_expr = explicit_test = pick_test = remove_test = remove_filter = single_test = None
    pick_from_end, pick_offset = None, None
    fail_tests = []
    for st in ast.walk(gs):
        if isinstance(st, ast.Assign) and len(st.targets) == 1 and _u(st.targets[0]) == "subcommand_keys" and isinstance(st.value, ast.ListComp):
            keys_expr = _u(st.value)
        if isinstance(st, ast.If) and explicit_test is None and "dest in cfg" in _u(st.test):
            explicit_test = _u(st.test)
            if st.orelse and isinstance(st.orelse[0], ast.If):
                el = st.orelse[0]
                pick_test = _u(el.test)
                for a in ast.walk(el):
                    if isinstance(a, ast.Subscript) and _u(a.value) == "subcommand_keys":
                        idx = a.slice
                        if isinstance(idx, ast.UnaryOp) and isinstance(idx.op, ast.USub) and isinstance(idx.operand, ast.Constant):
                            pick_from_end, pick_offset = True, idx.operand.value - 1
                        elif isinstance(idx, ast.Constant) and isinstance(idx.value, int):
                            pick_from_end, pick_offset = False, idx.value
        if isinstance(st, ast.If) and st.body and isinstance(st.body[0], ast.For) and any(isinstance(x, ast.Delete) for x in ast.walk(st.body[0])):
            remove_test = _u(st.test)
            remove_filter = _u(st.body[0].iter)
        if isinstance(st, ast.If) and len(st.body) == 1 and isinstance(st.body[0], ast.Assign) and _u(st.body[0]) == "subcommand_keys = [subcommand]":
            single_test = _u(st.test)
        if isinstance(st, ast.If) and _u(st.test) == "fail_no_subcommand":
            fail_tests = [_u(x.test) for x in st.body if isinstance(x, ast.If)]
    # the unknown-name check (fix 96e4fb9), since fix 456b357 a top-level statement BEFORE `if fail_no_subcommand:`
    name_test, name_outside = "", False
    top = [x for x in gs.body if isinstance(x, ast.If)]
    for i, x in enumerate(top):
        if "is not None" in _u(x.test) and "not in action._name_parser_map" in _u(x.test) and any(isinstance(y, ast.Raise) for y in x.body):
            name_test = _u(x.test)
            name_outside = any(_u(y.test) == "fail_no_subcommand" for y in top[i + 1:])
    ret = [_u(x.value) for x in ast.walk(gs) if isinstance(x, ast.Return) and x.value is not None]
    for label, v in (("subcommand_keys", keys_expr), ("explicit test", explicit_test), ("pick test", pick_test), ("pick index", pick_offset),
                     ("remove test", remove_test), ("single test", single_test)):
        if v is None:
            problems.append("subcmd_shape: %s not found in get_subcommands" % label)

    # ------------------------------------------------------------------ handle_subcommands
    hs = _find(cls, ast.FunctionDef, "handle_subcommands")
    merge_call, layer = None, []
    given_first = None
    recurse = None
    for st in ast.walk(hs):
        if isinstance(st, ast.Call) and isinstance(st.func, ast.Attribute) and st.func.attr == "merge_config":
            merge_call = _u(st)
            if len(st.args) == 2:
                given_first = "cfg.get(key)" in _u(st.args[0]) and _u(st.args[1]) == "subnamespace"
        if isinstance(st, ast.If) and _u(st.test) == "env" and st.orelse:
            layer.append("env: " + _u(st.body[0]))
            el = st.orelse[0]
            if isinstance(el, ast.If):
                layer.append(_u(el.test) + ": " + _u(el.body[0]))
        if isinstance(st, ast.Call) and _u(st.func) == "_ActionSubCommands.handle_subcommands":
            recurse = _u(st)
    if merge_call is None or given_first is None:
        problems.append("subcmd_shape: merge_config call not found in handle_subcommands")

    # ------------------------------------------------------------------ the settings check (fix adfb1a7)
    settings_check = []
    try:
        csf = _find(ta, ast.FunctionDef, "_check_subcommand_settings")
        settings_check = [_u(x) for x in csf.body]
    except LookupError:
        problems.append("subcmd_shape: _check_subcommand_settings not found")
    settings_check += [_u(x) for x in ast.walk(hs) if isinstance(x, ast.If) and "_check_subcommand_settings" in _u(x)]

    # ------------------------------------------------------------------ the argv action
    call = _find(cls, ast.FunctionDef, "__call__")
    call_body = [_u(s) for s in call.body if not (isinstance(s, ast.Expr) and isinstance(s.value, ast.Constant))]

    # ------------------------------------------------------------------ apply_config
    acf = _find(ta, ast.ClassDef, "ActionConfigFile")
    ac = _find(acf, ast.FunctionDef, "apply_config")
    with_items, kwargs = [], None
    for st in ast.walk(ac):
        if isinstance(st, ast.With) and not with_items:
            with_items = [_u(i.context_expr) for i in st.items]
        if isinstance(st, ast.Assign) and _u(st.targets[0]) == "kwargs" and isinstance(st.value, ast.Dict):
            kwargs = {k.value: _u(v) for k, v in zip(st.value.keys, st.value.values)}
    if kwargs is None:
        problems.append("subcmd_shape: kwargs of apply_config not found")
        kwargs = {}

    # ------------------------------------------------------------------ get_defaults -> _parse_common
    gd = _find(tc, ast.FunctionDef, "get_defaults")
    pc_kw = None
    for st in ast.walk(gd):
        if isinstance(st, ast.Call) and _u(st.func) == "self._parse_common":
            pc_kw = {k.arg: _u(k.value) for k in st.keywords}
    if pc_kw is None:
        problems.append("subcmd_shape: _parse_common call not found in get_defaults")
        pc_kw = {}
    pcm = _find(tc, ast.FunctionDef, "_parse_common")
    defaults = {a.arg: _u(d) for a, d in zip(reversed(pcm.args.args), reversed(pcm.args.defaults))}
    ps = _find(tc, ast.FunctionDef, "parse_string")
    ps_private = None
    for st in ast.walk(ps):
        if isinstance(st, ast.Call) and _u(st.func) == "get_private_kwargs":
            ps_private = {k.arg: _u(k.value) for k in st.keywords}
    pa = _find(tc, ast.FunctionDef, "parse_args")
    pa_pc = None
    for st in ast.walk(pa):
        if isinstance(st, ast.Call) and _u(st.func) == "self._parse_common":
            pa_pc = sorted(k.arg for k in st.keywords)

    # ------------------------------------------------------------------ _load_env_vars, subcommand branch
    le = _find(tc, ast.FunctionDef, "_load_env_vars")
    env_branch = []
    for st in ast.walk(le):
        if isinstance(st, ast.If) and "isinstance(action, _ActionSubCommands)" in _u(st.test) and "not isinstance" not in _u(st.test):
            env_branch = [_u(st.test)] + [_u(x) for x in st.body]
    if not env_branch:
        problems.append("subcmd_shape: subcommand branch of _load_env_vars not found")

    # ------------------------------------------------------------------ apply_parsing_links head
    apl = _find(tl, ast.FunctionDef, "apply_parsing_links")
    head = [_u(s) for s in apl.body[:3]]

    # ------------------------------------------------------------------ add_subcommand
    asc = _find(cls, ast.FunctionDef, "add_subcommand")
    add_sub = [_u(s) for s in asc.body if isinstance(s, (ast.Assign, ast.If)) and ("parser." in _u(s) or "raise" in _u(s))]

    # ------------------------------------------------------------------ default_env setter: propagation down the tree
    de_prop = []
    for fn in ast.walk(tc):
        if isinstance(fn, ast.FunctionDef) and fn.name == "default_env" and any("setter" in _u(d) for d in fn.decorator_list):
            for st in fn.body:
                if isinstance(st, ast.If) and "_subcommands_action" in _u(st.test):
                    de_prop = [_u(st.test)] + [_u(x) for x in st.body]
    if not de_prop:
        problems.append("subcmd_shape: propagation block of the default_env setter not found")

    # ------------------------------------------------------------------ names of environment variables, default config files
    src_f = open(os.path.join(REPO, "jsonargparse", "_formatters.py")).read()
    tf = ast.parse(src_f)
    gev = _find(tf, ast.FunctionDef, "get_env_var")
    gev_body = [_u(x) for x in gev.body if not (isinstance(x, ast.Expr) and isinstance(x.value, ast.Constant))]
    asc2 = _find(tc, ast.FunctionDef, "add_subcommands")
    env_prefix_assign = [_u(x) for x in asc2.body if isinstance(x, ast.Assign) and "env_prefix" in _u(x)]
    ep_true = []
    for fn in ast.walk(tc):
        if isinstance(fn, ast.FunctionDef) and fn.name == "env_prefix" and any("setter" in _u(d) for d in fn.decorator_list):
            for x in ast.walk(fn):
                if isinstance(x, ast.If) and _u(x.test) == "env_prefix is True":
                    ep_true = [_u(y) for y in x.body]
    gdcf = _find(tc, ast.FunctionDef, "_get_default_config_files")
    gdcf_body = [_u(x) for x in gdcf.body if isinstance(x, ast.For)]
    ppc = _find(ta, ast.FunctionDef, "parent_parsers_context")
    ppc_body = [_u(x) for x in ppc.body if isinstance(x, ast.Assign)]
    gd_loop = []
    for x in gd.body:
        if isinstance(x, ast.For) and "default_config_files" in _u(x.iter):
            for y in ast.walk(x):
                if isinstance(y, ast.Assign) and _u(y.targets[0]) in ("cfg_file", "cfg") and "_parse_common" not in _u(y):
                    gd_loop.append(_u(y))
    lcpm = _find(tc, ast.FunctionDef, "_load_config_parser_mode")
    key_sel = [_u(x) for x in lcpm.body if isinstance(x, ast.If) and "key" in _u(x.test)]
    hs_ctx = [_u(i.context_expr) for x in ast.walk(hs) if isinstance(x, ast.With) for i in x.items] + \
             [_u(x) for x in ast.walk(hs) if isinstance(x, ast.Assign) and _u(x.targets[0]) == "key"]
    pde = _find(tc, ast.FunctionDef, "_parse_defaults_and_environ")
    pde_merge = [_u(x) for x in ast.walk(pde) if isinstance(x, ast.Assign) and "merge_config" in _u(x)]
    lev_tests = [_u(x.test) for x in le.body if isinstance(x, ast.For) for x in x.body if isinstance(x, ast.If)]
    if not (gev_body and env_prefix_assign and gdcf_body and ppc_body and key_sel):
        problems.append("subcmd_shape: environment-name / default-config statements not found")

    # ------------------------------------------------------------------ session 2: EVERY statement of the anchored functions
    def _stmts(fn):
        return [_u(x) for x in fn.body if not (isinstance(x, ast.Expr) and isinstance(x.value, ast.Constant))]

    gsc = _find(cls, ast.FunctionDef, "get_subcommand")
    body_gs, body_gsc, body_hs, body_asc, body_asc2 = _stmts(gs), _stmts(gsc), _stmts(hs), _stmts(asc), _stmts(asc2)
    # _load_env_vars: the first line of every top-level statement (the bodies of the loops that concern subcommands are
    # pinned by envBranch / loadEnvVarsLoops; the list handling of the third loop is not C17's)
    le_skeleton = [s.split("\n")[0] for s in _stmts(le)]
    sig = {}
    for label, fn in (("get_subcommands", gs), ("get_subcommand", gsc), ("handle_subcommands", hs), ("add_subcommands", asc2)):
        a = fn.args
        dflts = [None] * (len(a.args) - len(a.defaults)) + [_u(d) for d in a.defaults]
        sig[label] = ["%s=%s" % (x.arg, d) if d is not None else x.arg for x, d in zip(a.args, dflts)]
    if not (body_gs and body_gsc and body_hs and body_asc and body_asc2 and le_skeleton):
        problems.append("subcmd_shape: body of an anchored function is empty")

    body = "namespace Jap.Gen.SubcmdShape\n"
    body += "def keysExpr : String := %s\n" % lean_str(keys_expr or "")
    body += "def explicitTest : String := %s\n" % lean_str(explicit_test or "")
    body += "def pickTest : String := %s\n" % lean_str(pick_test or "")
    body += "def pickFromEnd : Bool := %s\n" % _bool(bool(pick_from_end))
    body += "def pickOffset : Nat := %d\n" % (pick_offset if isinstance(pick_offset, int) and pick_offset >= 0 else 999)
    body += "def removeTest : String := %s\n" % lean_str(remove_test or "")
    body += "def removeFilter : String := %s\n" % lean_str(remove_filter or "")
    body += "def singleTest : String := %s\n" % lean_str(single_test or "")
    body += "def failTests : List String := %s\n" % lean_str_list(fail_tests)
    body += "def nameTest : String := %s\n" % lean_str(name_test)
    body += "def nameTestBeforeFailBlock : Bool := %s\n" % _bool(name_outside)
    body += "def returns : List String := %s\n" % lean_str_list(ret)
    body += "def layerCalls : List String := %s\n" % lean_str_list(layer)
    body += "def mergeCall : String := %s\n" % lean_str(merge_call or "")
    body += "def settingsCheck : List String := %s\n" % lean_str_list(settings_check)
    body += "def givenFirst : Bool := %s\n" % _bool(bool(given_first))
    body += "def recurseCall : String := %s\n" % lean_str(recurse or "")
    body += "def argvAction : List String := %s\n" % lean_str_list(call_body)
    body += "def applyConfigWith : List String := %s\n" % lean_str_list(with_items)
    body += "def applyConfigKwargs : List String := %s\n" % lean_str_list(["%s=%s" % kv for kv in sorted(kwargs.items())])
    body += "def defaultCfgParseCommon : List String := %s\n" % lean_str_list(["%s=%s" % kv for kv in sorted(pc_kw.items())])
    body += "def parseCommonFailDefault : String := %s\n" % lean_str(defaults.get("fail_no_subcommand", "?"))
    body += "def parseStringPrivate : List String := %s\n" % lean_str_list(["%s=%s" % kv for kv in sorted((ps_private or {}).items())])
    body += "def parseArgsParseCommonKw : List String := %s\n" % lean_str_list(pa_pc or [])
    body += "def envBranch : List String := %s\n" % lean_str_list(env_branch)
    body += "def applyLinksHead : List String := %s\n" % lean_str_list(head)
    body += "def addSubcommand : List String := %s\n" % lean_str_list(add_sub)
    body += "def getEnvVarBody : List String := %s\n" % lean_str_list(gev_body)
    body += "def envPrefixOfSubcommands : List String := %s\n" % lean_str_list(env_prefix_assign + ep_true)
    body += "def defaultConfigFilesLoops : List String := %s\n" % lean_str_list(gdcf_body)
    body += "def parentParsersContext : List String := %s\n" % lean_str_list(ppc_body + hs_ctx)
    body += "def defaultConfigLoad : List String := %s\n" % lean_str_list(key_sel + gd_loop)
    body += "def envOverDefaults : List String := %s\n" % lean_str_list(pde_merge)
    body += "def loadEnvVarsLoops : List String := %s\n" % lean_str_list(lev_tests)
    body += "def defaultEnvPropagation : List String := %s\n" % lean_str_list(de_prop)
    body += "def bodyGetSubcommands : List String := %s\n" % lean_str_list(body_gs)
    body += "def bodyGetSubcommand : List String := %s\n" % lean_str_list(body_gsc)
    body += "def bodyHandleSubcommands : List String := %s\n" % lean_str_list(body_hs)
    body += "def bodyAddSubcommand : List String := %s\n" % lean_str_list(body_asc)
    body += "def bodyAddSubcommands : List String := %s\n" % lean_str_list(body_asc2)
    body += "def loadEnvVarsSkeleton : List String := %s\n" % lean_str_list(le_skeleton)
    body += "def signatures : List String := %s\n" % lean_str_list(["%s(%s)" % (k, ", ".join(v)) for k, v in sorted(sig.items())])
    body += "end Jap.Gen.SubcmdShape\n"
    write_if_changed("SubcmdShape.lean", body)

"""Gen/ExcFlow.lean: the exception-routing tables of the parse methods, read off the AST of
/repo/jsonargparse (+ the live classes for the subclass relation and the loader exception tuples).

For every `Wrapper` of lean/Jap/Core/ExcFlow.lean: the tuple of the `except` clause (or the arguments of
`suppress(..)`) and what the handler body does (calls self.error / raises C / re-raises / swallows);
`ArgumentParser.error`; `get_loader_exceptions(mode)`; `ArgumentParser.exit` default status;
`exit_on_error` of the parsers the library makes itself; the live `issubclass` table over the universe
`inductive Exc` (read from the Lean file so the two lists cannot drift).

A handler that is expected and not found is a *problem* (broken tie) and is emitted with an empty tuple,
so that the routing theorem fails as well.
"""
from __future__ import annotations

import ast
import inspect
import os
import re

from ..extract import write_if_changed
from ..lib.common import LEAN, REPO

OPTIONAL = set()  # handlers that may be absent without it being a problem (none today)


# ----------------------------------------------------------------------------- small AST helpers
def _parse(mod_file):
    with open(os.path.join(REPO, "jsonargparse", mod_file)) as f:
        return ast.parse(f.read())


def _func(tree, qual):
    """find a (possibly nested) function by dotted qualname: Class.method.inner"""
    nodes = tree.body
    node = None
    for part in qual.split("."):
        node = next((n for n in nodes if isinstance(n, (ast.FunctionDef, ast.ClassDef)) and n.name == part), None)
        if node is None:
            return None
        nodes = node.body
    return node


def _calls(node):
    """names of everything called inside `node` (attribute calls by attribute name)"""
    out = set()
    for n in ast.walk(node if isinstance(node, ast.AST) else ast.Module(body=list(node), type_ignores=[])):
        if isinstance(n, ast.Call):
            if isinstance(n.func, ast.Name):
                out.add(n.func.id)
            elif isinstance(n.func, ast.Attribute):
                out.add(n.func.attr)
    return out


def _walk_no_nested_defs(node):
    """ast.walk that does not descend into nested function / class definitions (except the start node)"""
    todo = [node]
    first = True
    while todo:
        n = todo.pop()
        if not first and isinstance(n, (ast.FunctionDef, ast.AsyncFunctionDef, ast.ClassDef, ast.Lambda)):
            continue
        first = False
        yield n
        todo.extend(ast.iter_child_nodes(n))


def _tries(fn):
    return [n for n in _walk_no_nested_defs(fn) if isinstance(n, ast.Try)]


def _withs(fn):
    return [n for n in _walk_no_nested_defs(fn) if isinstance(n, ast.With)]


def _type_entries(t):
    """flatten the expression of an `except` clause into source strings"""
    if t is None:
        return ["BaseException"]  # bare except
    if isinstance(t, ast.Tuple):
        return [x for e in t.elts for x in _type_entries(e)]
    if isinstance(t, ast.BinOp) and isinstance(t.op, ast.Add):
        return _type_entries(t.left) + _type_entries(t.right)
    if isinstance(t, ast.Starred):
        return _type_entries(t.value)
    return [ast.unparse(t)]


class Ex:
    """resolution of class expressions against the live modules"""

    def __init__(self, problems):
        import argparse
        import json

        import jsonargparse
        from jsonargparse import _actions, _core, _loaders_dumpers, _namespace, _typehints, _util
        from jsonargparse import typing as jtyping

        self.problems = problems
        self.mods = {"_core.py": _core, "_actions.py": _actions, "_typehints.py": _typehints, "_util.py": _util,
                     "_loaders_dumpers.py": _loaders_dumpers, "typing.py": jtyping}
        src = open(os.path.join(LEAN, "Jap", "Core", "ExcFlow.lean")).read()
        m = re.search(r"inductive Exc\n(.*?)\nderiving", src, re.S)
        self.names = re.findall(r"\|\s*([A-Za-z_]\w*)", m.group(1))
        live = {}
        import builtins

        special = {
            "ArgumentError": argparse.ArgumentError,
            "ArgumentTypeError": argparse.ArgumentTypeError,
            "JSONDecodeError": json.JSONDecodeError,
            "PathError": _util.PathError,
            "NSKeyError": _namespace.NSKeyError,
        }
        try:
            special["YAMLError"] = __import__("yaml").YAMLError
        except ImportError:
            pass
        try:
            special["TOMLDecodeError"] = __import__("tomllib").TOMLDecodeError
        except ImportError:
            pass
        for n in self.names:
            if n in special:
                live[n] = special[n]
            elif hasattr(builtins, n):
                live[n] = getattr(builtins, n)
            else:
                problems.append("ExcFlow: class %s of the universe cannot be resolved" % n)
        self.live = live
        self.by_obj = {v: k for k, v in live.items()}

    def name_of(self, cls, where):
        if cls in self.by_obj:
            return self.by_obj[cls]
        self.problems.append("ExcFlow: %s mentions %r which is not in the universe `inductive Exc`" % (where, cls))
        return None

    def ref(self, src, mod_file, where):
        """one entry of an except tuple -> Lean ExcRef source (or None)"""
        s = src.replace(" ", "")
        if s == "get_loader_exceptions()":
            return ".loader"
        if s == "json_or_yaml_loader_exceptions":
            from jsonargparse._optionals import pyyaml_available

            return ".loaderOf .yaml" if pyyaml_available else ".loaderOf .json"
        if s == "self.deserializer_exceptions":
            return ".deser"
        try:
            env = dict(vars(self.mods[mod_file]))
            for extra in ("yaml", "json", "argparse"):  # modules the repo imports inside the function
                if extra not in env:
                    try:
                        env[extra] = __import__(extra)
                    except ImportError:
                        pass
            obj = eval(src, env)  # noqa: S307 - Name / Attribute expressions of the repo
        except Exception as ex:  # noqa: BLE001
            self.problems.append("ExcFlow: %s: cannot resolve %r (%r)" % (where, src, ex))
            return None
        if isinstance(obj, tuple):
            self.problems.append("ExcFlow: %s: tuple-valued name %r not supported" % (where, src))
            return None
        n = self.name_of(obj, where)
        return ".cls .%s" % n if n else None


def force_pending_registrations():
    """register_type_on_first_use: make the union of deserializer_exceptions independent of what was parsed before"""
    import datetime
    import decimal
    import uuid

    from jsonargparse import typing as jt

    for cls in (decimal.Decimal, uuid.UUID, datetime.timedelta, bytes, bytearray):
        jt.get_registered_type(cls)


# ----------------------------------------------------------------------------- handler body analysis
def _helper_raises(ex: Ex, helper, where):
    """class raised by raise_unexpected_value / raise_union_unexpected_value / returned by argument_error"""
    if helper == "argument_error":
        tree = _parse("_util.py")
        fn = _func(tree, "argument_error")
        for n in ast.walk(fn) if fn else []:
            if isinstance(n, ast.Return) and isinstance(n.value, ast.Call):
                return ex.ref(ast.unparse(n.value.func), "_util.py", where)
        ex.problems.append("ExcFlow: argument_error no longer returns a constructed exception")
        return None
    tree = _parse("_typehints.py")
    fn = _func(tree, helper)
    for n in ast.walk(fn) if fn else []:
        if isinstance(n, ast.Raise) and isinstance(n.exc, ast.Call):
            return ex.ref(ast.unparse(n.exc.func), "_typehints.py", where)
    ex.problems.append("ExcFlow: %s no longer raises" % helper)
    return None


def handler_act(ex: Ex, body, mod_file, where, bound=None):
    """Lean `Act` of a handler body.  Raises inside nested try/handlers of the body are looked at too
    (first raise in source order wins); `bound` is the `as` name."""
    mod = ast.Module(body=list(body), type_ignores=[])
    for n in ast.walk(mod):
        if isinstance(n, ast.Call) and isinstance(n.func, ast.Attribute) and n.func.attr == "error" and isinstance(n.func.value, ast.Name) and n.func.value.id == "self":
            return ".callsError"
    for n in ast.walk(mod):
        if isinstance(n, ast.Raise):
            if n.exc is None:
                return ".same"
            if isinstance(n.exc, ast.Name):
                # `ex2 = ValueError(..); raise ex2`: the class of the assignment; the bound name itself: same
                for a in ast.walk(mod):
                    if isinstance(a, ast.Assign) and len(a.targets) == 1 and isinstance(a.targets[0], ast.Name) \
                            and a.targets[0].id == n.exc.id and isinstance(a.value, ast.Call):
                        r = ex.ref(ast.unparse(a.value.func), mod_file, where)
                        return ".raises " + r[len(".cls "):] if r and r.startswith(".cls ") else None
                return ".same"
            if isinstance(n.exc, ast.Call):
                f = n.exc.func
                if isinstance(f, ast.Call) and isinstance(f.func, ast.Name) and f.func.id == "type":
                    return ".same"
                if isinstance(f, ast.Name) and f.id == "argument_error":
                    r = _helper_raises(ex, "argument_error", where)
                    return ".raises " + r[len(".cls "):] if r else None
                r = ex.ref(ast.unparse(f), mod_file, where)
                return ".raises " + r[len(".cls "):] if r and r.startswith(".cls ") else None
        if isinstance(n, ast.Call) and isinstance(n.func, ast.Name) and n.func.id in ("raise_unexpected_value", "raise_union_unexpected_value"):
            r = _helper_raises(ex, n.func.id, where)
            return ".raises " + r[len(".cls "):] if r else None
    return ".swallow"


# ----------------------------------------------------------------------------- the wrapper sites
def _outer_error_try(fn):
    """outermost try of a method with a handler that calls self.error (source order, least nesting)"""
    best = None

    def visit(stmts, depth):
        nonlocal best
        for st in stmts:
            if isinstance(st, ast.Try):
                for h in st.handlers:
                    if "error" in _calls(h.body) and any(
                        isinstance(c, ast.Call) and isinstance(c.func, ast.Attribute) and c.func.attr == "error"
                        and isinstance(c.func.value, ast.Name) and c.func.value.id == "self"
                        for c in ast.walk(ast.Module(body=h.body, type_ignores=[]))
                    ):
                        if best is None or depth < best[0]:
                            best = (depth, st, h)
                visit(st.body, depth + 1)
            elif isinstance(st, (ast.With, ast.If, ast.For, ast.While)):
                visit(st.body, depth + 1)
                visit(getattr(st, "orelse", []), depth + 1)

    visit(fn.body, 0)
    return best


def _try_with_call(fn, called, handler_pred=None):
    """first try (source order) in fn whose *body* calls `called`; handler chosen by handler_pred (default first)"""
    cands = sorted(_tries(fn), key=lambda t: (t.lineno, t.col_offset))
    for t in cands:
        if called in _calls(t.body):
            hs = [h for h in t.handlers if handler_pred is None or handler_pred(h)]
            if hs:
                return t, hs[0]
    return None, None


def _innermost_try_with_call(fn, called):
    cands = sorted(_tries(fn), key=lambda t: (-t.lineno, t.col_offset))
    for t in cands:
        if called in _calls(t.body) and t.handlers:
            return t, t.handlers[0]
    return None, None


def _suppress_with_call(fn, called):
    for w in sorted(_withs(fn), key=lambda t: (t.lineno, t.col_offset)):
        for it in w.items:
            c = it.context_expr
            if isinstance(c, ast.Call) and isinstance(c.func, ast.Name) and c.func.id == "suppress" and called in _calls(w.body):
                return c
    return None


def generate(problems):
    ex = Ex(problems)
    core = _parse("_core.py")
    actions = _parse("_actions.py")
    th = _parse("_typehints.py")
    util = _parse("_util.py")
    ld = _parse("_loaders_dumpers.py")
    ty = _parse("typing.py")

    handlers = {}  # wrapper lean name -> (list of ExcRef src, act src, note)

    def put(name, mod_file, where, type_node_or_entries, body, act=None):
        entries = type_node_or_entries if isinstance(type_node_or_entries, list) else _type_entries(type_node_or_entries)
        refs = []
        for e in entries:
            r = ex.ref(e, mod_file, where)
            if r:
                refs.append(r)
        a = act or handler_act(ex, body, mod_file, where)
        if a is None:
            problems.append("ExcFlow: %s: cannot tell what the handler does" % where)
            a = ".same"
        handlers[name] = (refs, a, where)

    def missing(name, where):
        if name.split(" ")[0].lstrip("(.") not in OPTIONAL and name not in OPTIONAL:
            problems.append("ExcFlow: expected handler not found: %s" % where)
        handlers[name] = ([], ".same", where + " (NOT FOUND)")

    # --- public methods ---------------------------------------------------------------------------
    for meth, lean in (("parse_args", "parseArgs"), ("parse_object", "parseObject"), ("parse_string", "parseString"), ("parse_env", "parseEnv")):
        where = "ArgumentParser.%s outer handler" % meth
        fn = _func(core, "ArgumentParser." + meth)
        best = _outer_error_try(fn) if fn else None
        if best and best[0] == 0:
            put("outer .%s" % lean, "_core.py", where, best[2].type, best[2].body)
        else:
            missing("outer .%s" % lean, where)
    # parse_path has no handler of this kind around its body; its own handler is `pathOwn`
    handlers["outer .parsePath"] = ([], ".same", "parse_path: no handler around the body (get_content, parse_string)")
    fn = _func(core, "ArgumentParser.parse_path")
    t, h = _try_with_call(fn, "Path") if fn else (None, None)
    if h is not None and handler_act(ex, h.body, "_core.py", "parse_path") == ".callsError":
        put("pathOwn", "_core.py", "ArgumentParser.parse_path handler around Path(..)", h.type, h.body)
        # further handlers of the same try (2c9f0ad: `except (ValueError, OSError)` -> self.error, get_content() inside the try)
        more = [x for x in t.handlers if x is not h and handler_act(ex, x.body, "_core.py", "parse_path") == ".callsError"]
        if more and "get_content" in _calls(t.body):
            put("pathRead", "_core.py", "ArgumentParser.parse_path second handler of the try around Path(..) and get_content()", more[0].type, more[0].body)
        else:
            missing("pathRead", "ArgumentParser.parse_path `except (ValueError, OSError)` around Path(..) and get_content() calling self.error")
        outer = _outer_error_try(fn)
        if outer and outer[1] is not t and "parse_string" in _calls(outer[1].body):
            put("outer .parsePath", "_core.py", "ArgumentParser.parse_path outer handler", outer[2].type, outer[2].body)
        elif "parse_string" in _calls(t.body):
            # one handler around everything
            put("outer .parsePath", "_core.py", "ArgumentParser.parse_path handler around the whole body", h.type, h.body)
    else:
        missing("pathOwn", "ArgumentParser.parse_path handler around Path(..) calling self.error")
        missing("pathRead", "ArgumentParser.parse_path `except (ValueError, OSError)` around Path(..) and get_content() calling self.error")

    fn = _func(core, "ArgumentParser.parse_known_args")
    best = _outer_error_try(fn) if fn else None
    if best:
        put("knownArgs", "_core.py", "ArgumentParser.parse_known_args handler", best[2].type, best[2].body)
    else:
        missing("knownArgs", "ArgumentParser.parse_known_args handler calling self.error")

    fn = _func(core, "ArgumentParser._parse_common")
    t, h = _try_with_call(fn, "apply_parsing_links") if fn else (None, None)
    if h is not None:
        put("links", "_core.py", "ArgumentParser._parse_common handler around apply_parsing_links", h.type, h.body)
    else:
        missing("links", "_parse_common handler around apply_parsing_links")

    fn = _func(core, "ArgumentParser.get_defaults")
    t, h = _try_with_call(fn, "_parse_common") if fn else (None, None)
    if h is not None:
        put("getDefaults", "_core.py", "ArgumentParser.get_defaults handler around _parse_common", h.type, h.body)
    else:
        missing("getDefaults", "get_defaults handler around _parse_common")

    fn = _func(core, "ArgumentParser._get_default_config_files")
    c = _suppress_with_call(fn, "Path") if fn else None
    if c is not None:
        put("defaultPaths", "_core.py", "_get_default_config_files suppress(..)", [e for a in c.args for e in _type_entries(a)], [], act=".swallow")
    else:
        missing("defaultPaths", "_get_default_config_files suppress(..) around Path(..)")

    fn = _func(core, "ArgumentParser.validate")
    t, h = _try_with_call(fn, "check_values") if fn else (None, None)
    if h is not None:
        put("validate", "_core.py", "ArgumentParser.validate handler", h.type, h.body)
    else:
        missing("validate", "validate handler around check_values")
    fn = _func(core, "ArgumentParser.validate.check_required")
    ts = sorted(_tries(fn), key=lambda t: t.lineno) if fn else []
    if ts and ts[0].handlers:
        put("required", "_core.py", "validate.check_required handler", ts[0].handlers[0].type, ts[0].handlers[0].body)
    else:
        missing("required", "validate.check_required handler")

    fn = _func(core, "ArgumentParser._load_config_parser_mode")
    t, h = _try_with_call(fn, "load_value") if fn else (None, None)
    if h is not None:
        put("lcpm", "_core.py", "_load_config_parser_mode handler around load_value", h.type, h.body)
    else:
        missing("lcpm", "_load_config_parser_mode handler around load_value")

    fn = _func(core, "ArgumentParser._check_value_key")
    t, h = _try_with_call(fn, "type") if fn else (None, None)
    if h is not None:
        put("checkValueKey", "_core.py", "_check_value_key handler around action.type(..)", h.type, h.body)
    else:
        missing("checkValueKey", "_check_value_key handler around action.type(..)")

    fn = _func(core, "ArgumentParser._load_env_vars")
    t, h = _try_with_call(fn, "load_value") if fn else (None, None)
    if h is not None:
        put("envList", "_core.py", "_load_env_vars handler around load_value", h.type, h.body)
    else:
        missing("envList", "_load_env_vars handler around load_value")

    # --- _typehints.py ----------------------------------------------------------------------------
    fn = _func(th, "ActionTypeHint._check_type")
    outer = None
    if fn:
        for t in sorted(_tries(fn), key=lambda t: t.lineno):
            if "adapt_typehints" in _calls(t.body) and "parse_value_or_config" in _calls(t.body):
                outer = t
                break
    if outer is not None and outer.handlers:
        put("checkType", "_typehints.py", "ActionTypeHint._check_type outer handler", outer.handlers[0].type, outer.handlers[0].body)
    else:
        missing("checkType", "ActionTypeHint._check_type outer handler")
    t, h = _innermost_try_with_call(fn, "parse_value_or_config") if fn else (None, None)
    if h is not None and t is not outer:
        put("checkTypeLoad", "_typehints.py", "_check_type handler around parse_value_or_config", h.type, h.body)
    else:
        missing("checkTypeLoad", "_check_type handler around parse_value_or_config")

    fn = _func(util, "parse_value_or_config")
    t, h = _try_with_call(fn, "Path") if fn else (None, None)
    if h is not None:
        put("vocPath", "_util.py", "parse_value_or_config handler around Path(..)", h.type, h.body)
    else:
        missing("vocPath", "parse_value_or_config handler around Path(..)")

    fn = _func(th, "adapt_typehints")
    c = _suppress_with_call(fn, "parse_value_or_config") if fn else None
    if c is not None:
        put("anyLoad", "_typehints.py", "adapt_typehints Any: suppress(..)", [e for a in c.args for e in _type_entries(a)], [], act=".swallow")
    else:
        missing("anyLoad", "adapt_typehints Any: suppress(..) around parse_value_or_config")
    c = _suppress_with_call(fn, "json_or_yaml_load") if fn else None
    if c is not None:
        put("leafLoad", "_typehints.py", "adapt_typehints basic types: suppress(..)", [e for a in c.args for e in _type_entries(a)], [], act=".swallow")
    else:
        missing("leafLoad", "adapt_typehints basic types: suppress(..) around json_or_yaml_load")
    for name, called, what in (("annotated", "validate_annotated", "Annotated validator"),
                               ("subclassBranch", "is_subclass_or_implements_protocol", "subclass branch"),
                               ("callableBranch", "adapt_partial_callable_class", "Callable branch")):
        t, h = _try_with_call(fn, called) if fn else (None, None)
        if h is not None:
            put(name, "_typehints.py", "adapt_typehints %s handler" % what, h.type, h.body)
        else:
            missing(name, "adapt_typehints %s handler" % what)
    # dataclass-like branch: `try: val = parser.parse_object(..) except ArgumentError` (52e5b95); both calls must be wrapped alike
    dc = []
    if fn:
        for t in sorted(_tries(fn), key=lambda t: t.lineno):
            src = ast.unparse(ast.Module(body=t.body, type_ignores=[])).strip()
            if src.startswith("val = parser.parse_object(") or src.startswith("val = parser.parse_args("):
                dc.append(t)
    kinds = {ast.unparse(ast.Module(body=t.body, type_ignores=[])).strip().split("(")[0] for t in dc}
    if len(dc) >= 2 and kinds == {"val = parser.parse_object", "val = parser.parse_args"} and \
            len({(ast.unparse(t.handlers[0].type), handler_act(ex, t.handlers[0].body, "_typehints.py", "dataclass branch")) for t in dc}) == 1:
        put("dataclassBranch", "_typehints.py", "adapt_typehints dataclass branch handlers around the internal parser", dc[0].handlers[0].type, dc[0].handlers[0].body)
    else:
        missing("dataclassBranch", "adapt_typehints dataclass branch: handlers around parser.parse_object / parser.parse_args")
    # Enum: `try: val = typehint[val] except KeyError`
    enum_try = None
    type_try = None
    union_try = None
    if fn:
        for t in sorted(_tries(fn), key=lambda t: t.lineno):
            src = ast.unparse(ast.Module(body=t.body, type_ignores=[]))
            if enum_try is None and "typehint[val]" in src:
                enum_try = t
            if union_try is None and "vals.append(adapt_typehints(" in src:
                union_try = t
            if type_try is None and re.search(r"^val = import_object\(val\)$", src, re.M) and "resolve_class_path_by_name" not in src:
                type_try = t
    if enum_try is not None:
        put("enumLookup", "_typehints.py", "adapt_typehints Enum handler", enum_try.handlers[0].type, enum_try.handlers[0].body)
    else:
        missing("enumLookup", "adapt_typehints Enum handler")
    if union_try is not None:
        # the handler collects the exception; when every member failed raise_union_unexpected_value raises
        r = _helper_raises(ex, "raise_union_unexpected_value", "adapt_typehints Union")
        put("unionTry", "_typehints.py", "adapt_typehints Union handler", union_try.handlers[0].type, union_try.handlers[0].body,
            act=(".raises " + r[len(".cls "):]) if r else None)
    else:
        missing("unionTry", "adapt_typehints Union handler")
    float_try = None
    if fn:
        for t in sorted(_tries(fn), key=lambda t: t.lineno):
            if ast.unparse(ast.Module(body=t.body, type_ignores=[])).strip() == "val = float(val)":
                float_try = t
                break
    if float_try is not None:
        put("floatConv", "_typehints.py", "adapt_typehints basic types handler around float(val)", float_try.handlers[0].type, float_try.handlers[0].body)
    else:
        missing("floatConv", "adapt_typehints basic types: handler around float(val)")
    if type_try is not None:
        put("typeImport", "_typehints.py", "adapt_typehints Type[..] handler around import_object", type_try.handlers[0].type, type_try.handlers[0].body)
    else:
        missing("typeImport", "adapt_typehints Type[..]: no handler around import_object")

    fn = _func(th, "adapt_classes_any")
    t, h = _try_with_call(fn, "adapt_class_type") if fn else (None, None)
    if h is not None:
        put("anyClasses", "_typehints.py", "adapt_classes_any handler", h.type, h.body)
    else:
        missing("anyClasses", "adapt_classes_any handler around adapt_class_type")
    fn = _func(th, "adapt_class_type")
    c = _suppress_with_call(fn, "load_value") if fn else None
    if c is not None:
        put("dictKwargsLoad", "_typehints.py", "adapt_class_type suppress(..)", [e for a in c.args for e in _type_entries(a)], [], act=".swallow")
    else:
        missing("dictKwargsLoad", "adapt_class_type suppress(..) around load_value")
    fn = _func(th, "discard_init_args_on_class_path_change")
    t, h = _try_with_call(fn, "_check_value_key") if fn else (None, None)
    if h is not None:
        put("discard", "_typehints.py", "discard_init_args_on_class_path_change handler", h.type, h.body)
    else:
        missing("discard", "discard_init_args_on_class_path_change handler")

    # --- typing.py ---------------------------------------------------------------------------------
    fn = _func(ty, "RegisteredType.deserializer")
    t, h = _try_with_call(fn, "base_deserializer") if fn else (None, None)
    if h is not None:
        put("registered", "typing.py", "RegisteredType.deserializer handler", h.type, h.body)
    else:
        missing("registered", "RegisteredType.deserializer handler")

    # --- _actions.py -------------------------------------------------------------------------------
    fn = _func(actions, "ActionConfigFile.apply_config")
    t, h = _try_with_call(fn, "Path") if fn else (None, None)
    if h is not None:
        inner = [x for x in _walk_no_nested_defs(ast.Module(body=h.body, type_ignores=[])) if isinstance(x, ast.Try)]
        put("applyConfigPath", "_actions.py", "apply_config handler around Path(..)", h.type, h.body, act=".same")
        if inner and inner[0].handlers and "parse_string" in _calls(inner[0].body):
            put("applyConfigStr", "_actions.py", "apply_config handler of the string branch", inner[0].handlers[0].type, inner[0].handlers[0].body)
        else:
            missing("applyConfigStr", "apply_config handler of the string branch")
    else:
        missing("applyConfigPath", "apply_config handler around Path(..)")
        missing("applyConfigStr", "apply_config handler of the string branch")
    fn = _func(actions, "_ActionConfigLoad._load_config")
    t, h = _try_with_call(fn, "parse_value_or_config") if fn else (None, None)
    if h is not None:
        put("configLoad", "_actions.py", "_ActionConfigLoad._load_config handler", h.type, h.body)
    else:
        missing("configLoad", "_ActionConfigLoad._load_config handler")
    fn = _func(actions, "_ActionHelpClassPath.print_help")
    t, h = _try_with_call(fn, "import_object") if fn else (None, None)
    if h is not None:
        put("helpImport", "_actions.py", "_ActionHelpClassPath.print_help handler", h.type, h.body)
    else:
        missing("helpImport", "_ActionHelpClassPath.print_help handler")

    # --- _loaders_dumpers.py -----------------------------------------------------------------------
    fn = _func(ld, "yaml_load")
    t, h = _try_with_call(fn, "load") if fn else (None, None)
    if h is not None:
        put("yamlLoad", "_loaders_dumpers.py", "yaml_load handler around yaml.load", h.type, h.body)
    else:
        missing("yamlLoad", "yaml_load handler around yaml.load")

    # --- calls of failing steps that sit OUTSIDE every `try .. except: self.error(..)` of their method --------
    RISKY = {"_parse_defaults_and_environ", "merge_config", "_apply_actions", "_parse_common", "parse_known_args", "_positional_optionals",
             "_load_config_parser_mode", "Path", "get_content", "parse_string", "parse_path", "recreate_branches", "_load_env_vars", "get_defaults",
             "validate", "load_value", "change_to_path_dir"}
    uncovered = {}

    def calls_error(h):
        return any(isinstance(c, ast.Call) and isinstance(c.func, ast.Attribute) and c.func.attr == "error" and isinstance(c.func.value, ast.Name)
                   and c.func.value.id == "self" for c in ast.walk(ast.Module(body=h.body, type_ignores=[])))

    def scan(stmts, covered, acc):
        for st in stmts:
            if isinstance(st, ast.Try):
                cov = covered or any(calls_error(h) for h in st.handlers)
                scan(st.body, cov, acc)
                for h in st.handlers:
                    scan(h.body, covered, acc)
                scan(st.orelse, covered, acc)
                scan(st.finalbody, covered, acc)
                continue
            if isinstance(st, (ast.FunctionDef, ast.AsyncFunctionDef, ast.ClassDef)):
                continue
            subs = []
            for field in ("body", "orelse"):
                subs += getattr(st, field, []) if isinstance(getattr(st, field, None), list) else []
            heads = [st] if not subs else []
            if subs:
                # the header expressions of with / if / for / while
                for field in ("items", "test", "iter"):
                    v = getattr(st, field, None)
                    if v is not None:
                        heads += v if isinstance(v, list) else [v]
            for hnode in heads:
                for c in ast.walk(hnode):
                    if isinstance(c, ast.Call):
                        name = c.func.id if isinstance(c.func, ast.Name) else (c.func.attr if isinstance(c.func, ast.Attribute) else None)
                        if name in RISKY and not covered and name not in acc:
                            acc.append(name)
            if subs:
                scan(subs, covered, acc)

    for meth, lean in (("parse_args", "parseArgs"), ("parse_object", "parseObject"), ("parse_string", "parseString"), ("parse_env", "parseEnv"), ("parse_path", "parsePath")):
        fn = _func(core, "ArgumentParser." + meth)
        acc = []
        if fn is not None:
            scan(fn.body, False, acc)
        else:
            problems.append("ExcFlow: ArgumentParser.%s not found" % meth)
        uncovered[lean] = acc

    # --- error() -----------------------------------------------------------------------------------
    fn = _func(core, "ArgumentParser.error")
    raises_no_exit, exit_status, usage, errline = "none", "none", "false", "false"
    if fn is None:
        problems.append("ExcFlow: ArgumentParser.error not found")
    else:
        for st in fn.body:
            if isinstance(st, ast.If) and "self.exit_on_error" in ast.unparse(st.test) and isinstance(st.test, ast.UnaryOp) and isinstance(st.test.op, ast.Not):
                for n in st.body:
                    if isinstance(n, ast.Raise) and isinstance(n.exc, ast.Call) and isinstance(n.exc.func, ast.Name):
                        if n.exc.func.id == "argument_error":
                            r = _helper_raises(ex, "argument_error", "ArgumentParser.error")
                        else:
                            r = ex.ref(n.exc.func.id, "_core.py", "ArgumentParser.error")
                        if r:
                            raises_no_exit = "some " + r[len(".cls "):]
        last = fn.body[-1]
        if isinstance(last, ast.Expr) and isinstance(last.value, ast.Call) and isinstance(last.value.func, ast.Attribute) and last.value.func.attr == "exit" \
                and len(last.value.args) == 1 and isinstance(last.value.args[0], ast.Constant) and isinstance(last.value.args[0].value, int):
            exit_status = "some %d" % last.value.args[0].value
        for st in fn.body:
            s = ast.unparse(st)
            if s.startswith("self.print_usage(sys.stderr"):
                usage = "true"
            if s.startswith("sys.stderr.write(") and "error: " in s:
                errline = "true"
        if raises_no_exit == "none":
            problems.append("ExcFlow: error() no longer raises argument_error when exit_on_error is false")
        if exit_status == "none":
            problems.append("ExcFlow: error() no longer ends with self.exit(<int>)")

    # --- live facts --------------------------------------------------------------------------------
    import argparse

    from jsonargparse import ArgumentParser
    from jsonargparse._loaders_dumpers import get_loader_exceptions, loaders

    plain_exit = inspect.signature(argparse.ArgumentParser.exit).parameters["status"].default
    if "exit" in vars(ArgumentParser):
        problems.append("ExcFlow: jsonargparse.ArgumentParser now overrides exit()")
    params = inspect.signature(ArgumentParser.__init__).parameters
    if "exit_on_error" not in params:
        params = inspect.signature(argparse.ArgumentParser.__init__).parameters
    default_eoe = params["exit_on_error"].default

    def made_parser_eoe(tree, qual, where):
        fn = _func(tree, qual)
        for n in ast.walk(fn) if fn else []:
            if isinstance(n, ast.Call) and isinstance(n.func, ast.Call) and isinstance(n.func.func, ast.Name) and n.func.func.id == "type" \
                    and ast.unparse(n.func.args[0]) == "parser":
                for kw in n.keywords:
                    if kw.arg == "exit_on_error" and isinstance(kw.value, ast.Constant):
                        return bool(kw.value.value)
                    if kw.arg == "exit_on_error" and ast.unparse(kw.value) == "parser.exit_on_error":
                        return None  # inherits
                    if kw.arg == "exit_on_error":
                        problems.append("ExcFlow: %s passes exit_on_error=%s" % (where, ast.unparse(kw.value)))
                return bool(default_eoe)
        problems.append("ExcFlow: %s no longer creates a parser with type(parser)(..)" % where)
        return bool(default_eoe)

    inner_eoe = made_parser_eoe(th, "ActionTypeHint.get_class_parser", "get_class_parser")
    if inner_eoe is None:
        problems.append("ExcFlow: get_class_parser now inherits exit_on_error (the model takes a constant)")
        inner_eoe = False
    help_eoe = made_parser_eoe(actions, "_ActionHelpClassPath.print_help", "_ActionHelpClassPath.print_help")

    # attributes add_subcommand copies from the parent parser to the sub-command parser:
    # `parser.X = self.parent_parser.X` and `for a in (..): setattr(parser, a, getattr(self.parent_parser, a))`
    sub_inherited = []
    fn = _func(actions, "_ActionSubCommands.add_subcommand")
    if fn is None:
        problems.append("ExcFlow: _ActionSubCommands.add_subcommand not found")
    else:
        for n in _walk_no_nested_defs(fn):
            if isinstance(n, ast.Assign) and len(n.targets) == 1 and isinstance(n.targets[0], ast.Attribute) \
                    and isinstance(n.targets[0].value, ast.Name) and n.targets[0].value.id == "parser" \
                    and isinstance(n.value, ast.Attribute) and ast.unparse(n.value.value) == "self.parent_parser" \
                    and n.value.attr == n.targets[0].attr:
                sub_inherited.append(n.value.attr)
            if isinstance(n, ast.For) and isinstance(n.target, ast.Name) and isinstance(n.iter, (ast.Tuple, ast.List, ast.Set)):
                var = n.target.id
                copies = any(isinstance(c, ast.Call) and isinstance(c.func, ast.Name) and c.func.id == "setattr" and len(c.args) == 3
                             and ast.unparse(c.args[0]) == "parser" and ast.unparse(c.args[1]) == var
                             and ast.unparse(c.args[2]).replace(" ", "") == "getattr(self.parent_parser,%s)" % var
                             for c in ast.walk(ast.Module(body=n.body, type_ignores=[])))
                if copies:
                    sub_inherited += [e.value for e in n.iter.elts if isinstance(e, ast.Constant) and isinstance(e.value, str)]
        if not sub_inherited:
            problems.append("ExcFlow: add_subcommand no longer copies settings of the parent parser to the sub-command parser")

    # where parse_args drops a pending print_config request: `self.__dict__.pop("print_config", ..)` / delattr / del
    def drops_request(stmts):
        for n in ast.walk(ast.Module(body=list(stmts), type_ignores=[])):
            src = ast.unparse(n) if isinstance(n, (ast.Call, ast.Delete)) else ""
            if "print_config" in src and (".pop(" in src or src.startswith("delattr(") or src.startswith("del ")):
                return True
        return False

    cleanup = ".absent"
    fn = _func(core, "ArgumentParser.parse_args")
    best = _outer_error_try(fn) if fn else None
    if best and best[0] == 0:
        t = best[1]
        if drops_request(t.finalbody):
            cleanup = ".inFinally"
        elif any(drops_request(h.body) for h in t.handlers):
            cleanup = ".inHandlerOnly"
    if cleanup == ".absent":
        problems.append("ExcFlow: parse_args no longer drops a pending print_config request around its try block")

    # explicit checks introduced by repairs (a missing one is a reverted repair)
    guards = []
    fn = _func(actions, "_ActionSubCommands.get_subcommands")
    for n in fn.body if fn else []:  # a statement of the function body itself: not under `if fail_no_subcommand:` (456b357)
        if isinstance(n, ast.If):
            t = ast.unparse(n.test)
            if "not in action._name_parser_map" in t and "subcommand is not None" in t and \
                    any(isinstance(r, ast.Raise) and "NSKeyError" in ast.unparse(r) for r in ast.walk(ast.Module(body=n.body, type_ignores=[]))):
                guards.append("unknown_subcommand_name@get_subcommands")
                break
    fn = _func(actions, "_ActionSubCommands.__call__")
    if fn:
        chk = [c.lineno for c in ast.walk(fn) if isinstance(c, ast.Call) and isinstance(c.func, ast.Name) and c.func.id == "_check_subcommand_settings"]
        cl = [c.lineno for c in ast.walk(fn) if isinstance(c, ast.Call) and isinstance(c.func, ast.Attribute) and c.func.attr == "clone"]
        if chk and (not cl or min(chk) < min(cl)):
            guards.append("subcommand_settings@__call__")
    fn = _func(actions, "_ActionSubCommands.handle_subcommands")
    if fn and "_check_subcommand_settings" in _calls(fn):
        guards.append("subcommand_settings@handle_subcommands")
    fn = _func(actions, "_check_subcommand_settings")
    for n in ast.walk(fn) if fn else []:
        if isinstance(n, ast.Raise) and isinstance(n.exc, ast.Call) and ex.ref(ast.unparse(n.exc.func), "_actions.py", "_check_subcommand_settings") == ".cls .TypeError":
            guards.append("subcommand_settings_raises_TypeError")
            break
    fn = _func(core, "ArgumentParser._check_value_key")
    if fn:
        chk = [c.lineno for c in ast.walk(fn) if isinstance(c, ast.Call) and isinstance(c.func, ast.Name) and c.func.id == "_check_subcommand_settings"]
        val = [c.lineno for c in ast.walk(fn) if isinstance(c, ast.Call) and isinstance(c.func, ast.Attribute) and c.func.attr == "validate"]
        if chk and val and min(chk) < min(val):
            guards.append("subcommand_settings@_check_value_key")
    fn = _func(th, "adapt_classes_any")
    if fn and any(isinstance(n, ast.If) and "isinstance(init_args, Namespace)" in ast.unparse(n.test) for n in ast.walk(fn)):
        guards.append("init_args_namespace@adapt_classes_any")

    loader_exc = {}
    for mode in ("yaml", "json", "toml", "jsonnet"):
        if mode not in loaders:
            loader_exc[mode] = []
            continue
        try:
            tup = get_loader_exceptions(mode)
        except Exception as e:  # noqa: BLE001 - optional dependency missing
            loader_exc[mode] = []
            continue
        loader_exc[mode] = [n for n in (ex.name_of(c, "get_loader_exceptions(%r)" % mode) for c in tup) if n]

    from jsonargparse.typing import registered_type_handlers

    force_pending_registrations()
    deser = []
    for k, v in registered_type_handlers.items():
        tup = v.deserializer_exceptions
        tup = tup if isinstance(tup, tuple) else (tup,)
        for c in tup:
            n = ex.name_of(c, "deserializer_exceptions of %r" % (k,))
            if n and n not in deser:
                deser.append(n)

    # --- emit ----------------------------------------------------------------------------------------
    names = ex.names
    out = ["import Jap.Core.ExcFlow", "namespace Jap.Gen.ExcFlow", "open Jap.ExcFlow", ""]
    out.append("/-- live `issubclass` among the classes of the universe -/")
    out.append("def ancestors : Exc → List Exc")
    for n in names:
        cls = ex.live.get(n)
        anc = [m for m in names if cls is not None and ex.live.get(m) is not None and issubclass(cls, ex.live[m])]
        out.append("  | .%s => [%s]" % (n, ", ".join("." + a for a in anc)))
    out.append("")
    out.append("def handler : Wrapper → Handler")
    order = ["outer .parseArgs", "outer .parseObject", "outer .parseString", "outer .parseEnv", "outer .parsePath", "knownArgs", "pathOwn", "links",
             "pathRead", "dataclassBranch", "getDefaults", "defaultPaths", "validate", "required", "lcpm", "checkValueKey", "envList", "checkType", "checkTypeLoad", "vocPath",
             "anyLoad", "leafLoad", "annotated", "registered", "enumLookup", "typeImport", "floatConv", "unionTry", "subclassBranch", "callableBranch",
             "anyClasses", "dictKwargsLoad", "discard", "applyConfigPath", "applyConfigStr", "configLoad", "helpImport", "yamlLoad"]
    for w in order:
        refs, act, where = handlers.get(w, ([], ".same", "NOT EXTRACTED"))
        if w not in handlers:
            problems.append("ExcFlow: wrapper %s was not extracted" % w)
        out.append("  -- %s" % where)
        out.append("  | .%s => ⟨[%s], %s⟩" % (w, ", ".join(refs), act))
    out.append("")
    out.append("def loaderExc : Mode → List Exc")
    for mode in ("yaml", "json", "toml", "jsonnet"):
        out.append("  | .%s => [%s]" % (mode, ", ".join("." + n for n in loader_exc[mode])))
    out.append("")
    out.append("/-- failing steps a public method calls outside every `try .. except ..: self.error(..)` of its body -/")
    out.append("def uncovered : Method → List String")
    for lean in ("parseArgs", "parseObject", "parseString", "parseEnv", "parsePath"):
        out.append("  | .%s => [%s]" % (lean, ", ".join('"%s"' % n for n in uncovered[lean])))
    out.append("")
    out.append("def tables : Tables where")
    out.append("  ancestors := ancestors")
    out.append("  handler := handler")
    out.append("  loaderExc := loaderExc")
    out.append("  deserExc := [%s]" % ", ".join("." + n for n in deser))
    out.append("  error := { raisesWhenNoExit := %s, exitStatus := %s, usageToStderr := %s, errorLineToStderr := %s }"
               % (raises_no_exit, exit_status, usage, errline))
    out.append("  plainExit := %d" % plain_exit)
    out.append("  innerExitOnError := %s" % ("true" if inner_eoe else "false"))
    out.append("  helpExitOnError := %s" % ("none" if help_eoe is None else "some true" if help_eoe else "some false"))
    out.append("  subInherited := [%s]" % ", ".join('"%s"' % a for a in sub_inherited))
    out.append("  printConfigCleanup := %s" % cleanup)
    out.append("  guards := [%s]" % ", ".join('"%s"' % g for g in guards))
    out.append("")
    out.append("end Jap.Gen.ExcFlow")
    write_if_changed("ExcFlow.lean", "\n".join(out) + "\n")
    _certificate(problems)


def _certificate(problems):
    """Gen/ExcFlowCert.lean: the least fixed point `flight tables mode top` for every (mode, exit_on_error),
    computed by the Lean driver (compiled evaluation) and written as literal tables.  The kernel does not
    trust it: Props/C03.lean checks that each table is closed and that its root rows conform.  Recomputed
    only when the model or the regenerated tables changed (key = hash of both sources)."""
    import hashlib
    import json
    import subprocess

    from ..extract import GEN, HEADER

    core = open(os.path.join(LEAN, "Jap", "Core", "ExcFlow.lean")).read()
    gen = open(os.path.join(GEN, "ExcFlow.lean")).read()
    key = hashlib.sha256((core + "\0" + gen).encode()).hexdigest()[:24]
    path = os.path.join(GEN, "ExcFlowCert.lean")
    if os.path.exists(path) and ("-- key: " + key + "\n") in open(path).read():
        return
    # (the caller holds the lake lock when this runs inside ./check)
    p = subprocess.run(["lake", "build", "Jap.Gen.ExcFlow"], cwd=LEAN, stdout=subprocess.PIPE, stderr=subprocess.STDOUT, text=True, timeout=1800)
    if p.returncode != 0:
        problems.append("ExcFlow: the regenerated tables do not build: " + " | ".join(l for l in p.stdout.split("\n") if l.startswith("error"))[:600])
        return
    p = subprocess.run(["lake", "env", "lean", "--run", "Drv/ExcFlow.lean"], cwd=LEAN, input='{"q":"cert"}\n',
                       stdout=subprocess.PIPE, stderr=subprocess.PIPE, text=True, timeout=1800)
    if p.returncode != 0:
        problems.append("ExcFlow: driver failed while computing the flight tables: " + (p.stdout + p.stderr)[-600:])
        return
    rows = json.loads(p.stdout.strip().split("\n")[-1])
    out = ["-- key: " + key, "import Jap.Core.ExcFlow", "namespace Jap.Gen.ExcFlowCert", "open Jap.ExcFlow", "",
           "/-- candidate for `flight Jap.Gen.ExcFlow.tables mode top`, as computed by Drv/ExcFlow.lean; checked, not trusted -/",
           "def cert : Mode → Bool → Flight"]
    for r in rows:
        tbl = ",\n     ".join("[" + ", ".join(str(n) for n in row) + "]" for row in r["table"])
        out.append("  | .%s, %s =>\n    [%s]" % (r["mode"], "true" if r["top"] else "false", tbl))
    out += ["", "end Jap.Gen.ExcFlowCert"]
    write_if_changed("ExcFlowCert.lean", "\n".join(out) + "\n")

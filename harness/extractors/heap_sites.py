"""Gen/HeapSites.lean: (1) the copy policy per container kind, probed on the live code; (2) the copy sites of
the public operations, read off the ast of /repo/jsonargparse/_core.py.

(1) kind table, one row (kind, recreated, inplace) for list, tuple, set, dict, ns, odict (OrderedDict),
    ntuple (a tuple subclass):
    recreated = `recreate_branches(x) is not x` (and, when x can hold a list, the list below it is copied too);
    inplace   = the adapter writes adapted elements back into the very object it was given
                (`adapt_typehints(x, hint)` with an element '1' that adapts to 1: did x itself change?  For
                Namespace: `_apply_actions(ns)` returns ns itself with the adapted value).
(2) copy sites: for every public operation, is its config argument copied before anything else is done
    with it?  A parameter is *copied* when every load of its name is (a) the argument of a copier
    (`strip_meta(x)`, `recreate_branches(x)`, `x.clone()`), of another operation that copies
    (`self.dump/validate/merge_config(...)`), of a logger call or a bare truth test, until (b) the name is
    rebound to such a copy.  get_defaults: the value stored under `cfg[action.dest]` is
    `recreate_branches(action.default)`.
(3) sub-defaults: `ActionTypeHint.add_sub_defaults` (run by every parse and by get_defaults) must write the
    spec derived from a `lazy_instance` signature default into `init_args` of every class spec of a
    configuration — a spec that is the value itself, an element of a list, a value of a dict — otherwise
    instantiation falls back to the ONE live default object of the signature.  Probed on the live code with a
    probe class in a temp module: one row (position, expanded) per position.
"""
from __future__ import annotations

import ast
import os

from ..extract import lean_str, write_if_changed
from ..lib.common import REPO

KINDS = ["list", "tuple", "set", "dict", "ns", "odict", "ntuple"]
COPIERS = {"strip_meta", "recreate_branches"}
COPYING_METHODS = {"dump", "validate", "merge_config", "save"}


# ----------------------------------------------------------------- (1) live probe
def probe_kinds(problems):
    from collections import OrderedDict, namedtuple
    from typing import Dict, List, Set, Tuple

    from jsonargparse import ArgumentParser, Namespace
    from jsonargparse._namespace import recreate_branches
    from jsonargparse._typehints import adapt_typehints

    NT = namedtuple("NT", "x")

    def mk(kind, elem):
        return {
            "list": lambda: [elem],
            "tuple": lambda: (elem,),
            "set": lambda: {elem},
            "dict": lambda: {"x": elem},
            "ns": lambda: Namespace(x=elem),
            "odict": lambda: OrderedDict(x=elem),
            "ntuple": lambda: NT(elem),
        }[kind]()

    def first(x):
        if isinstance(x, Namespace):
            return x.x
        if isinstance(x, dict):
            return x["x"]
        return next(iter(x))

    hints = {"list": List[int], "tuple": Tuple[int], "set": Set[int], "dict": Dict[str, int], "odict": Dict[str, int], "ntuple": Tuple[int]}
    table = []
    for kind in KINDS:
        # recreated?
        x = mk(kind, "1")
        r = recreate_branches(x)
        recreated = r is not x
        if type(r) is not type(x) or first(r) != "1":
            problems.append("HeapSites: recreate_branches changes type or content of a %s" % kind)
        if kind != "set":
            inner = [0]
            y = mk(kind, inner)
            ry = recreate_branches(y)
            deep = first(ry) is not inner
            if recreated != deep:
                problems.append("HeapSites: recreate_branches copies a %s but not the list below it (or the reverse)" % kind)
        # in place?
        x = mk(kind, "1")
        if kind == "ns":
            p = ArgumentParser(exit_on_error=False)
            p.add_argument("--x", type=int)
            out = p._apply_actions(x)
            inplace = out is x and x.x == 1
        else:
            out = adapt_typehints(x, hints[kind])
            if first(out) != 1:
                problems.append("HeapSites: adapt_typehints does not adapt the element of a %s" % kind)
            inplace = first(x) == 1
        table.append((kind, recreated, inplace))
    return table


# ----------------------------------------------------------------- (2) ast copy sites
def _find_method(tree, cls, name):
    for n in tree.body:
        if isinstance(n, ast.ClassDef) and n.name == cls:
            for f in n.body:
                if isinstance(f, ast.FunctionDef) and f.name == name:
                    return f
    return None


def _is_copy_of(node, param):
    """is `node` an expression  strip_meta(param) / recreate_branches(param, ...) / param.clone()  ?"""
    if not isinstance(node, ast.Call):
        return False
    f = node.func
    if isinstance(f, ast.Name) and f.id in COPIERS and node.args and isinstance(node.args[0], ast.Name) and node.args[0].id == param:
        return True
    if isinstance(f, ast.Attribute) and f.attr == "clone" and isinstance(f.value, ast.Name) and f.value.id == param and not node.args:
        return True
    return False


def _raw_loads(node, param):
    """loads of `param` below `node` that are not in a safe context"""
    bad = []

    def rec(n, safe):
        if isinstance(n, ast.Name) and n.id == param and isinstance(n.ctx, ast.Load):
            if not safe:
                bad.append(n.lineno)
            return
        if isinstance(n, (ast.FunctionDef, ast.AsyncFunctionDef, ast.Lambda, ast.ClassDef)):
            # closures over the parameter count as uses
            for ch in ast.iter_child_nodes(n):
                rec(ch, False)
            return
        if _is_copy_of(n, param):
            return
        if isinstance(n, ast.Call) and isinstance(n.func, ast.Attribute):
            f = n.func
            if isinstance(f.value, ast.Name) and f.value.id == "self" and f.attr in COPYING_METHODS:
                for ch in ast.iter_child_nodes(n):
                    rec(ch, True)
                return
            if f.attr in ("debug", "info", "warning") and "logger" in ast.unparse(f.value):
                return
        if isinstance(n, ast.If):
            if isinstance(n.test, ast.Name) and n.test.id == param:
                pass  # bare truth test
            else:
                rec(n.test, safe)
            for st in n.body + n.orelse:
                rec(st, safe)
            return
        for ch in ast.iter_child_nodes(n):
            rec(ch, safe)

    rec(node, False)
    return bad


def param_copied(fn, param):
    """walk the statements in order; True when `param` is never used raw before being rebound to a copy"""
    if param not in [a.arg for a in fn.args.args + fn.args.kwonlyargs]:
        return None

    def walk(stmts):
        """returns 'rebound' | 'raw' | 'open'"""
        for st in stmts:
            if isinstance(st, ast.Assign) and _is_copy_of(st.value, param) and any(isinstance(t, ast.Name) and t.id == param for t in st.targets):
                return "rebound"
            if isinstance(st, ast.Assign) and any(isinstance(t, ast.Name) and t.id == param for t in st.targets):
                # rebound to something else: raw loads on the right-hand side count, afterwards the name is no longer the argument
                if _raw_loads(st.value, param):
                    return "raw"
                return "rebound"
            if isinstance(st, (ast.If, ast.With, ast.Try, ast.For, ast.While)):
                heads = []
                if isinstance(st, ast.If) and not (isinstance(st.test, ast.Name) and st.test.id == param):
                    heads.append(st.test)
                if isinstance(st, ast.With):
                    heads += [it.context_expr for it in st.items]
                if isinstance(st, (ast.For,)):
                    heads.append(st.iter)
                if isinstance(st, ast.While):
                    heads.append(st.test)
                for h in heads:
                    if _raw_loads(h, param):
                        return "raw"
                blocks = [st.body] + ([st.orelse] if getattr(st, "orelse", None) else [])
                if isinstance(st, ast.Try):
                    blocks += [h.body for h in st.handlers] + ([st.finalbody] if st.finalbody else [])
                results = [walk(b) for b in blocks]
                if "raw" in results:
                    return "raw"
                if isinstance(st, (ast.With,)) and results[0] == "rebound":
                    return "rebound"
                if isinstance(st, ast.If) and len(blocks) == 2 and all(r == "rebound" for r in results):
                    return "rebound"
                # a rebinding inside one branch only: the other paths continue with the argument itself
                continue
            if isinstance(st, (ast.FunctionDef, ast.AsyncFunctionDef, ast.ClassDef)):
                if _raw_loads(st, param):
                    return "raw"
                continue
            if _raw_loads(st, param):
                return "raw"
        return "open"

    return walk(fn.body) != "raw"


def copy_sites(problems):
    tree = ast.parse(open(os.path.join(REPO, "jsonargparse", "_core.py")).read())
    want = [
        ("dump", "cfg"), ("validate", "cfg"), ("merge_config", "cfg_from"), ("merge_config", "cfg_to"),
        ("strip_unknown", "cfg"), ("instantiate_classes", "cfg"), ("parse_object", "cfg_obj"),
        ("parse_object", "cfg_base"), ("parse_args", "namespace"), ("save", "cfg"),
    ]
    out = []
    for meth, param in want:
        fn = _find_method(tree, "ArgumentParser", meth)
        r = param_copied(fn, param) if fn is not None else None
        if r is None:
            problems.append("HeapSites: ArgumentParser.%s(%s) not found" % (meth, param))
            r = False
        out.append(("%s.%s" % (meth, param), r))
    # parse_args: `args = list(args)` (or the slice sys.argv[1:]) before it is stored / handed to argparse
    fn = _find_method(tree, "ArgumentParser", "parse_args")
    ok = False
    if fn is not None:
        for n in ast.walk(fn):
            if isinstance(n, ast.Assign) and isinstance(n.targets[0], ast.Name) and n.targets[0].id == "args" and ast.unparse(n.value) == "list(args)":
                ok = True
    out.append(("parse_args.args", ok))
    # get_defaults: cfg[action.dest] = recreate_branches(action.default)
    fn = _find_method(tree, "ArgumentParser", "get_defaults")
    ok, found = True, False
    if fn is not None:
        for n in ast.walk(fn):
            if isinstance(n, ast.Assign) and ast.unparse(n.targets[0]) == "cfg[action.dest]":
                found = True
                if ast.unparse(n.value) not in ("recreate_branches(action.default)", "deepcopy(action.default)", "copy.deepcopy(action.default)"):
                    ok = False
    if not found:
        problems.append("HeapSites: get_defaults no longer assigns cfg[action.dest]")
    out.append(("get_defaults.default", ok and found))
    return out


PROBE_MOD = "c08_probe_classes"
PROBE_SRC = '''
from jsonargparse import lazy_instance


class Inner:
    def __init__(self, size: int = 3):
        self.size = size


class Outer:
    def __init__(self, inner: Inner = lazy_instance(Inner, size=7), scale: float = 1.0):
        self.inner = inner
        self.scale = scale
'''


PROBE_SCRIPT = '''
import importlib, inspect, json, sys
from typing import Dict, List
from jsonargparse import ArgumentParser
mod = importlib.import_module("%(mod)s")
spec = {"class_path": "%(mod)s.Outer"}
p = ArgumentParser(exit_on_error=False)
p.add_argument("--one", type=mod.Outer)
p.add_argument("--many", type=List[mod.Outer])
p.add_argument("--pool", type=Dict[str, mod.Outer])
cfg = p.parse_object({"one": dict(spec), "many": [dict(spec)], "pool": {"a": dict(spec)}})
def expanded(v):
    init = v.get("init_args") if hasattr(v, "get") else None
    inner = init.get("inner") if init is not None and hasattr(init, "get") else None
    return inner is not None and "class_path" in inner
rows = [["spec", expanded(cfg.one)], ["list", expanded(cfg.many[0])], ["dict", expanded(cfg.pool["a"])]]
live = inspect.signature(mod.Outer).parameters["inner"].default
inst = p.instantiate_classes(cfg)
rows.append(["instantiated-fresh", all(o.inner is not live for o in (inst.one, inst.many[0], inst.pool["a"]))])
print("ROWS " + json.dumps(rows))
'''


def probe_sub_defaults(problems):
    """[(position, the lazy_instance signature default is expanded into init_args there)].
    Run in a child process: the probe parses and instantiates, which must not leave traces (e.g. the
    `__slotnames__` cache copy.deepcopy puts on the Namespace class) in the process of the other extractors."""
    import json
    import shutil
    import subprocess
    import tempfile

    d = tempfile.mkdtemp(prefix="c08probe_")
    try:
        with open(os.path.join(d, PROBE_MOD + ".py"), "w") as f:
            f.write(PROBE_SRC)
        with open(os.path.join(d, "run_probe.py"), "w") as f:
            f.write(PROBE_SCRIPT % {"mod": PROBE_MOD})
        env = dict(os.environ, PYTHONPATH=REPO + os.pathsep + d)
        pr = subprocess.run(["/venv/bin/python", os.path.join(d, "run_probe.py")], cwd=d, env=env, stdout=subprocess.PIPE, stderr=subprocess.STDOUT, text=True, timeout=120)
        for line in pr.stdout.split("\n"):
            if line.startswith("ROWS "):
                return [(k, bool(v)) for k, v in json.loads(line[5:])]
        problems.append("HeapSites: sub-defaults probe failed: %s" % pr.stdout[-400:])
    except Exception as ex:  # noqa: BLE001
        problems.append("HeapSites: sub-defaults probe failed: %r" % (ex,))
    finally:
        shutil.rmtree(d, ignore_errors=True)
    return [("spec", False), ("list", False), ("dict", False), ("instantiated-fresh", False)]


def generate(problems):
    kinds = probe_kinds(problems)
    sites = copy_sites(problems)
    subs = probe_sub_defaults(problems)
    b = lambda x: "true" if x else "false"  # noqa: E731
    body = "namespace Jap.Gen.HeapSites\n"
    body += "/-- (kind, recreate_branches gives a fresh object and recurses, the adapter writes elements back into the object it was given) -/\n"
    body += "def kindTable : List (String × Bool × Bool) := [%s]\n" % ", ".join("(%s, %s, %s)" % (lean_str(k), b(r), b(i)) for k, r, i in kinds)
    body += "/-- (operation.parameter, the argument is copied before anything else is done with it) -/\n"
    body += "def copySites : List (String × Bool) := [%s]\n" % ", ".join("(%s, %s)" % (lean_str(k), b(v)) for k, v in sites)
    body += "/-- (position of a class spec, add_sub_defaults expands the lazy_instance signature default into init_args there) -/\n"
    body += "def subDefaults : List (String × Bool) := [%s]\n" % ", ".join("(%s, %s)" % (lean_str(k), b(v)) for k, v in subs)
    body += "end Jap.Gen.HeapSites\n"
    write_if_changed("HeapSites.lean", body)

"""Gen/HeapSites.lean: (1) the copy policy per container kind, probed on the live code; (2) the copy sites of
the public operations, read off the ast of /repo/jsonargparse/_core.py.

(1) kind table, one row (kind, recreated, inplace) for list, tuple, set, dict, ns, odict (OrderedDict),
    ntuple (a tuple subclass):
    recreated = `recreate_branches(x) is not x` (and, when x can hold a list, the list below it is copied too);
    inplace   = the adapter writes adapted elements back into the very object it was given
                (`adapt_typehints(x, hint)` with an element '1' that adapts to 1: did x itself change?  For
                Namespace: `_apply_actions(ns)` returns ns itself with the adapted value).
(2) copy sites: for every public operation, is its config argument copied before anything else is done
    with it?  A parameter is *copied* when every load of its name is (a) the argument of a copier
    (`strip_meta(x)`, `recreate_branches(x)`, `x.clone()`), of another operation that copies
    (`self.dump/validate/merge_config(...)`), of a logger call or a bare truth test, until (b) the name is
    rebound to such a copy.  get_defaults: the value stored under `cfg[action.dest]` is
    `recreate_branches(action.default)`.
(3) sub-defaults: `ActionTypeHint.add_sub_defaults` (run by every parse and by get_defaults) must write the
    spec derived from a `lazy_instance` signature default into `init_args` of every class spec of a
    configuration — a spec that is the value itself, an element of a list, a value of a dict — otherwise
    instantiation falls back to the ONE live default object of the signature.  Probed on the live code with a
    probe class in a temp module: one row (position, expanded) per position.
(4) `strip_meta` of an EMPTY configuration: a copy (fix 3b44d63) or the object itself — probed, consumed by the
    model as `Policy.stripEmpty`.
(5) entry-point probes: every public entry point that takes a caller-owned object is CALLED on the live code (child
    process) with an argument whose nested containers would have to be rewritten (string elements where ints are
    expected, Enum members to serialise, a tuple holding a list): one row (site, verdict), verdict = "unchanged"
    (value, types and identities of all nested containers as before, and no list/dict/Namespace of the argument is
    part of the result) | "CHANGED" | "shared-result"; for set_defaults / add_argument(default=) "kept" (the parser keeps
    the caller's very object as action.default — argparse semantics) | "copied".  A site that cannot be probed
    (the call raises, the API is gone) is reported as a problem = broken tie.
"""
from __future__ import annotations

import ast
import os

from ..extract import lean_str, write_if_changed
from ..lib.common import REPO

KINDS = ["list", "tuple", "set", "dict", "ns", "odict", "ntuple", "dictsub"]


class _ProbeDict(dict):
    """a plain dict subclass (its instances have a `__dict__` of their own)"""


SUB_CONTENT = {"kept": True}
COPIERS = {"strip_meta", "recreate_branches"}
COPYING_METHODS = {"dump", "validate", "merge_config", "save"}


# ----------------------------------------------------------------- (1) live probe
def probe_kinds(problems):
    from collections import OrderedDict, namedtuple
    from typing import Dict, List, Set, Tuple

    from jsonargparse import ArgumentParser, Namespace
    from jsonargparse._namespace import recreate_branches
    from jsonargparse._typehints import adapt_typehints

    NT = namedtuple("NT", "x")

    def mk(kind, elem):
        return {
            "list": lambda: [elem],
            "tuple": lambda: (elem,),
            "set": lambda: {elem},
            "dict": lambda: {"x": elem},
            "ns": lambda: Namespace(x=elem),
            "odict": lambda: OrderedDict(x=elem),
            "ntuple": lambda: NT(elem),
            "dictsub": lambda: _ProbeDict(x=elem),
        }[kind]()

    def first(x):
        if isinstance(x, Namespace):
            return x.x
        if isinstance(x, dict):
            return x["x"]
        return next(iter(x))

    hints = {"list": List[int], "tuple": Tuple[int], "set": Set[int], "dict": Dict[str, int], "odict": Dict[str, int], "ntuple": Tuple[int],
             "dictsub": Dict[str, int]}
    SUB_CONTENT["kept"] = True
    table = []
    for kind in KINDS:
        # recreated?
        x = mk(kind, "1")
        r = recreate_branches(x)
        recreated = r is not x
        if kind == "dictsub" and type(r) is type(x) and "x" not in r:
            # the defect repaired by 2278288: the copy of a dict-subclass instance is empty.  Recorded, consumed by the model
            # as Policy.subContent = false (the tie theorem tie_dict_subclass then fails)
            SUB_CONTENT["kept"] = False
            from collections import defaultdict

            table.append((kind, recreated, True))
            continue
        if type(r) is not type(x) or first(r) != "1":
            problems.append("HeapSites: recreate_branches changes type or content of a %s" % kind)
        if kind == "dictsub":
            from collections import defaultdict

            dd = defaultdict(list, x=[0])
            rd = recreate_branches(dd)
            if type(rd) is not defaultdict or rd is dd or rd.get("x") != [0] or rd["x"] is dd["x"]:
                SUB_CONTENT["kept"] = False
        if kind != "set":
            inner = [0]
            y = mk(kind, inner)
            ry = recreate_branches(y)
            deep = first(ry) is not inner
            if recreated != deep:
                problems.append("HeapSites: recreate_branches copies a %s but not the list below it (or the reverse)" % kind)
        # in place?
        x = mk(kind, "1")
        if kind == "ns":
            p = ArgumentParser(exit_on_error=False)
            p.add_argument("--x", type=int)
            out = p._apply_actions(x)
            inplace = out is x and x.x == 1
        else:
            out = adapt_typehints(x, hints[kind])
            if first(out) != 1:
                problems.append("HeapSites: adapt_typehints does not adapt the element of a %s" % kind)
            inplace = first(x) == 1
        table.append((kind, recreated, inplace))
    return table


# ----------------------------------------------------------------- (2) ast copy sites
def _find_method(tree, cls, name):
    for n in tree.body:
        if isinstance(n, ast.ClassDef) and n.name == cls:
            for f in n.body:
                if isinstance(f, ast.FunctionDef) and f.name == name:
                    return f
    return None


def _is_copy_of(node, param):
    """is `node` an expression  strip_meta(param) / recreate_branches(param, ...) / param.clone()  ?"""
    if not isinstance(node, ast.Call):
        return False
    f = node.func
    if isinstance(f, ast.Name) and f.id in COPIERS and node.args and isinstance(node.args[0], ast.Name) and node.args[0].id == param:
        return True
    if isinstance(f, ast.Attribute) and f.attr == "clone" and isinstance(f.value, ast.Name) and f.value.id == param and not node.args:
        return True
    return False


def _raw_loads(node, param):
    """loads of `param` below `node` that are not in a safe context"""
    bad = []

    def rec(n, safe):
        if isinstance(n, ast.Name) and n.id == param and isinstance(n.ctx, ast.Load):
            if not safe:
                bad.append(n.lineno)
            return
        if isinstance(n, (ast.FunctionDef, ast.AsyncFunctionDef, ast.Lambda, ast.ClassDef)):
            # closures over the parameter count as uses
            for ch in ast.iter_child_nodes(n):
                rec(ch, False)
            return
        if _is_copy_of(n, param):
            return
        if isinstance(n, ast.Call) and isinstance(n.func, ast.Attribute):
            f = n.func
            if isinstance(f.value, ast.Name) and f.value.id == "self" and f.attr in COPYING_METHODS:
                for ch in ast.iter_child_nodes(n):
                    rec(ch, True)
                return
            if f.attr in ("debug", "info", "warning") and "logger" in ast.unparse(f.value):
                return
        if isinstance(n, ast.If):
            if isinstance(n.test, ast.Name) and n.test.id == param:
                pass  # bare truth test
            else:
                rec(n.test, safe)
            for st in n.body + n.orelse:
                rec(st, safe)
            return
        for ch in ast.iter_child_nodes(n):
            rec(ch, safe)

    rec(node, False)
    return bad


def param_copied(fn, param):
    """walk the statements in order; True when `param` is never used raw before being rebound to a copy"""
    if param not in [a.arg for a in fn.args.args + fn.args.kwonlyargs]:
        return None

    def walk(stmts):
        """returns 'rebound' | 'raw' | 'open'"""
        for st in stmts:
            if isinstance(st, ast.Assign) and _is_copy_of(st.value, param) and any(isinstance(t, ast.Name) and t.id == param for t in st.targets):
                return "rebound"
            if isinstance(st, ast.Assign) and any(isinstance(t, ast.Name) and t.id == param for t in st.targets):
                # rebound to something else: raw loads on the right-hand side count, afterwards the name is no longer the argument
                if _raw_loads(st.value, param):
                    return "raw"
                return "rebound"
            if isinstance(st, (ast.If, ast.With, ast.Try, ast.For, ast.While)):
                heads = []
                if isinstance(st, ast.If) and not (isinstance(st.test, ast.Name) and st.test.id == param):
                    heads.append(st.test)
                if isinstance(st, ast.With):
                    heads += [it.context_expr for it in st.items]
                if isinstance(st, (ast.For,)):
                    heads.append(st.iter)
                if isinstance(st, ast.While):
                    heads.append(st.test)
                for h in heads:
                    if _raw_loads(h, param):
                        return "raw"
                blocks = [st.body] + ([st.orelse] if getattr(st, "orelse", None) else [])
                if isinstance(st, ast.Try):
                    blocks += [h.body for h in st.handlers] + ([st.finalbody] if st.finalbody else [])
                results = [walk(b) for b in blocks]
                if "raw" in results:
                    return "raw"
                if isinstance(st, (ast.With,)) and results[0] == "rebound":
                    return "rebound"
                if isinstance(st, ast.If) and len(blocks) == 2 and all(r == "rebound" for r in results):
                    return "rebound"
                # a rebinding inside one branch only: the other paths continue with the argument itself
                continue
            if isinstance(st, (ast.FunctionDef, ast.AsyncFunctionDef, ast.ClassDef)):
                if _raw_loads(st, param):
                    return "raw"
                continue
            if _raw_loads(st, param):
                return "raw"
        return "open"

    return walk(fn.body) != "raw"


def copy_sites(problems):
    tree = ast.parse(open(os.path.join(REPO, "jsonargparse", "_core.py")).read())
    want = [
        ("dump", "cfg"), ("validate", "cfg"), ("merge_config", "cfg_from"), ("merge_config", "cfg_to"),
        ("strip_unknown", "cfg"), ("instantiate_classes", "cfg"), ("parse_object", "cfg_obj"),
        ("parse_object", "cfg_base"), ("parse_args", "namespace"), ("save", "cfg"),
    ]
    out = []
    for meth, param in want:
        fn = _find_method(tree, "ArgumentParser", meth)
        r = param_copied(fn, param) if fn is not None else None
        if r is None:
            problems.append("HeapSites: ArgumentParser.%s(%s) not found" % (meth, param))
            r = False
        out.append(("%s.%s" % (meth, param), r))
    # parse_args: `args = list(args)` (or the slice sys.argv[1:]) before it is stored / handed to argparse
    fn = _find_method(tree, "ArgumentParser", "parse_args")
    ok = False
    if fn is not None:
        for n in ast.walk(fn):
            if isinstance(n, ast.Assign) and isinstance(n.targets[0], ast.Name) and n.targets[0].id == "args" and ast.unparse(n.value) == "list(args)":
                ok = True
    out.append(("parse_args.args", ok))
    # get_defaults: cfg[action.dest] = recreate_branches(action.default)
    fn = _find_method(tree, "ArgumentParser", "get_defaults")
    ok, found = True, False
    if fn is not None:
        for n in ast.walk(fn):
            if isinstance(n, ast.Assign) and ast.unparse(n.targets[0]) == "cfg[action.dest]":
                found = True
                if ast.unparse(n.value) not in ("recreate_branches(action.default)", "deepcopy(action.default)", "copy.deepcopy(action.default)"):
                    ok = False
    if not found:
        problems.append("HeapSites: get_defaults no longer assigns cfg[action.dest]")
    out.append(("get_defaults.default", ok and found))
    return out


PROBE_MOD = "c08_probe_classes"
PROBE_SRC = '''
from jsonargparse import lazy_instance


class Inner:
    def __init__(self, size: int = 3):
        self.size = size


class Outer:
    def __init__(self, inner: Inner = lazy_instance(Inner, size=7), scale: float = 1.0):
        self.inner = inner
        self.scale = scale
'''


PROBE_SCRIPT = '''
import importlib, inspect, json, sys
from typing import Dict, List
from jsonargparse import ArgumentParser
mod = importlib.import_module("%(mod)s")
spec = {"class_path": "%(mod)s.Outer"}
p = ArgumentParser(exit_on_error=False)
p.add_argument("--one", type=mod.Outer)
p.add_argument("--many", type=List[mod.Outer])
p.add_argument("--pool", type=Dict[str, mod.Outer])
cfg = p.parse_object({"one": dict(spec), "many": [dict(spec)], "pool": {"a": dict(spec)}})
def expanded(v):
    init = v.get("init_args") if hasattr(v, "get") else None
    inner = init.get("inner") if init is not None and hasattr(init, "get") else None
    return inner is not None and "class_path" in inner
rows = [["spec", expanded(cfg.one)], ["list", expanded(cfg.many[0])], ["dict", expanded(cfg.pool["a"])]]
live = inspect.signature(mod.Outer).parameters["inner"].default
inst = p.instantiate_classes(cfg)
rows.append(["instantiated-fresh", all(o.inner is not live for o in (inst.one, inst.many[0], inst.pool["a"]))])
print("ROWS " + json.dumps(rows))
'''


def probe_sub_defaults(problems):
    """[(position, the lazy_instance signature default is expanded into init_args there)].
    Run in a child process: the probe parses and instantiates, which must not leave traces (e.g. the
    `__slotnames__` cache copy.deepcopy puts on the Namespace class) in the process of the other extractors."""
    import json
    import shutil
    import subprocess
    import tempfile

    d = tempfile.mkdtemp(prefix="c08probe_")
    try:
        with open(os.path.join(d, PROBE_MOD + ".py"), "w") as f:
            f.write(PROBE_SRC)
        with open(os.path.join(d, "run_probe.py"), "w") as f:
            f.write(PROBE_SCRIPT % {"mod": PROBE_MOD})
        env = dict(os.environ, PYTHONPATH=REPO + os.pathsep + d)
        pr = subprocess.run(["/venv/bin/python", os.path.join(d, "run_probe.py")], cwd=d, env=env, stdout=subprocess.PIPE, stderr=subprocess.STDOUT, text=True, timeout=120)
        for line in pr.stdout.split("\n"):
            if line.startswith("ROWS "):
                return [(k, bool(v)) for k, v in json.loads(line[5:])]
        problems.append("HeapSites: sub-defaults probe failed: %s" % pr.stdout[-400:])
    except Exception as ex:  # noqa: BLE001
        problems.append("HeapSites: sub-defaults probe failed: %r" % (ex,))
    finally:
        shutil.rmtree(d, ignore_errors=True)
    return [("spec", False), ("list", False), ("dict", False), ("instantiated-fresh", False)]


ENTRY_SCRIPT = r'''
import collections, enum, json, os, sys, tempfile
from typing import Dict, List, Tuple
from jsonargparse import ArgumentParser, Namespace, ActionConfigFile, auto_cli
from jsonargparse._namespace import strip_meta

class Color(enum.Enum):
    red = 1
    green = 2

class Grp:
    def __init__(self, n: int = 1, ms: List[int] = [1]):
        self.n = n

def containers(x, acc, seen):
    if id(x) in seen:
        return
    if isinstance(x, Namespace):
        seen.add(id(x)); acc.append(x)
        for v in vars(x).values(): containers(v, acc, seen)
    elif isinstance(x, dict):
        seen.add(id(x)); acc.append(x)
        for v in x.values(): containers(v, acc, seen)
    elif isinstance(x, (list, tuple)):
        seen.add(id(x)); acc.append(x)
        for v in x: containers(v, acc, seen)

def snap(x):
    if isinstance(x, Namespace):
        return ("ns", id(x), [(k, snap(v)) for k, v in vars(x).items()])
    if isinstance(x, dict):
        return (type(x).__name__, id(x), [(k, snap(v)) for k, v in x.items()])
    if isinstance(x, (list, tuple)):
        return (type(x).__name__, id(x), [snap(v) for v in x])
    return (type(x).__name__, repr(x))

def writable_shared(arg, res):
    a, r = [], []
    containers(arg, a, set()); containers(res, r, set())
    ids = {id(o) for o in a if isinstance(o, (list, dict, Namespace))}
    return any(id(o) in ids for o in r)

def mk():
    p = ArgumentParser(exit_on_error=False, env_prefix="PRB", default_env=False)
    p.add_argument("--cfg", action=ActionConfigFile)
    p.add_argument("--xs", type=List[List[int]], default=[[0]])
    p.add_argument("--d", type=Dict[str, List[int]], default={"k": [0]})
    p.add_argument("--t", type=Tuple[int, List[Color]], default=(0, [Color.green]))
    p.add_argument("--g.n", type=List[int], default=[5])
    return p

def raw():
    return Namespace(xs=[["1"], ["2", "3"]], d={"a": ["4"]}, t=(1, [Color.red]), g=Namespace(n=["6"]))

def raw_dict():
    return {"xs": [["1"], ["2", "3"]], "d": {"a": ["4"]}, "t": [1, ["red"]], "g": {"n": ["6"]}}

rows = []
prows = []
def pstate():
    return {"os.environ": dict(os.environ), "sys.argv": (id(sys.argv), list(sys.argv)), "os.cwd": os.getcwd(), "argparse.Namespace": id(__import__("argparse").Namespace)}
def pdiff(site, a):
    b = pstate()
    ch = [k for k in a if a[k] != b[k]]
    prows.append([site, "unchanged" if not ch else "CHANGED:" + ",".join(ch)])
    if ch:
        os.chdir(a["os.cwd"]); os.environ.clear(); os.environ.update(a["os.environ"])
def probe(site, build, call, result_matters=True):
    ps = pstate()
    try:
        try:
            _probe(site, build, call, result_matters)
        finally:
            pdiff(site, ps)
    except BaseException:
        pass
def failing(site, call):
    """a call that raises midway: the process state must be as before"""
    ps = pstate()
    raised = False
    try:
        call(mk())
    except BaseException:
        raised = True
    if raised:
        pdiff(site, ps)
    else:
        prows.append([site, "unprobed:did-not-raise"])
def _probe(site, build, call, result_matters=True):
    try:
        p = mk()
        arg = build(p)
        keep = [arg]
        before = snap(arg)
        res = call(p, arg)
        if snap(arg) != before:
            rows.append([site, "CHANGED"])
        elif result_matters and writable_shared(arg, res):
            rows.append([site, "shared-result"])
        else:
            rows.append([site, "unchanged"])
    except BaseException as ex:
        rows.append([site, "unprobed:" + type(ex).__name__ + ":" + str(ex)[:120]])

tmp = tempfile.mkdtemp(prefix="c08entry_")
probe("dump.cfg", lambda p: raw(), lambda p, a: p.dump(a), False)
probe("validate.cfg", lambda p: raw(), lambda p, a: p.validate(a), False)
probe("validate.branch", lambda p: Namespace(n=["6"]), lambda p, a: p.validate(a, branch="g"), False)
probe("merge_config.cfg_from", lambda p: raw(), lambda p, a: p.merge_config(a, p.get_defaults()))
probe("merge_config.cfg_to", lambda p: raw(), lambda p, a: p.merge_config(Namespace(xs=[["9"]]), a))
def with_unknown():
    c = raw(); c["zz"] = [1]; return c
probe("strip_unknown.cfg", lambda p: with_unknown(), lambda p, a: p.strip_unknown(a))
probe("instantiate_classes.cfg", lambda p: raw(), lambda p, a: p.instantiate_classes(a))
def inst_empty(p, a):
    p.add_class_arguments(Grp, "grp")
    return p.instantiate_classes(a)
probe("instantiate_classes.empty", lambda p: Namespace(), inst_empty)
probe("strip_meta.empty", lambda p: Namespace(), lambda p, a: [strip_meta(a)])
probe("parse_object.cfg_obj.dict", lambda p: raw_dict(), lambda p, a: p.parse_object(a))
probe("parse_object.cfg_obj.namespace", lambda p: raw(), lambda p, a: p.parse_object(a))
probe("parse_object.cfg_base", lambda p: raw(), lambda p, a: p.parse_object({"xs": [["7"]]}, cfg_base=a))
probe("parse_args.namespace", lambda p: raw(), lambda p, a: p.parse_args(["--xs=[[8]]"], namespace=a))
probe("parse_args.namespace.nodefaults", lambda p: raw(), lambda p, a: p.parse_args(["--xs=[[8]]"], namespace=a, defaults=False))
probe("parse_object.cfg_base.nodefaults", lambda p: raw(), lambda p, a: p.parse_object({"xs": [["7"]]}, cfg_base=a, defaults=False))
probe("parse_args.args", lambda p: ["--xs", "[[8]]", "--d", "{\"a\": [1]}", "--g.n+=7"], lambda p, a: p.parse_args(a))
probe("parse_env.env", lambda p: {"PRB_XS": "[[1]]", "PRB_D": "{\"a\": [2]}"}, lambda p, a: p.parse_env(a))
probe("save.cfg.single", lambda p: raw(), lambda p, a: p.save(a, os.path.join(tmp, "s.yaml"), multifile=False, overwrite=True), False)
probe("save.cfg.multi", lambda p: raw(), lambda p, a: p.save(a, os.path.join(tmp, "m.yaml"), multifile=True, overwrite=True), False)
def gd(p, a):
    p.set_defaults(xs=a)
    out = p.get_defaults()
    out.xs[0].append(99)          # what the caller does with the namespace handed out must not reach the declared default
    p.parse_args(["--xs+=[5]"])
    return out
probe("get_defaults.default", lambda p: [["1"], ["2"]], gd)
def fn(a: int = 1, b: List[int] = [1]):
    return (a, b)
probe("auto_cli.args", lambda p: ["--a=2", "--b=[3]"], lambda p, a: [auto_cli(fn, args=a)])
# kept or copied: the declared default after set_defaults / add_argument(default=)
try:
    p = mk(); v = [["1"]]; p.set_defaults({"xs": v})
    act = [a for a in p._actions if a.dest == "xs"][0]
    rows.append(["set_defaults.value", "kept" if act.default is v else "copied"])
except BaseException as ex:
    rows.append(["set_defaults.value", "unprobed:" + type(ex).__name__])
try:
    p = ArgumentParser(exit_on_error=False); v = [["1"]]
    act = p.add_argument("--m", type=List[List[int]], default=v)
    rows.append(["add_argument.default", "kept" if act.default is v else "copied"])
except BaseException as ex:
    rows.append(["add_argument.default", "unprobed:" + type(ex).__name__])
ps = pstate()
p = mk(); p.set_defaults({"xs": [["1"]]}); pdiff("set_defaults.value", ps)
# failing calls, some of them inside change_to_path_dir (a config file in another directory)
other = os.path.join(tmp, "elsewhere"); os.makedirs(other)
with open(os.path.join(other, "bad.yaml"), "w") as f:
    f.write("xs: [[1, zz]]\n")
with open(os.path.join(other, "good.yaml"), "w") as f:
    f.write("xs: [[1, 2]]\n")
failing("parse_args.fails", lambda p: p.parse_args(["--xs=[[zz]]"]))
failing("parse_args.cfgfile.fails", lambda p: p.parse_args(["--cfg", os.path.join(other, "bad.yaml")]))
failing("parse_path.fails", lambda p: p.parse_path(os.path.join(other, "bad.yaml")))
failing("parse_string.fails", lambda p: p.parse_string("xs: [[zz]]"))
failing("parse_env.fails", lambda p: p.parse_env({"PRB_XS": "[[zz]]"}))
failing("parse_object.fails", lambda p: p.parse_object({"xs": [["zz"]]}))
failing("validate.fails", lambda p: p.validate(Namespace(xs=[["zz"]])))
failing("dump.fails", lambda p: p.dump(Namespace(xs=[["zz"]])))
failing("save.fails", lambda p: p.save(Namespace(xs=[["zz"]]), os.path.join(tmp, "f.yaml"), overwrite=True))
failing("get_defaults.fails", lambda p: (setattr(p, "default_config_files", [os.path.join(other, "bad.yaml")]), p.get_defaults()))
ps = pstate()
try:
    mk().parse_path(os.path.join(other, "good.yaml"))
finally:
    pdiff("parse_path.elsewhere", ps)
import shutil; shutil.rmtree(tmp, ignore_errors=True)
print("ENTRY " + json.dumps(rows))
print("PROC " + json.dumps(prows))
'''

ENTRY_SITES = ["dump.cfg", "validate.cfg", "validate.branch", "merge_config.cfg_from", "merge_config.cfg_to", "strip_unknown.cfg",
               "instantiate_classes.cfg", "instantiate_classes.empty", "strip_meta.empty", "parse_object.cfg_obj.dict",
               "parse_object.cfg_obj.namespace", "parse_object.cfg_base", "parse_args.namespace", "parse_args.namespace.nodefaults", "parse_object.cfg_base.nodefaults", "parse_args.args", "parse_env.env",
               "save.cfg.single", "save.cfg.multi", "get_defaults.default", "auto_cli.args", "set_defaults.value", "add_argument.default"]


PROC_ROWS = []
PROC_SITES = ["dump.cfg", "validate.cfg", "validate.branch", "merge_config.cfg_from", "strip_unknown.cfg", "instantiate_classes.cfg",
              "parse_object.cfg_obj.dict", "parse_args.args", "parse_args.namespace", "parse_env.env", "save.cfg.single", "save.cfg.multi",
              "get_defaults.default", "set_defaults.value", "parse_path.elsewhere",
              "parse_args.fails", "parse_args.cfgfile.fails", "parse_path.fails", "parse_string.fails", "parse_env.fails",
              "parse_object.fails", "validate.fails", "dump.fails", "save.fails", "get_defaults.fails"]


def probe_entry_points(problems):
    """[(site, verdict)] from calling every public entry point on the live code, in a child process"""
    import json
    import shutil
    import subprocess
    import tempfile

    d = tempfile.mkdtemp(prefix="c08entry_")
    rows = None
    try:
        with open(os.path.join(d, "run_entry.py"), "w") as f:
            f.write(ENTRY_SCRIPT)
        env = dict(os.environ, PYTHONPATH=REPO)
        pr = subprocess.run(["/venv/bin/python", os.path.join(d, "run_entry.py")], cwd=d, env=env, stdout=subprocess.PIPE, stderr=subprocess.STDOUT, text=True, timeout=120)
        for line in pr.stdout.split("\n"):
            if line.startswith("ENTRY "):
                rows = [(k, str(v)) for k, v in json.loads(line[6:])]
            if line.startswith("PROC "):
                PROC_ROWS[:] = [(k, str(v)) for k, v in json.loads(line[5:])]
        if rows is None:
            problems.append("HeapSites: entry-point probe failed: %s" % pr.stdout[-400:])
    except Exception as ex:  # noqa: BLE001
        problems.append("HeapSites: entry-point probe failed: %r" % (ex,))
    finally:
        shutil.rmtree(d, ignore_errors=True)
    got = dict(rows or [])
    out = []
    for site in ENTRY_SITES:
        v = got.get(site, "unprobed:missing")
        if v.startswith("unprobed"):
            problems.append("HeapSites: entry point %s cannot be probed (%s)" % (site, v))
            v = "unprobed"
        out.append((site, v))
    return out


def generate(problems):
    kinds = probe_kinds(problems)
    sites = copy_sites(problems)
    subs = probe_sub_defaults(problems)
    entry = probe_entry_points(problems)
    got = dict(PROC_ROWS)
    proc = []
    for site in PROC_SITES:
        v = got.get(site, "unprobed:missing")
        if v.startswith("unprobed"):
            problems.append("HeapSites: process state around %s cannot be probed (%s)" % (site, v))
            v = "unprobed"
        proc.append((site, v))
    strip_empty = dict(entry).get("strip_meta.empty") == "unchanged"
    b = lambda x: "true" if x else "false"  # noqa: E731
    body = "namespace Jap.Gen.HeapSites\n"
    body += "/-- (kind, recreate_branches gives a fresh object and recurses, the adapter writes elements back into the object it was given) -/\n"
    body += "def kindTable : List (String × Bool × Bool) := [%s]\n" % ", ".join("(%s, %s, %s)" % (lean_str(k), b(r), b(i)) for k, r, i in kinds)
    body += "/-- (operation.parameter, the argument is copied before anything else is done with it) -/\n"
    body += "def copySites : List (String × Bool) := [%s]\n" % ", ".join("(%s, %s)" % (lean_str(k), b(v)) for k, v in sites)
    body += "/-- (position of a class spec, add_sub_defaults expands the lazy_instance signature default into init_args there) -/\n"
    body += "def subDefaults : List (String × Bool) := [%s]\n" % ", ".join("(%s, %s)" % (lean_str(k), b(v)) for k, v in subs)
    body += "/-- the copy recreate_branches makes of a dict-subclass instance (plain subclass, defaultdict) holds its entries (probed) -/\n"
    body += "def dictSubclassContentKept : Bool := %s\n" % b(SUB_CONTENT["kept"])
    body += "/-- `strip_meta(Namespace())` is a new object (probed) -/\n"
    body += "def stripMetaCopiesEmpty : Bool := %s\n" % b(strip_empty)
    body += "/-- (entry point . argument, what calling it on the live code did to the argument: unchanged | CHANGED | shared-result | kept | copied | unprobed) -/\n"
    body += "def entryProbes : List (String × String) := [%s]\n" % ", ".join("(%s, %s)" % (lean_str(k), lean_str(v)) for k, v in entry)
    body += "/-- (entry point, os.environ / sys.argv (object and content) / cwd / argparse.Namespace after a real call, successful or raising midway: unchanged | CHANGED:<which> | unprobed) -/\n"
    body += "def processProbes : List (String × String) := [%s]\n" % ", ".join("(%s, %s)" % (lean_str(k), lean_str(v)) for k, v in proc)
    body += "end Jap.Gen.HeapSites\n"
    write_if_changed("HeapSites.lean", body)

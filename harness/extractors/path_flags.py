"""Gen/PathFlags.lean: the rules of Path._check_mode and the flag tests of Path.__init__.

Two sources, cross-checked:
* ast of `jsonargparse/_util.py`: the alphabet constant of `_check_mode`, and, for
  `Path.__init__`, every `"<flag>" in mode` test in source order together with the
  `os.access` constant / `os.path` predicate it guards (so swapping X_OK for R_OK,
  or dropping a flag test, changes the table);
* the live `Path._check_mode` probed over all strings of <= 3 characters of the
  alphabet plus a few outsiders: allowed characters, maximal count per flag,
  mutually exclusive pairs.  The derived table must reproduce the live function on
  every probed string, otherwise `_check_mode` has a rule the table cannot express
  (a problem = broken tie).
"""
from __future__ import annotations

import ast
import itertools
import os

from ..extract import lean_str, write_if_changed
from ..lib.common import REPO

OUTSIDERS = "azCUS-"


def lean_char(c: str) -> str:
    return "'%s'" % c if c not in "'\\" else "'\\%s'" % c


def _alphabet_from_ast(fn: ast.FunctionDef):
    """the string constant S in `set(mode) - set(S)`"""
    found = []
    for node in ast.walk(fn):
        if isinstance(node, ast.BinOp) and isinstance(node.op, ast.Sub):
            r = node.right
            if isinstance(r, ast.Call) and getattr(r.func, "id", None) == "set" and r.args and isinstance(r.args[0], ast.Constant):
                found.append(r.args[0].value)
    return found


def _flag_tests(fn: ast.FunctionDef):
    """[(flag, probe)] for every `if` of the local branch of __init__ in source order.
    probe = 'count' | 'access:R_OK' | 'isdir' | 'isfile' | 'isfile|stat' | 'isfile|is_fifo' | ... (sorted, '|'-joined names of the
    os-level calls in the test), prefixed by 'not:' when the flag test raises on the negated probe."""
    out = []

    def calls(node):
        names = []
        for n in ast.walk(node):
            if isinstance(n, ast.Call):
                f = n.func
                if isinstance(f, ast.Attribute) and f.attr == "access":
                    k = n.args[1]
                    names.append("access:" + (k.attr if isinstance(k, ast.Attribute) else "?"))
                elif isinstance(f, ast.Attribute) and f.attr in ("isdir", "isfile", "stat", "S_ISFIFO", "count", "realpath"):
                    names.append(f.attr)
                elif isinstance(f, ast.Name) and f.id in ("is_fifo",):
                    names.append(f.id)
        return sorted(set(names))

    def flags_in(node):
        fl = []
        for n in ast.walk(node):
            if isinstance(n, ast.Compare) and len(n.ops) == 1 and isinstance(n.ops[0], ast.In) and isinstance(n.left, ast.Constant) \
                    and isinstance(n.comparators[0], ast.Name) and n.comparators[0].id == "mode":
                fl.append(n.left.value)
        return fl

    def visit(stmts):
        for st in stmts:
            if isinstance(st, ast.If):
                fl = flags_in(st.test)
                raises = any(isinstance(x, ast.Raise) for x in st.body)
                if fl and raises:
                    out.append(("".join(fl), "|".join(calls(st.test))))
                elif raises and not fl:
                    out.append(("-", "|".join(calls(st.test))))
                else:
                    out.append(("".join(fl) + "?", "|".join(calls(st.test))))
                visit(st.body)
                visit(st.orelse)
            elif isinstance(st, ast.While):
                out.append(("while", "|".join(calls(st.test))))
                visit(st.body)
            elif isinstance(st, (ast.For, ast.With, ast.Try)):
                visit(getattr(st, "body", []))

    # the local branch: the last `elif not self._skip_check and not self._std_io`
    local = None
    for node in ast.walk(fn):
        if isinstance(node, ast.If):
            src = ast.unparse(node.test)
            if "_std_io" in src and "_skip_check" in src:
                local = node
    if local is None:
        return None
    visit(local.body)
    return out


def _path_dir_steps(tree):
    """the statements of `change_to_path_dir` that decide the directory: every assignment to `path_dir`, `chdir` and every
    os.chdir call, unparsed, in source order (so `realpath` instead of the as-named `.absolute`, a dropped `abspath`, or a
    "no need to chdir" shortcut change the table)"""
    fn = next((n for n in tree.body if isinstance(n, ast.FunctionDef) and n.name == "change_to_path_dir"), None)
    if fn is None:
        return None
    out = []
    for node in ast.walk(fn):
        node._c19_pos = (getattr(node, "lineno", 0), getattr(node, "col_offset", 0))
    stmts = [(n._c19_pos, n) for n in ast.walk(fn) if isinstance(n, (ast.Assign, ast.AnnAssign, ast.Expr, ast.If))]
    # the protected region: which statements sit inside the `try`, which in the `finally`
    for n in ast.walk(fn):
        if isinstance(n, ast.Try):
            stmts.append(((n.lineno, -1), "try:"))
            if n.finalbody:
                stmts.append(((n.finalbody[0].lineno, -1), "finally:"))
    stmts.sort(key=lambda t: t[0])
    for _, st in stmts:
        if isinstance(st, str):
            out.append(st)
        elif isinstance(st, ast.If):
            out.append("if " + ast.unparse(st.test))
        elif isinstance(st, ast.Expr):
            src = ast.unparse(st)
            if "chdir" in src or "reset" in src or src.startswith("yield"):
                out.append(src)
        else:
            tgt = st.targets[0] if isinstance(st, ast.Assign) else st.target
            if isinstance(tgt, ast.Name) and tgt.id in ("path_dir", "chdir", "token", "scheme", "prev_cwd", "cwd"):
                out.append("%s = %s" % (tgt.id, ast.unparse(st.value)))
    return out


def _bracket_sites():
    """every `with change_to_path_dir(X)` / `with X.relative_path_context()` of the package:
    (module.function, the bracket expression, the statements of the body up to 3, unparsed, ` ; `-joined and cut).
    Dropping a bracket, bracketing another path, or moving the resolution of the values out of the body changes the table."""
    out = []
    pkg = os.path.join(REPO, "jsonargparse")
    for fname in sorted(os.listdir(pkg)):
        if not fname.endswith(".py"):
            continue
        try:
            tree = ast.parse(open(os.path.join(pkg, fname)).read())
        except SyntaxError:
            continue

        def visit(node, owner):
            for ch in ast.iter_child_nodes(node):
                name = owner
                if isinstance(ch, (ast.FunctionDef, ast.AsyncFunctionDef, ast.ClassDef)):
                    name = (owner + "." if owner else "") + ch.name
                if isinstance(ch, ast.With):
                    for item in ch.items:
                        src = ast.unparse(item.context_expr)
                        if "change_to_path_dir(" in src or ".relative_path_context(" in src:
                            body = " ; ".join(ast.unparse(b).split("\n")[0].strip()[:90] for b in ch.body[:3])
                            out.append((fname[:-3] + ":" + owner, src, body))
                visit(ch, name)

        visit(tree, "")
    return out


def _statement_heads(fn):
    """first line of every statement of a function (docstring excluded), in source order"""
    sts = [n for n in ast.walk(fn) if isinstance(n, ast.stmt) and n is not fn]
    sts.sort(key=lambda n: (n.lineno, n.col_offset))
    out = []
    for n in sts:
        if isinstance(n, ast.Expr) and isinstance(n.value, ast.Constant) and isinstance(n.value.value, str):
            continue
        out.append(ast.unparse(n).split("\n")[0].strip()[:120])
    return out


def _init_bookkeeping(fn: ast.FunctionDef):
    """the statements of Path.__init__ that decide relative / absolute / cwd (both the `Path` and the `str` branch),
    unparsed, in source order: assignments to path, cwd, abs_path, is_absolute, self._relative/_absolute/_cwd/_std_io
    and the `isinstance` / `"://"`-free branch conditions they sit under"""
    keep = {"path", "cwd", "abs_path", "is_absolute"}
    out = []
    nodes = [n for n in ast.walk(fn) if isinstance(n, (ast.Assign, ast.If))]
    nodes.sort(key=lambda n: (n.lineno, n.col_offset))
    for n in nodes:
        if isinstance(n, ast.If):
            src = ast.unparse(n.test)
            if "isinstance(path" in src or "_file_scheme" in src or "cwd is None" in src or src == "path == '-'":
                out.append("if " + src)
        else:
            t = n.targets[0]
            tn = t.id if isinstance(t, ast.Name) else ("self." + t.attr if isinstance(t, ast.Attribute) and isinstance(t.value, ast.Name) and t.value.id == "self" else None)
            if tn in keep or tn in ("self._relative", "self._absolute", "self._cwd", "self._std_io"):
                out.append("%s = %s" % (tn, ast.unparse(n.value)))
    return out


def probe_check_mode(check, alphabet):
    chars = alphabet + "".join(c for c in OUTSIDERS if c not in alphabet)

    def ok(s):
        try:
            check(s)
            return True
        except ValueError:
            return False

    allowed = [c for c in chars if ok(c)]
    maxc = {}
    for c in allowed:
        n = 1
        while n < 4 and ok(c * (n + 1)):
            n += 1
        maxc[c] = n
    excl = [(a, b) for a, b in itertools.combinations(allowed, 2) if not ok(a + b)]

    def table_ok(s):
        if any(c not in allowed for c in s):
            return False
        if any(s.count(c) > maxc[c] for c in set(s)):
            return False
        return not any(a in s and b in s for a, b in excl)

    mismatches = []
    for n in range(0, 4):
        for tup in itertools.product(chars, repeat=n):
            s = "".join(tup)
            if ok(s) != table_ok(s):
                mismatches.append(s)
    return allowed, maxc, excl, mismatches


def generate(problems):
    from jsonargparse._util import Path

    src = open(os.path.join(REPO, "jsonargparse", "_util.py")).read()
    tree = ast.parse(src)
    cls = next(n for n in tree.body if isinstance(n, ast.ClassDef) and n.name == "Path")
    fns = {n.name: n for n in cls.body if isinstance(n, ast.FunctionDef)}
    consts = _alphabet_from_ast(fns["_check_mode"])
    if len(consts) != 1:
        problems.append("PathFlags: cannot find the alphabet constant of Path._check_mode (found %r)" % (consts,))
        alphabet_ast = ""
    else:
        alphabet_ast = consts[0]
    allowed, maxc, excl, mismatches = probe_check_mode(Path._check_mode, alphabet_ast)
    if "".join(allowed) != alphabet_ast:
        problems.append("PathFlags: probed alphabet %r differs from the source constant %r" % ("".join(allowed), alphabet_ast))
    if mismatches:
        problems.append("PathFlags: _check_mode has a rule outside (alphabet, max count, exclusive pairs): e.g. %r" % mismatches[:5])
    try:
        Path._check_mode(1)  # type: ignore[arg-type]
        problems.append("PathFlags: _check_mode accepts a non-string mode")
    except ValueError:
        pass
    tests = _flag_tests(fns["__init__"])
    if tests is None:
        problems.append("PathFlags: cannot find the local branch of Path.__init__")
        tests = []

    body = "namespace Jap.Gen\n"
    body += "def pathFlagAlphabet : List Char := [%s]\n" % ", ".join(lean_char(c) for c in allowed)
    body += "def pathFlagMaxCount : List (Char × Nat) := [%s]\n" % ", ".join("(%s, %d)" % (lean_char(c), n) for c, n in maxc.items() if n != 1)
    body += "def pathFlagExcl : List (Char × Char) := [%s]\n" % ", ".join("(%s, %s)" % (lean_char(a), lean_char(b)) for a, b in excl)
    body += "/-- (flags tested, os-level probes used) for every `if` of the local branch of `Path.__init__`, in source order;\n"
    body += "`?` marks an `if` that does not raise itself, `-` an `if` that raises without testing a flag -/\n"
    body += "def pathInitTests : List (String × String) := [%s]\n" % ", ".join("(%s, %s)" % (lean_str(a), lean_str(b)) for a, b in tests)
    steps = _path_dir_steps(tree)
    if steps is None:
        problems.append("PathFlags: cannot find change_to_path_dir")
        steps = []
    body += "/-- the statements of `change_to_path_dir` that decide which directory is entered and restored, in source order -/\n"
    body += "def pathDirSteps : List String := [%s]\n" % ", ".join(lean_str(x) for x in steps)
    sites = _bracket_sites()
    if not sites:
        problems.append("PathFlags: no use of change_to_path_dir found in the package")
    body += "/-- every `with change_to_path_dir(…)` / `with ….relative_path_context()` of the package: (module:function, bracket, first statements of the body) -/\n"
    body += "def pathBracketSites : List (String × String × String) := [\n  %s]\n" % ",\n  ".join("(%s, %s, %s)" % (lean_str(a), lean_str(b), lean_str(c)) for a, b, c in sites)
    book = _init_bookkeeping(fns["__init__"])
    body += "/-- the statements of `Path.__init__` that decide `relative`, `absolute`, `cwd`, in source order -/\n"
    body += "def pathInitBook : List String := [\n  %s]\n" % ",\n  ".join(lean_str(x) for x in book)
    pvc = next((n for n in tree.body if isinstance(n, ast.FunctionDef) and n.name == "parse_value_or_config"), None)
    atree = ast.parse(open(os.path.join(REPO, "jsonargparse", "_actions.py")).read())
    acl = next((n for n in atree.body if isinstance(n, ast.ClassDef) and n.name == "_ActionConfigLoad"), None)
    lc = next((n for n in acl.body if isinstance(n, ast.FunctionDef) and n.name == "_load_config"), None) if acl else None
    if pvc is None or lc is None:
        problems.append("PathFlags: cannot find parse_value_or_config / _ActionConfigLoad._load_config")
    body += "/-- every statement (first line) of `parse_value_or_config`: which strings are tried as a config path, in which bracket the file is read -/\n"
    body += "def pathValueOrConfig : List String := [\n  %s]\n" % ",\n  ".join(lean_str(x) for x in (_statement_heads(pvc) if pvc else []))
    body += "/-- every statement (first line) of `_ActionConfigLoad._load_config` -/\n"
    body += "def pathLoadConfig : List String := [\n  %s]\n" % ",\n  ".join(lean_str(x) for x in (_statement_heads(lc) if lc else []))
    body += "end Jap.Gen\n"
    write_if_changed("PathFlags.lean", body)

"""C10 — parse results are fixed points: re-parsing or validating changes nothing.

Same model (E3, Core/Adapt.lean) and the same generators as C02.  The configuration under test is what the
apply pass of the parse method returns (`_skip_validation=True`: the parse methods validate their own result
before returning it, which would hide a result that does not validate).  On every case that pass accepts:
  * parser.validate(cfg) passes;
  * parser.parse_object(cfg) returns the same configuration (compared type-aware: 1 vs 1.0 vs True differ);
  * dump -> parse_string -> dump is byte-identical (yaml and json);
  * correspondence: the second pass of the real parser and the real serialiser agree with the model
    (`parseObj` applied to the result, `ser`).
Theorems (Props/C10.lean): monotonicity and idempotence of the adapter on the stated sub-grammar, the counter
examples outside it, and "a result is accepted again" for the whole grammar.
"""
from __future__ import annotations

import copy

from ..lib.common import Ctx, MachineryError, jdump, repo_python_path
from . import c02
from .c02 import Unencodable, accepted, canon, enc

MANIFEST = {
    "engine": "E3-Adapt",
    "technique": "Lean 4 proofs (monotonicity + idempotence of the adapter model by double structural induction) + differential correspondence of the "
                 "second pass and of serialisation + fixed-point oracle on the real parser",
    "text": "Theorems in lean/Jap/Props/C10.lean prove, for every loader oracle, that adapting an adapted value returns it unchanged on the sub-grammar "
            "without Any/Set/Dict[int,_]/non-string Literal/restricted number types/registered types inside Union members (restricted string types "
            "allowed; machine-checked counterexamples for each excluded construct) and that a result "
            "is always accepted again on the whole grammar; these lift to the entry points: for values that are not strings `_check_type` is the "
            "adapter, its result is a fixed point of `_check_type`, the validation pass of parse_object never rejects it and parse_object returns it "
            "unchanged (C10_reparse_value / C10_validation_pass_accepts / C10_reparse_object); a result of a restricted string type is a fixed point "
            "for every predicate; a restricted number type inside a Union is a machine-checked counterexample (open finding).  The real parser is "
            "checked on every accepted generated case (restricted string/number types nested anywhere included): validate passes, parse_object "
            "returns the same typed value, dump/parse/dump is byte-identical, and its second pass and serialiser agree with the model; parsers with "
            "parse-time links (every ordered pair and random sets of single/multi-source links incl. all chain shapes, whatever link_arguments accepts) "
            "are checked for the same fixed points.",
    "level_note": "Trusted: as C02. Parsers have one typed optional argument; groups, subcommands, dataclasses, subclass specs, paths and registered types "
                  "other than the restricted ones are outside this engine's theorems (C01/C19/C20 cover their round trips; the harness families of this "
                  "check exercise them on the real parser).",
}

F_LIT = "C10-literal-pyeq-second-pass"
F_SETCONV = "C10-union-set-dedup-second-pass"
F_ANYUNION = "C10-union-any-second-pass"
F_RNUMUNION = "C10-union-restricted-number-second-pass"
F_UNIONSER = "C10-union-serialisation"
F_DEFAULT = "C10-default-not-normalised"
F_DUMPFLOAT = "C10-json-dump-nonfinite-float"
F_SETORDER = "C10-set-dump-order"
F_NESTEDLIST = "C10-nested-list-subclass-default"
F_JSONNS = "C10-json-dump-namespace-in-mixed-container"
MIXED_LABELS = ("List[Optional[Base]]", "Dict[str,Optional[Base]]", "Tuple[Base,int]", "List[List[Base]]")


def ty_has(desc, pred):
    return any(pred(x) for _, x in c02.ty_walk(desc))


def union_members(desc):
    """members of the Unions that have at least two alternatives other than None (an Optional[X] cannot send a value
    converted by one member to another member)"""
    for _, x in c02.ty_walk(desc):
        if isinstance(x, dict) and "u" in x and len([m for m in x["u"] if m != "none"]) >= 2:
            for m in x["u"]:
                yield m


def lit_nonstr(x):
    return isinstance(x, dict) and "lit" in x and any(not isinstance(m, str) for m in x["lit"])


def in_union_member(desc, pred):
    return any(ty_has(m, pred) for m in union_members(desc))


def has_enum_or_conv_in_union(desc):
    """class of F_UNIONSER: a Union in which the serialiser of one member can swallow a value meant for another:
    an Enum member (returns non-members unchanged) or a Literal/leaf that loads text, next to a member whose
    serialisation is not the identity (tuple/set/enum/int-keyed dict)"""
    for _, x in c02.ty_walk(desc):
        if isinstance(x, dict) and "u" in x and len(x["u"]) > 1:
            return True
    return False


def values_in(j, pred):
    if pred(j):
        return True
    if isinstance(j, list):
        return any(values_in(x, pred) for x in j)
    if isinstance(j, dict):
        if "d" in j:
            return any(values_in(v, pred) for _, v in j["d"])
        for k in ("t", "s"):
            if k in j:
                return any(values_in(x, pred) for x in j[k])
    return False


def nonfinite(j):
    return isinstance(j, dict) and "f" in j and j["f"] in ("inf", "-inf", "nan")


def holds_restricted_instance(x, depth=0):
    """does a serialised value still hold an instance of a restricted type class (a str / int / float SUBCLASS, which
    yaml's safe dumper cannot represent)"""
    if depth > 40:
        return False
    if isinstance(x, (str, int, float)) and not isinstance(x, bool):
        return type(x) not in (str, int, float) and hasattr(type(x), "_type")
    if isinstance(x, dict):
        return any(holds_restricted_instance(v, depth + 1) for v in x.values())
    if isinstance(x, (list, tuple, set)):
        return any(holds_restricted_instance(v, depth + 1) for v in x)
    return False


def holds_restricted_str_instance(x, depth=0):
    """does a value hold an instance of a restricted STRING class (a `str` subclass)"""
    if depth > 40:
        return False
    if isinstance(x, str):
        return type(x) is not str and hasattr(type(x), "_regex")
    if isinstance(x, dict):
        return any(holds_restricted_str_instance(v, depth + 1) for v in x.values())
    if isinstance(x, (list, tuple, set)):
        return any(holds_restricted_str_instance(v, depth + 1) for v in x)
    return False


def multi_member_union(desc):
    """a Union with at least two members other than None: a value converted by one member can be offered to another"""
    return next(union_members(desc), None) is not None


# ---------------------------------------------------------------- second pass on the real code
def second_pass(p, cfg):
    """all observations of the fixed-point property for one accepted configuration (snapshots only)"""
    from jsonargparse import ArgumentError

    out = {}
    first = canon(enc(cfg.k))
    out["first"] = first
    out["first_iter"] = enc(cfg.k, sort_sets=False)     # sets in their actual iteration order (input of the model's second pass)
    out["first_rstr_instance"] = holds_restricted_str_instance(cfg.k)
    try:
        p.validate(cfg.clone())
        out["validate"] = "ok"
    except Exception as ex:  # noqa: BLE001
        out["validate"] = "raises:" + type(ex).__name__
    try:
        cfg2 = p.parse_object(cfg.clone())
        try:
            out["reparse"] = {"ok": canon(enc(cfg2.k))}
        except Unencodable as ex:
            out["reparse"] = {"ok": {"unencodable": str(ex)}}
    except ArgumentError:
        out["reparse"] = {"err": "reject"}
    except Exception as ex:  # noqa: BLE001
        out["reparse"] = {"err": "crash:" + type(ex).__name__}
    for fmt in ("yaml", "json"):
        try:
            d1 = p.dump(cfg.clone(), format=fmt)
            cfg3 = p.parse_string(d1)
            d2 = p.dump(cfg3, format=fmt)
            out["dump_" + fmt] = "same" if d1 == d2 else {"d1": d1, "d2": d2}
        except ArgumentError as ex:
            out["dump_" + fmt] = {"exc": "ArgumentError", "msg": str(ex)[:160]}
        except Exception as ex:  # noqa: BLE001
            out["dump_" + fmt] = {"exc": type(ex).__name__, "msg": str(ex)[:160]}
    # the serialiser alone (correspondence with the model's `ser`)
    try:
        from jsonargparse._common import parser_context

        action = next(a for a in p._actions if a.dest == "k")
        with parser_context(parent_parser=p, load_value_mode=p.parser_mode):
            s = action.serialize(copy.deepcopy(cfg.k)) if cfg.k is not None else None
        try:
            out["ser"] = {"ok": canon(enc(s))}
        except Unencodable as ex:
            out["ser"] = {"ok": {"unencodable": str(ex)}}
        out["ser_restricted_instance"] = holds_restricted_instance(s)
    except ValueError:
        out["ser"] = {"err": "reject"}
    except Exception as ex:  # noqa: BLE001
        out["ser"] = {"err": "crash:" + type(ex).__name__}
    return out


def outside_proved_grammar(desc):
    """the class excluded by the hypothesis `good` of C10_adapt_idem: a Union member that contains Any, a Set, a
    Dict[int, _] or a Literal with a non-string member; returns the finding id of the first class present"""
    if in_union_member(desc, lit_nonstr):
        return F_LIT
    if in_union_member(desc, lambda x: isinstance(x, dict) and ("s" in x or ("d" in x and x["d"][0] == "int"))):
        return F_SETCONV
    if in_union_member(desc, lambda x: x == "any"):
        return F_ANYUNION
    if in_union_member(desc, lambda x: isinstance(x, dict) and "rn" in x and x["rn"][0] != "str"):
        return F_RNUMUNION        # `uSafe` keeps restricted types out of Union members (Lean: C10_idem_fails_rnum_union)
    return None


def has_union(desc):
    return any(isinstance(x, dict) and "u" in x and len(x["u"]) >= 2 for _, x in c02.ty_walk(desc))


def nonplain(j):
    """an Enum member, a set or a tuple somewhere in the value"""
    return values_in(j, lambda x: isinstance(x, dict) and ("e" in x or "s" in x or "t" in x))


def nonplain_under_any(desc, v):
    """does a position typed Any (or a Union with an Any alternative) hold data that no dump format can write"""
    if desc == "any":
        return nonplain(v)
    if isinstance(desc, str) or "lit" in desc or "e" in desc or "rn" in desc:
        return False
    if "u" in desc:
        if any(ty_has(m, lambda x: x == "any") for m in desc["u"]):
            return nonplain(v)
        return False
    if "d" in desc:
        return isinstance(v, dict) and "d" in v and any(nonplain_under_any(desc["d"][1], x) for _, x in v["d"])
    xs = v if isinstance(v, list) else (v.get("t", v.get("s")) if isinstance(v, dict) else None)
    if xs is None:
        return False
    if "t" in desc:
        return any(nonplain_under_any(t, x) for t, x in zip(desc["t"], xs))
    sub = desc.get("l") or desc.get("tv") or desc.get("s")
    return any(nonplain_under_any(sub, x) for x in xs)


def plain_of(j):
    """what a yaml/json dump keeps of a serialised value: tuples become lists; sets and Enum members cannot be written"""
    if isinstance(j, list):
        return [plain_of(x) for x in j]
    if isinstance(j, dict):
        if "t" in j:
            return [plain_of(x) for x in j["t"]]
        if "s" in j or "e" in j:
            raise ValueError("unrepresentable")
        if "d" in j:
            return {"d": [[k, plain_of(v)] for k, v in j["d"]]}
    return j


def only_order_differs(d):
    """d1/d2 are dumps of the same data up to the order of sequences"""
    import yaml

    if not (isinstance(d, dict) and "d1" in d):
        return False
    try:
        a, b = yaml.safe_load(d["d1"]), yaml.safe_load(d["d2"])
        return jdump(c02.canon_unordered(enc(a))) == jdump(c02.canon_unordered(enc(b)))
    except Exception:  # noqa: BLE001
        return False


def judge(ctx: Ctx, rec, model_second, model_roundtrip):
    """rec: the observations of one accepted case; model_second: the model's second pass on the result;
    model_roundtrip: None, or what the model predicts for dump->parse ('unrepresentable' | {"ok"/"err"})"""
    desc, channel, inp, origin, sp = rec
    rep = {"desc": desc, "channel": channel, "input": inp, "origin": origin}
    first = sp["first"]
    if sp["validate"] != "ok":
        fid = outside_proved_grammar(desc)
        if fid and ctx.is_open(fid) and model_second is not None and "err" in model_second:
            ctx.known(fid, "a parse result does not pass validate(): %s" % jdump(desc)[:90])
        else:
            ctx.violation("a parse result does not pass validate(): %s" % sp["validate"], dict(rep, kind="validate", validate=sp["validate"]))
    if jdump(sp["reparse"]) != jdump({"ok": first}):
        fid = outside_proved_grammar(desc)
        if fid and ctx.is_open(fid) and model_second is not None and jdump(model_second) == jdump(sp["reparse"]):
            ctx.known(fid, "parse_object(result) differs from the result: %s given %s" % (jdump(desc)[:90], jdump(inp)[:50]))
        else:
            ctx.violation("parse_object(result) differs from the result", dict(rep, kind="reparse", first=first, reparse=sp["reparse"]))
    for fmt in ("yaml", "json"):
        d = sp["dump_" + fmt]
        if d == "same":
            continue
        if fmt == "json" and values_in(first, nonfinite) and ctx.is_open(F_DUMPFLOAT):
            ctx.known(F_DUMPFLOAT, "json dump of inf/nan is not re-parsable: %s" % jdump(first)[:60])
        elif c02.has_multi_set(first) and only_order_differs(d) and ctx.is_open(F_SETORDER):
            ctx.known(F_SETORDER, "a set is dumped in iteration order, which differs after re-parsing: %s" % jdump(first)[:60])
        elif nonplain_under_any(desc, first):
            ctx.hist("outside_quantifier", "non-plain data under Any")
        elif has_union(desc) and isinstance(d, dict) and d.get("exc") in ("RepresenterError", "TypeError") and sp.get("ser_restricted_instance") \
                and in_union_member(desc, lambda x: isinstance(x, dict) and "rn" in x) and ctx.is_open(F_UNIONSER):
            # the serialiser of the Union stopped at a member that returns foreign values unchanged (an Enum), so the
            # instance of the restricted class stays in the data and the yaml dumper cannot represent it (row 5f:
            # `Union[Color, NotEmptyStr]`); the wire form cannot show it (an instance is its plain value there)
            ctx.known(F_UNIONSER, "dump raises: the Union serialiser left an instance of a restricted type in the data: %s" % jdump(desc)[:90])
        elif has_union(desc) and model_roundtrip is not None and ctx.is_open(F_UNIONSER) and (
                model_roundtrip == "unrepresentable" or jdump(model_roundtrip) != jdump({"ok": first})):
            ctx.known(F_UNIONSER, "dump/parse/dump differs as the model of the Union serialiser predicts: %s value %s" % (jdump(desc)[:90], jdump(first)[:50]))
        else:
            ctx.violation("dump/parse/dump (%s) is not byte-identical" % fmt, dict(rep, kind="dump", first=first, format=fmt, dump=d))


# ---------------------------------------------------------------- defaults (row 15e)
def default_case(desc, default_wire):
    """parser whose argument has `default`; returns (canon(parse_args([]).k), canon(parse_object(that).k))"""
    from jsonargparse import ArgumentParser

    p = ArgumentParser(exit_on_error=False, default_env=False)
    p.add_argument("--k", type=c02.to_typing(desc), default=c02.to_py(default_wire))
    cfg = p.parse_args([])
    a = canon(enc(cfg.k))
    cfg2 = p.parse_object(cfg.clone())
    b = canon(enc(cfg2.k))
    return a, b


# ---------------------------------------------------------------- arguments that have a default
# adapt_typehints starts with an early-out for scalars equal to the default (passed by the retry of _check_type and
# by serialize); the model has no default, so this family is judged on the real parser only.
DEFAULT_FAMILY = [
    ("int", 1, [1, 2, "1", "2"]),
    ("float", {"f": "1.0"}, [1, {"f": "1.0"}, "1", {"f": "2.5"}]),
    ("str", "x", ["x", "y", "1"]),
    ("bool", True, [True, False, "true"]),
    ({"t": ["int", "str"]}, {"t": [1, "a"]}, [[1, "a"], {"t": [1, "a"]}, [2, "b"]]),
    ({"l": "float"}, [{"f": "1.0"}], [[1], [{"f": "1.0"}], [2, "3"]]),
    ({"s": "int"}, {"s": [1]}, [[1], {"s": [1]}, [2]]),
    ({"d": ["int", "int"]}, {"d": [[1, 2]]}, [{"d": [["1", 2]]}, {"d": [[1, 2]]}, {"d": [["3", 4]]}]),
    ({"e": [0, ["red", "green", "blue"]]}, {"e": [0, "red"]}, ["red", "blue", {"e": [0, "red"]}]),
    ({"l": {"e": [0, ["red", "green", "blue"]]}}, [{"e": [0, "red"]}], [["red"], [{"e": [0, "red"]}], ["blue", "red"]]),
    ({"u": ["int", "str"]}, 1, [1, "1", "x"]),
    ({"u": ["none", {"tv": "int"}]}, {"t": [1, 2]}, [[1, 2], {"t": [1, 2]}, None, [3]]),
]


# ---------------------------------------------------------------- two-member Unions of scalar-like types, every order
SCALAR_PROBES = [0, 1, -3, True, {"f": "2.0"}, {"f": "0.5"}, {"f": "-0.0"}, {"f": "1e+16"}, "2.0", "1.0", "1e3", "-0.0", "0.5", "2", " 7 ", "01", "0x10",
                 "1_0", "true", "off", "null", "~", "a", "red", "00ff", "", "1.", ".5", "+1", "1e-2", "inf", ".inf", "nan"]


def union_scalar_probes(thorough=False):
    """[(desc, channel, input, origin)]: every ORDERED pair of scalar-like members (leaf types, a mixed Literal, an Enum, restricted
    int / float / string types) as a Union, against a list of scalars in the spellings that one member takes raw and another
    after a conversion (whole-valued floats as text, ints as text with blanks / leading zeros / underscores, bool words,
    null words) - as values and as argument text.  A second pass that converts once more shows up here whatever VERIF_SEED is."""
    rt = c02.rt
    idx = {rt.declared(k)[0]: k for k in range(rt.N_TYPES)}
    members = ["int", "float", "bool", "str", rt.desc(idx["lib:PositiveInt"]), rt.desc(idx["lib:NonNegativeFloat"]), rt.desc(idx["C02Hex"])]
    if thorough:
        members += [{"lit": [1, "a"]}, c02.enum_desc(0)]
    out = []
    for i, a in enumerate(members):
        for j, b in enumerate(members):
            if i == j:
                continue
            try:
                desc = c02.normalise({"u": [a, b]})
            except Exception:  # noqa: BLE001
                continue
            if not (isinstance(desc, dict) and "u" in desc and len(desc["u"]) == 2):
                continue
            for v in SCALAR_PROBES:
                out.append((desc, "obj", v, "union-scalar-probe"))
                if isinstance(v, str) and v != "":
                    out.append((desc, "arg", v, "union-scalar-probe-text"))
    return out


def default_family(ctx: Ctx):
    from jsonargparse import ArgumentError, ArgumentParser

    for desc, dflt, inputs in DEFAULT_FAMILY:
        p = ArgumentParser(exit_on_error=False, default_env=False)
        p.add_argument("--k", type=c02.to_typing(desc), default=c02.to_py(dflt))
        for inp in inputs:
            for ch in ("obj", "arg"):
                if ch == "arg":
                    text = c02.to_text(inp)
                    if text is None:
                        continue
                try:
                    if ch == "obj":
                        cfg = p.parse_object({"k": copy.deepcopy(c02.to_py(inp))}, _skip_validation=True)
                    else:
                        cfg = p.parse_args(["--k=" + text], _skip_validation=True)
                except ArgumentError:
                    continue
                ctx.count()
                if cfg.k is None:
                    continue
                sp = second_pass(p, cfg)
                ctx.count(4)
                ctx.hist("default_family", "cases")
                rep = {"kind": "with-default", "desc": desc, "default": dflt, "channel": ch, "input": inp}
                if sp["validate"] != "ok":
                    ctx.violation("a parse result does not pass validate() (argument with a default)", dict(rep, what="validate", got=sp["validate"]))
                if jdump(sp["reparse"]) != jdump({"ok": sp["first"]}):
                    ctx.violation("parse_object(result) differs from the result (argument with a default)",
                                  dict(rep, what="reparse", first=sp["first"], reparse=sp["reparse"]))
                for fmt in ("yaml", "json"):
                    d = sp["dump_" + fmt]
                    if d != "same" and not (c02.has_multi_set(sp["first"]) and only_order_differs(d)):
                        ctx.violation("dump/parse/dump (%s) is not byte-identical (argument with a default)" % fmt,
                                      dict(rep, what="dump", format=fmt, first=sp["first"], dump=d))


def replay_default_family(rp):
    """re-run one stored case of the family; True = still failing"""
    from jsonargparse import ArgumentError, ArgumentParser

    p = ArgumentParser(exit_on_error=False, default_env=False)
    p.add_argument("--k", type=c02.to_typing(rp["desc"]), default=c02.to_py(rp["default"]))
    try:
        if rp["channel"] == "obj":
            cfg = p.parse_object({"k": copy.deepcopy(c02.to_py(rp["input"]))}, _skip_validation=True)
        else:
            cfg = p.parse_args(["--k=" + c02.to_text(rp["input"])], _skip_validation=True)
    except ArgumentError:
        return False
    sp = second_pass(p, cfg)
    print(jdump(sp)[:1500])
    if rp["what"] == "validate":
        return sp["validate"] != "ok"
    if rp["what"] == "reparse":
        return jdump(sp["reparse"]) != jdump({"ok": sp["first"]})
    return sp["dump_" + rp["format"]] != "same"


# ---------------------------------------------------------------- registered and restricted types (real code only)
def canon_any(x):
    """type-aware snapshot of an arbitrary parsed value"""
    if x is None:
        return None
    if isinstance(x, (list, tuple)):
        return [type(x).__name__, [canon_any(y) for y in x]]
    if isinstance(x, dict):
        return ["dict", [[canon_any(k), canon_any(v)] for k, v in x.items()]]
    return [type(x).__name__, repr(x)]


def registered_family_types():
    import datetime
    import decimal
    import pathlib
    import uuid

    from jsonargparse import typing as jt

    # (name, type, texts accepted at a leaf, objects already of the type)
    return [
        ("timedelta", datetime.timedelta,
         ["1:02:03", "0:00:01.5", "23:59:59", "24:00:00", "30:00:00", "47:59:59", "48:00:00", "1 day, 2:00:00", "2 days, 0:00:01",
          "-1 day, 23:00:00", "-1 day, 0:30:00", "100:00:00"],
         [datetime.timedelta(days=1), datetime.timedelta(hours=30), datetime.timedelta(hours=-1), datetime.timedelta(minutes=-30),
          datetime.timedelta(seconds=5), datetime.timedelta(days=3, seconds=1)]),
        ("range", range, ["range(5)", "range(1, 5)", "range(1, 10, 2)", "range(0)", "range(5, 1, -1)"], [range(3), range(2, 9, 3)]),
        ("bytes", bytes, ["aGVsbG8=", "AA==", "/w=="], [b"hi", b"\x00\xff"]),
        ("bytearray", bytearray, ["aGVsbG8="], [bytearray(b"hi")]),
        ("UUID", uuid.UUID, ["12345678-1234-5678-1234-567812345678", "12345678123456781234567812345678"], [uuid.UUID(int=5)]),
        ("complex", complex, ["(1+2j)", "3j", "1.5", "(1-0.5j)"], [complex(1, 2), complex(0, -1)]),
        ("Path", pathlib.Path, ["a/b.txt", "/tmp/x", ".", "rel dir/f"], [pathlib.Path("a/b"), pathlib.Path("/")]),
        ("Decimal", decimal.Decimal, ["0.5", "2", "1.25", "-0.125"], [decimal.Decimal("0.5"), decimal.Decimal("3")]),
        ("PositiveInt", jt.PositiveInt, ["3", "1"], [5]),
        ("NonNegativeInt", jt.NonNegativeInt, ["0", "7"], [0]),
        ("PositiveFloat", jt.PositiveFloat, ["0.5", "2", "1e-3"], [2.5]),
        ("NonNegativeFloat", jt.NonNegativeFloat, ["0", "0.0", "3.5"], [0.0]),
        ("ClosedUnitInterval", jt.ClosedUnitInterval, ["0", "1", "0.25"], [0.5, 1.0]),
        ("OpenUnitInterval", jt.OpenUnitInterval, ["0.5", "0.001"], [0.25]),
        ("NotEmptyStr", jt.NotEmptyStr, ["a", " x ", "1", "null"], ["abc"]),
        ("Email", jt.Email, ["a@b.co", "x.y@example.org"], ["q@r.st"]),
    ]


def fixed_point_any(p, cfg):
    """validate / type-aware reparse / dump cycle for a configuration with arbitrary value types"""
    from jsonargparse import ArgumentError

    first = canon_any(cfg.k)
    out = {"first": first}
    try:
        p.validate(cfg.clone())
        out["validate"] = "ok"
    except Exception as ex:  # noqa: BLE001
        out["validate"] = "raises:" + type(ex).__name__
    try:
        out["reparse"] = {"ok": canon_any(p.parse_object(cfg.clone()).k)}
    except ArgumentError as ex:
        out["reparse"] = {"err": "reject", "msg": str(ex)[:120]}
    except Exception as ex:  # noqa: BLE001
        out["reparse"] = {"err": "crash:" + type(ex).__name__}
    for fmt in ("yaml", "json"):
        try:
            d1 = p.dump(cfg.clone(), format=fmt)
            cfg3 = p.parse_string(d1)
            d2 = p.dump(cfg3, format=fmt)
            same_val = jdump(canon_any(cfg3.k)) == jdump(first)
            out["dump_" + fmt] = "same" if d1 == d2 and same_val else {"d1": d1, "d2": d2, "reparsed": canon_any(cfg3.k)}
        except ArgumentError as ex:
            out["dump_" + fmt] = {"exc": "ArgumentError", "msg": str(ex)[:160]}
        except Exception as ex:  # noqa: BLE001
            out["dump_" + fmt] = {"exc": type(ex).__name__, "msg": str(ex)[:160]}
    return out


def registered_parser(name, position, default_index=None):
    from typing import List, Optional

    from jsonargparse import ArgumentParser

    entry = next(e for e in registered_family_types() if e[0] == name)
    T = entry[1]
    T = {"leaf": T, "optional": Optional[T], "list": List[T]}[position]
    p = ArgumentParser(exit_on_error=False, default_env=False)
    if default_index is None:
        p.add_argument("--k", type=T)
    else:
        d = entry[3][default_index]
        if not isinstance(d, entry[1]):
            d = entry[1](d)              # a default in normal form (row 15e is about the others)
        p.add_argument("--k", type=T, default=[d] if position == "list" else d)
    return p, entry


def registered_case(name, position, how, index):
    """one case of the family on the real parser; returns (observations | None when the apply pass rejects)"""
    import json

    from jsonargparse import ArgumentError

    if how == "default":
        p, entry = registered_parser(name, position, index)
    else:
        p, entry = registered_parser(name, position)
    try:
        if how == "text":
            t = entry[2][index]
            if position == "list":
                try:
                    item = json.loads(t)
                    if isinstance(item, (dict, list)) or item is None or isinstance(item, bool):
                        item = t
                except ValueError:
                    item = t
                t = json.dumps([item, item] if index % 2 else [item])
            cfg = p.parse_args(["--k=" + t], _skip_validation=True)
        elif how == "object":
            o = entry[3][index]
            cfg = p.parse_object({"k": [copy.deepcopy(o)] if position == "list" else copy.deepcopy(o)}, _skip_validation=True)
        else:
            cfg = p.parse_args([], _skip_validation=True)
    except ArgumentError:
        return None
    if cfg.k is None:
        return None
    return fixed_point_any(p, cfg)


def fixed_point_deviations(sp):
    devs = []
    if sp["validate"] != "ok":
        devs.append(("validate", sp["validate"]))
    if jdump(sp["reparse"]) != jdump({"ok": sp["first"]}):
        devs.append(("reparse", sp["reparse"]))
    for fmt in ("yaml", "json"):
        if sp["dump_" + fmt] != "same":
            devs.append(("dump_" + fmt, sp["dump_" + fmt]))
    return devs


# ---- the same family through the model: restricted types are `rnum`, the others `reg` leaves --------------------
_REG_OBJS: dict = {}


def reg_kind_index(x):
    """index of the registered (non-restricted) type of the family that `x` is an instance of, else None"""
    for k, (_n, T, _t, _o) in enumerate(registered_family_types()):
        if not _is_restricted(T) and type(x) is not bool and isinstance(x, T) and type(x).__module__ != "builtins" or (T in (bytes, bytearray, range, complex) and type(x) is T):
            return k
    return None


def _is_restricted(T):
    return hasattr(T, "_type") and (hasattr(T, "_restrictions") or hasattr(T, "_regex"))


def enc2(x):
    """wire encoding that also knows the registered values ({"o": [k, repr]}); restricted instances are plain numbers/strings"""
    if x is None or isinstance(x, bool):
        return x
    k = reg_kind_index(x)
    if k is not None:
        _REG_OBJS[(k, repr(x))] = x
        return {"o": [k, repr(x)]}
    if isinstance(x, int):
        return int(x)
    if isinstance(x, float):
        return {"f": repr(float(x))}
    if isinstance(x, str):
        return str(x)
    if isinstance(x, list):
        return [enc2(y) for y in x]
    if isinstance(x, tuple):
        return {"t": [enc2(y) for y in x]}
    raise Unencodable(type(x).__name__)


def to_py2(j):
    if isinstance(j, dict) and "o" in j:
        return _REG_OBJS[(j["o"][0], j["o"][1])]
    if isinstance(j, list):
        return [to_py2(x) for x in j]
    if isinstance(j, dict) and "t" in j:
        return tuple(to_py2(x) for x in j["t"])
    return c02.to_py(j)


def nodes(j):
    yield j
    if isinstance(j, list):
        for x in j:
            yield from nodes(x)
    elif isinstance(j, dict) and ("t" in j or "s" in j):
        for x in j.get("t", j.get("s")):
            yield from nodes(x)
    elif isinstance(j, dict) and "d" in j:
        for _, v in j["d"]:
            yield from nodes(v)


def leaf_desc(k):
    T = registered_family_types()[k][1]
    if _is_restricted(T):
        return {"rn": [{int: "int", float: "float", str: "str"}[T._type], k]}
    return {"reg": k}


def reg_tables(k, *values):
    """oracle tables of the registered / restricted leaf `k` for every node of `values` and of what the loader makes of
    their strings: what the real class / deserializer / serializer answers"""
    from jsonargparse.typing import get_registered_type

    T = registered_family_types()[k][1]
    base = c02.build_tables(*values)
    seen, todo = {}, []
    for v in values:
        todo.extend(nodes(v))
    for _s, r in base["yaml"] + base["any"]:
        if r is not c02.EXC:
            todo.extend(nodes(r))
    for u in todo:
        seen[jdump(u)] = u
    out = {"numstr": [], "rnumok": [], "baseof": [], "regdeser": [], "regser": []}
    if _is_restricted(T):
        b = T._type
        tag = {int: "int", float: "float", str: "str"}[b]
        cands = {}
        for u in seen.values():
            if isinstance(u, str) and b is not str:
                try:
                    w = enc2(b(u))
                except (ValueError, OverflowError):
                    w = None
                out["numstr"].append([tag, u, w])
                if w is not None:
                    cands[jdump(w)] = w
            if isinstance(u, bool) or u is None or isinstance(u, (list,)) or (isinstance(u, dict) and "f" not in u):
                continue
            try:
                pu = c02.to_py(u)
                if b is int and isinstance(pu, float) and not pu.is_integer():
                    continue
                w = enc2(b(pu)) if not isinstance(pu, str) or b is str else None
            except (ValueError, OverflowError, TypeError):
                w = None
            if w is not None:
                cands[jdump(w)] = w
        for w in cands.values():
            try:
                T(c02.to_py(w))
                ok = True
            except (ValueError, TypeError):
                ok = False
            out["rnumok"].append([str(k), w, ok])
    else:
        rt = get_registered_type(T)
        objs = {}
        for u in seen.values():
            if isinstance(u, dict) and "o" in u:
                objs[jdump(u)] = u
                if u["o"][0] == k:
                    continue
            try:
                w = enc2(rt.deserializer(to_py2(u)))
                if not (isinstance(w, dict) and "o" in w):
                    w = None
            except ValueError:
                w = None
            except Exception:  # noqa: BLE001 - not wrapped by RegisteredType.deserializer: outside the model
                raise Unencodable("deserializer raised an unwrapped exception")
            out["regdeser"].append([str(k), u, w])
            if w is not None:
                objs[jdump(w)] = w
        for u in objs.values():
            if u["o"][0] != k:
                continue
            try:
                out["regser"].append([str(k), u, c02.enc(rt.serializer(to_py2(u)))])
            except Unencodable:
                raise
            except Exception:  # noqa: BLE001
                out["regser"].append([str(k), u, None])
    base.update(out)
    return base


def registered_correspondence(ctx: Ctx):
    """first pass, second pass and serialiser of the real parser versus the model (`rnum` / `reg` leaves) on the family:
    leaf / Optional / List positions, text and object inputs"""
    import json
    from typing import List, Optional

    from jsonargparse import ArgumentError, ArgumentParser
    from jsonargparse._common import parser_context

    items, metas = [], []
    for k, (name, T, texts, objs) in enumerate(registered_family_types()):
        ld = leaf_desc(k)
        bad_texts = ["abc", "-1", "0", "1.5", "true", "null", "[1]", "", "12:00", "1e3", " 2 "]
        for position, desc, PT in (("leaf", ld, T), ("optional", {"u": [ld, "none"]}, Optional[T]), ("list", {"l": ld}, List[T])):
            p = ArgumentParser(exit_on_error=False, default_env=False)
            p.add_argument("--k", type=PT)
            action = next(a for a in p._actions if a.dest == "k")
            cases = [("arg", t) for t in texts + bad_texts] + [("obj", o) for o in objs]
            for ch, x in cases:
                try:
                    if ch == "arg":
                        text = x
                        if position == "list":
                            try:
                                item = json.loads(x)
                                if isinstance(item, (dict, list)) or item is None or isinstance(item, bool):
                                    item = x
                            except ValueError:
                                item = x
                            text = json.dumps([item, item])
                        wire_in = text
                    else:
                        given = [copy.deepcopy(x)] if position == "list" else copy.deepcopy(x)
                        wire_in = enc2(given)
                    try:
                        cfg = p.parse_args(["--k=" + text]) if ch == "arg" else p.parse_object({"k": given})
                        first = enc2(cfg.k)
                        real = {"ok": first}
                    except ArgumentError:
                        cfg, first, real = None, None, {"err": "reject"}
                    except Unencodable:
                        raise
                    except Exception:  # noqa: BLE001 - e.g. decimal.InvalidOperation is not wrapped (C03's subject)
                        raise Unencodable("unwrapped deserializer exception")
                    want = ["parseArg" if ch == "arg" else "parseObj"]
                    tabs = reg_tables(k, wire_in) if first is None else reg_tables(k, wire_in, first)
                    items.append({"t": desc, "v": wire_in, "o": tabs, "want": want})
                    metas.append(("first", name, position, ch, wire_in, real))
                    ctx.count()
                    if first is not None:
                        try:
                            again = {"ok": enc2(p.parse_object(cfg.clone()).k)}
                        except ArgumentError:
                            again = {"err": "reject"}
                        try:
                            with parser_context(parent_parser=p, load_value_mode=p.parser_mode):
                                sv = action.serialize(copy.deepcopy(cfg.k))
                            sreal = {"ok": c02.canon(c02.enc(sv))}
                        except Unencodable:
                            raise
                        except Exception:  # noqa: BLE001
                            sreal = {"err": "reject"}
                        items.append({"t": desc, "v": first, "o": reg_tables(k, first), "want": ["parseObj", "ser"]})
                        metas.append(("second", name, position, ch, first, (again, sreal)))
                        ctx.count(2)
                except Unencodable:
                    ctx.hist("registered_model", "outside-wire-grammar")
    res = c02.run_driver(ctx, items)
    bad = []
    for r, m in zip(res or [], metas):
        if "bad-input" in r or "miss" in r:
            raise MachineryError("driver could not evaluate registered case %s: %s" % (jdump(m[:5])[:300], jdump(r)[:200]))
        if m[0] == "first":
            mine = c02.model_obs(r, m[3])
            if jdump(mine) != jdump(c02.canon(m[5])):
                bad.append({"what": "first pass", "type": m[1], "position": m[2], "channel": m[3], "input": m[4], "real": m[5], "model": mine})
        else:
            again, sreal = m[5]
            mine = c02.model_obs(r, "obj")
            if jdump(mine) != jdump(c02.canon(again)):
                bad.append({"what": "second pass", "type": m[1], "position": m[2], "value": m[4], "real": again, "model": mine})
            ms = {"ok": c02.canon(r["ser"]["ok"])} if "ok" in r["ser"] else {"err": "reject"}
            if jdump(ms) != jdump(sreal):
                bad.append({"what": "serialise", "type": m[1], "position": m[2], "value": m[4], "real": sreal, "model": ms})
        ctx.hist("registered_model", m[0])
    bad.sort(key=lambda b: len(jdump(b)))
    for b in bad[:3]:
        ctx.tie_break("correspondence E3 (rnum / reg leaves of the adapter model vs jsonargparse registered types) disagrees", jdump(b)[:1800])
    ctx.extra["registered_model_cases"] = len(items)
    ctx.extra["registered_model_disagreements"] = len(bad)
    import os
    if os.environ.get("C10_DEBUG"):
        with open(os.environ["C10_DEBUG"] + ".reg", "w") as f:
            for b in bad:
                f.write(jdump(b) + "\n")


def registered_family(ctx: Ctx):
    n = 0
    for name, _T, texts, objs in registered_family_types():
        for position in ("leaf", "optional", "list"):
            todo = [("text", i) for i in range(len(texts))] + [("object", i) for i in range(len(objs))] + [("default", i) for i in range(len(objs))]
            for how, i in todo:
                sp = registered_case(name, position, how, i)
                ctx.count()
                if sp is None:
                    ctx.hist("registered_family", "rejected")
                    continue
                n += 1
                ctx.count(4)
                ctx.hist("registered_family", name)
                ctx.nontrivial(jdump(["registered", name, position, how, i]))
                for what, got in fixed_point_deviations(sp):
                    ctx.violation("%s value at %s position is not a fixed point (%s)" % (name, position, what),
                                  {"kind": "registered", "type": name, "position": position, "how": how, "index": i, "what": what,
                                   "first": sp["first"], "got": got})
    ctx.extra["registered_family_cases"] = n


# ---------------------------------------------------------------- subclass-typed values (real code only)
_FAMILY_MOD = [None]
FAMILY_SRC = '''
class Base:
    def __init__(self, width: int = 16, depth: int = 2):
        self.width = width
        self.depth = depth


class SubA(Base):
    def __init__(self, kernel: int = 3, **kwargs):
        super().__init__(**kwargs)
        self.kernel = kernel


class SubB(Base):
    def __init__(self, name: str = "b", rate: float = 0.5, width: int = 8):
        super().__init__(width=width)
        self.name = name
        self.rate = rate


from dataclasses import dataclass


@dataclass
class Layer:
    units: int = 8
    act: str = "relu"


class Tokenizer:
    def __init__(self, lower: bool = True):
        self.lower = lower


class DropTokenizer(Tokenizer):
    # annotation and default disagree: selecting this class is an ordinary parse error
    def __init__(self, dropout: int = 0.1, lower: bool = True):
        super().__init__(lower)
'''


def family_module():
    """the class family lives in a real module file of a temporary package dir (removed at exit)"""
    if _FAMILY_MOD[0] is None:
        import atexit
        import importlib
        import os
        import shutil
        import sys
        import tempfile

        d = tempfile.mkdtemp(prefix="c10fam")
        name = "c10fam_%d" % os.getpid()
        with open(os.path.join(d, name + ".py"), "w") as f:
            f.write(FAMILY_SRC)
        sys.path.insert(0, d)
        atexit.register(shutil.rmtree, d, True)
        _FAMILY_MOD[0] = (importlib.import_module(name), name, d)
    return _FAMILY_MOD[0]


def canon_cfg(x):
    """type-aware snapshot of a configuration value with Namespaces"""
    from jsonargparse import Namespace

    if x is None:
        return None
    if isinstance(x, Namespace):
        return ["ns", [[k, canon_cfg(v)] for k, v in sorted(vars(x).items())]]
    if isinstance(x, dict):
        return ["dict", [[canon_any(k), canon_cfg(v)] for k, v in x.items()]]
    if isinstance(x, (list, tuple)):
        return [type(x).__name__, [canon_cfg(y) for y in x]]
    return [type(x).__name__, repr(x)]


def subclass_positions():
    from typing import Dict, List, Optional, Tuple

    mod, name, _ = family_module()
    B = mod.Base
    a0 = {"class_path": name + ".SubA"}
    a5 = {"class_path": name + ".SubA", "init_args": {"kernel": 5}}
    b0 = {"class_path": name + ".Base"}
    bw = {"class_path": name + ".Base", "init_args": {"depth": 7}}
    sb = {"class_path": name + ".SubB", "init_args": {"name": "x"}}
    return [
        ("Base", B, [a0, a5, b0, sb]),
        ("Optional[Base]", Optional[B], [a0, bw]),
        ("List[Base]", List[B], [[a0, b0], [a5], [sb, a0, bw]]),
        ("List[Optional[Base]]", List[Optional[B]], [[a0, None], [None, bw], [a5, None, b0]]),
        ("Dict[str,Base]", Dict[str, B], [{"enc": a0, "aux": bw}, {"enc": sb}]),
        ("Dict[str,Optional[Base]]", Dict[str, Optional[B]], [{"enc": a0, "aux": None}, {"enc": None, "aux": a5}]),
        ("Tuple[Base,int]", Tuple[B, int], [[a0, 4], [bw, 0]]),
        ("Optional[Tuple[Base,Base]]", Optional[Tuple[B, B]], [[a5, b0], [a0, sb]]),
        ("List[List[Base]]", List[List[B]], [[[a0], [b0, a5]], [[bw]]]),
    ]


def default_like(value, as_tuple):
    """a parser default of the same key set / length as `value`, every spec replaced by a Base spec carrying init_args"""
    from jsonargparse import Namespace

    _, name, _ = family_module()
    if isinstance(value, dict) and "class_path" in value:
        return Namespace(class_path=name + ".Base", init_args=Namespace(width=64, depth=2))
    if isinstance(value, dict):
        return {k: default_like(v, False) for k, v in value.items()}
    if isinstance(value, list):
        items = [default_like(v, False) for v in value]
        return tuple(items) if as_tuple else items
    return value


def subclass_case(pos_index, val_index, with_default, channel, tmpdir=None):
    """one case on the real parser: (label, observations) or None when the parse rejects"""
    import json
    import os

    import yaml
    from jsonargparse import ArgumentError, ArgumentParser

    label, T, values = subclass_positions()[pos_index]
    value = values[val_index]
    p = ArgumentParser(exit_on_error=False, default_env=False)
    if with_default:
        if isinstance(value, dict) and "class_path" in value:      # a subclass-typed argument itself wants a dict default
            _, name, _ = family_module()
            dflt = {"class_path": name + ".Base", "init_args": {"width": 64, "depth": 2}}
        else:
            dflt = default_like(value, "Tuple" in label)
        p.add_argument("--k", type=T, default=dflt)
    else:
        p.add_argument("--k", type=T)
    try:
        if channel == "string":
            cfg = p.parse_string(yaml.safe_dump({"k": value}))
        elif channel == "path":
            _, _, d = family_module()
            path = os.path.join(d, "cfg_%d_%d_%d.yaml" % (pos_index, val_index, int(with_default)))
            with open(path, "w") as f:
                f.write(yaml.safe_dump({"k": value}))
            cfg = p.parse_path(path)
        elif channel == "args":
            cfg = p.parse_args(["--k=" + json.dumps(value)])
        else:
            cfg = p.parse_object({"k": copy.deepcopy(value)})
    except ArgumentError:
        return None
    cfg = cfg.clone()
    first = canon_cfg(cfg.k)
    out = {"first": first}
    try:
        p.validate(cfg.clone())
        out["validate"] = "ok"
    except Exception as ex:  # noqa: BLE001
        out["validate"] = "raises:" + type(ex).__name__
    try:
        out["reparse"] = {"ok": canon_cfg(p.parse_object(cfg.clone()).k)}
    except ArgumentError as ex:
        out["reparse"] = {"err": "reject", "msg": str(ex)[:160]}
    except Exception as ex:  # noqa: BLE001
        out["reparse"] = {"err": "crash:" + type(ex).__name__}
    for fmt in ("yaml", "json"):
        try:
            d1 = p.dump(cfg.clone(), format=fmt)
            cfg3 = p.parse_string(d1)
            d2 = p.dump(cfg3, format=fmt)
            out["dump_" + fmt] = "same" if d1 == d2 else {"d1": d1, "d2": d2}
        except Exception as ex:  # noqa: BLE001
            out["dump_" + fmt] = {"exc": type(ex).__name__, "msg": str(ex)[:160]}
    return out


def subclass_family(ctx: Ctx):
    n = 0
    for pi, (label, _T, values) in enumerate(subclass_positions()):
        for vi in range(len(values)):
            for with_default in (False, True):
                for channel in ("string", "path", "args", "object"):
                    sp = subclass_case(pi, vi, with_default, channel)
                    ctx.count()
                    if sp is None:
                        ctx.hist("subclass_family", "rejected")
                        continue
                    n += 1
                    ctx.count(4)
                    ctx.hist("subclass_family", label)
                    ctx.nontrivial(jdump(["subclass", label, vi, with_default, channel]))
                    for what, got in fixed_point_deviations(sp):
                        if (label == "List[List[Base]]" and with_default and what == "reparse" and channel in ("string", "path")
                                and ctx.is_open(F_NESTEDLIST)):
                            ctx.known(F_NESTEDLIST, "List[List[Base]] with a same-shape default: parse_%s result is incomplete, parse_object inherits the default's init_args" % channel)
                            continue
                        if (what == "dump_json" and label in MIXED_LABELS and isinstance(got, dict) and got.get("exc") == "TypeError"
                                and "Namespace is not JSON serializable" in got.get("msg", "") and ctx.is_open(F_JSONNS)):
                            ctx.known(F_JSONNS, "dump(format='json') raises for a %s value: the subclass spec stays a Namespace" % label)
                            continue
                        ctx.violation("subclass-typed value at %s is not a fixed point (%s, first parse by parse_%s%s)" % (
                            label, what, channel, ", parser default of the same shape" if with_default else ""),
                            {"kind": "subclass", "position": pi, "label": label, "value": vi, "with_default": with_default, "channel": channel,
                             "what": what, "first": sp["first"], "got": got})
    ctx.extra["subclass_family_cases"] = n


# ---------------------------------------------------------------- parse-time links (session 2)
# Links applied on parse are applied once per parse, in definition order; the result is a fixed point only because
# `link_arguments` refuses chains at definition time (a target that is a source of another link, a source that is a
# target).  The family defines random sets of links - single and multi source, with and without compute_fn, targets at
# the top level and inside a subclass argument's init_args, among them every kind of chain - in random order, keeps
# whatever the definition accepts, and checks the fixed-point property on what the parser then returns.
def _lk_mul(a, b):
    return a * b


def _lk_add(a, b):
    return a + b


def _lk_twice(a):
    return 2 * a


LINK_POOL = [
    (("dim",), "model.init_args.width", None),
    (("batch",), "budget", None),
    (("scale",), "model.init_args.depth", _lk_twice),
    (("batch", "model.init_args.width"), "budget", _lk_mul),
    (("scale", "dim"), "total", _lk_add),
    (("batch", "scale"), "model.init_args.depth", _lk_add),
    (("model.init_args.width",), "total", None),
    (("dim", "budget"), "total", _lk_add),
    (("budget",), "total", _lk_twice),
    (("total", "scale"), "budget", _lk_mul),
    (("dim",), "scale", None),
    (("model.init_args.depth", "model.init_args.width"), "total", _lk_mul),
    (("dim", "model.init_args.depth"), "budget", _lk_add),
    (("batch",), "model.init_args.depth", None),
]


def link_parser(order):
    """(parser, indices of the links the definition accepted, in definition order)"""
    from jsonargparse import ArgumentParser, Namespace

    mod, name, _ = family_module()
    p = ArgumentParser(exit_on_error=False, default_env=False)
    p.add_argument("--batch", type=int, default=4)
    p.add_argument("--dim", type=int, default=16)
    p.add_argument("--scale", type=int, default=2)
    p.add_argument("--budget", type=int, default=0)
    p.add_argument("--total", type=int, default=0)
    p.add_subclass_arguments(mod.Base, "model", default=Namespace(class_path=name + ".Base"))
    accepted = []
    for i in order:
        src, tgt, fn = LINK_POOL[i]
        try:
            p.link_arguments(src if len(src) > 1 else src[0], tgt, compute_fn=fn)
            accepted.append(i)
        except Exception:  # noqa: BLE001 - the definition refuses the link (chains, duplicate targets): that is its job
            pass
    return p, accepted


def link_case(order, inp, channel):
    """observations of one parse with links, or None when the parse itself is refused"""
    import json

    from jsonargparse import ArgumentError

    p, accepted = link_parser(order)
    if not accepted:
        return None, accepted
    try:
        if channel == "object":
            cfg = p.parse_object(copy.deepcopy(inp))
        elif channel == "string":
            cfg = p.parse_string(json.dumps(inp))
        else:
            cfg = p.parse_args(["--%s=%s" % (k, v) for k, v in inp.items()])
    except ArgumentError:
        return None, accepted
    cfg = cfg.clone()
    out = {"first": canon_cfg(cfg)}
    try:
        p.validate(cfg.clone())
        out["validate"] = "ok"
    except Exception as ex:  # noqa: BLE001
        out["validate"] = "raises:" + type(ex).__name__
    try:
        out["reparse"] = {"ok": canon_cfg(p.parse_object(cfg.clone()))}
    except ArgumentError as ex:
        out["reparse"] = {"err": "reject", "msg": str(ex)[:160]}
    except Exception as ex:  # noqa: BLE001
        out["reparse"] = {"err": "crash:" + type(ex).__name__}
    for fmt in ("yaml", "json"):
        try:
            d1 = p.dump(cfg.clone(), format=fmt)
            d2 = p.dump(p.parse_string(d1), format=fmt)
            out["dump_" + fmt] = "same" if d1 == d2 else {"d1": d1, "d2": d2}
        except Exception as ex:  # noqa: BLE001
            out["dump_" + fmt] = {"exc": type(ex).__name__, "msg": str(ex)[:160]}
    return out, accepted


def link_orders(ctx: Ctx):
    """every ordered pair of links of the pool (all two-link chains in both definition orders) and random longer sets"""
    import itertools

    n = len(LINK_POOL)
    orders = [list(pr) for pr in itertools.permutations(range(n), 2)]
    for _ in range(ctx.budget(60, 600)):
        orders.append(ctx.rng.sample(range(n), ctx.rng.randint(3, 5)))
    return orders


def link_family(ctx: Ctx):
    cases = 0
    for order in link_orders(ctx):
        inp = {"batch": ctx.rng.choice([1, 3, 8]), "dim": ctx.rng.choice([5, 64]), "scale": ctx.rng.choice([1, 7])}
        channel = ctx.rng.choice(["object", "object", "string", "args"])
        sp, accepted = link_case(order, inp, channel)
        ctx.count()
        ctx.hist("link_family", "links accepted: %d of %d" % (len(accepted), len(order)))
        if sp is None:
            ctx.hist("link_family", "no link accepted" if not accepted else "parse refused")
            continue
        cases += 1
        ctx.count(4)
        ctx.nontrivial(jdump(["links", accepted, inp, channel]))
        for what, got in fixed_point_deviations(sp):
            ctx.violation("the result of a parse with parse-time links is not a fixed point (%s)" % what,
                          {"kind": "links", "order": order, "accepted": accepted, "input": inp, "channel": channel, "what": what,
                           "links": [[list(LINK_POOL[i][0]), LINK_POOL[i][1]] for i in accepted], "first": sp["first"], "got": got})
            break
    ctx.extra["link_family_cases"] = cases


# ---------------------------------------------------------------- dict values given as a file path (metadata kept)
def whole_cfg(cfg):
    """type-aware snapshot of the whole configuration INCLUDING metadata (`__path__` entries inside dict values)"""
    return canon_cfg(cfg)


def path_family(ctx: Ctx):
    import json
    import os
    from typing import Any, Dict, List

    import yaml
    from jsonargparse import ArgumentError, ArgumentParser

    _, _, d = family_module()
    files = {
        "data.yaml": yaml.safe_dump({"a": 1, "b": 2}),
        "data.json": json.dumps({"x": 3}),
        "nested.yaml": yaml.safe_dump({"p": {"q": [1, 2]}, "r": "s"}),
        "lists.yaml": yaml.safe_dump({"a": [1, 2], "b": []}),
    }
    for name, text in files.items():
        with open(os.path.join(d, name), "w") as f:
            f.write(text)
    specs = [
        ("Dict[str,int]", Dict[str, int], ["data.yaml", "data.json"]),
        ("Dict[str,Any]", Dict[str, Any], ["nested.yaml", "data.yaml"]),
        ("Dict[str,List[int]]", Dict[str, List[int]], ["lists.yaml"]),
        ("Any", Any, ["nested.yaml", "data.json"]),
    ]
    n = 0
    for label, T, names in specs:
        for fname in names:
            path = os.path.join(d, fname)
            main = os.path.join(d, "main_%s" % fname.replace(".", "_") + ".yaml")
            with open(main, "w") as f:
                f.write(yaml.safe_dump({"data": path, "name": "from_file"}))
            for channel in ("args", "string", "path"):
                p = ArgumentParser(exit_on_error=False, default_env=False)
                p.add_argument("--name", type=str, default="x")
                p.add_argument("--data", type=T, enable_path=True)
                try:
                    if channel == "args":
                        cfg = p.parse_args(["--data=" + path])
                    elif channel == "string":
                        cfg = p.parse_string(yaml.safe_dump({"data": path}))
                    else:
                        cfg = p.parse_path(main)
                except ArgumentError:
                    ctx.hist("path_family", "rejected")
                    continue
                ctx.count()
                n += 1
                before = whole_cfg(cfg.clone())
                rep = {"kind": "path-value", "label": label, "file": fname, "channel": channel}
                has_meta = isinstance(cfg.data, dict) and "__path__" in cfg.data
                ctx.hist("path_family", "with __path__" if has_meta else "without __path__")
                if has_meta:
                    ctx.nontrivial(jdump(["path", label, fname, channel]))
                try:
                    p.validate(cfg.clone())
                except Exception as ex:  # noqa: BLE001
                    ctx.violation("a parse result holding a dict loaded from a path does not pass validate()", dict(rep, what="validate", got=type(ex).__name__))
                try:
                    cfg2 = p.parse_object(cfg.clone())
                    again = whole_cfg(cfg2)
                    third = whole_cfg(p.parse_object(cfg2.clone()))
                except ArgumentError as ex:
                    again = third = {"err": str(ex)[:120]}
                ctx.count(2)
                if jdump(again) != jdump(before) or jdump(third) != jdump(again):
                    ctx.violation("parse_object(cfg) differs from cfg, metadata (__path__ inside the dict value) included",
                                  dict(rep, what="reparse", first=before, second=again, third=third))
                try:
                    d1 = p.dump(cfg.clone())
                    d2 = p.dump(p.parse_string(d1))
                    if d1 != d2 or "__path__" in d1:
                        ctx.violation("dump/parse/dump of a result holding a dict loaded from a path is not byte-identical",
                                      dict(rep, what="dump", d1=d1, d2=d2))
                except Exception as ex:  # noqa: BLE001
                    ctx.violation("dump of a result holding a dict loaded from a path raises", dict(rep, what="dump", got=type(ex).__name__))
    ctx.extra["path_family_cases"] = n


# ---------------------------------------------------------------- history: a failing parse between obtaining cfg and checking it
def history_observation(p, cfg):
    """the three fixed-point observations of `cfg` as data"""
    from jsonargparse import ArgumentError

    out = {"cfg": whole_cfg(cfg.clone())}
    try:
        p.validate(cfg.clone())
        out["validate"] = "ok"
    except Exception as ex:  # noqa: BLE001
        out["validate"] = "raises:" + type(ex).__name__
    try:
        out["reparse"] = whole_cfg(p.parse_object(cfg.clone()))
    except ArgumentError as ex:
        out["reparse"] = {"err": str(ex)[:120]}
    try:
        d1 = p.dump(cfg.clone())
        d2 = p.dump(p.parse_string(d1))
        out["dump"] = d1
        out["dump_again"] = d2
    except Exception as ex:  # noqa: BLE001
        out["dump"] = out["dump_again"] = "raises:" + type(ex).__name__
    return out


def history_family(ctx: Ctx):
    import json
    from typing import Dict, List, Optional, Tuple

    from jsonargparse import ArgumentError, ArgumentParser

    mod, name, _ = family_module()
    L, Tok = mod.Layer, mod.Tokenizer
    positions = [
        ("Dict[str,Layer]", Dict[str, L], {}, [{"enc": {"units": 3}, "dec": {"units": 5, "act": "tanh"}}, {"a": {}}]),
        ("Tuple[Layer,int]", Tuple[L, int], None, [[{"units": 3}, 4]]),
        ("List[Optional[Layer]]", List[Optional[L]], None, [[{"units": 2}, None], [None, {"act": "x"}]]),
        ("List[Layer]", List[L], None, [[{"units": 1}, {}]]),
        ("Layer", L, None, [{"units": 7}]),
    ]
    failing = [
        ("class with an ill-typed default", ["--tok=" + name + ".DropTokenizer"]),
        ("unknown class", ["--tok=" + name + ".NoSuchClass"]),
        ("wrong value type", ["--tok=" + name + ".Tokenizer", "--tok.lower=notabool"]),
        ("wrong container", ["--layers=5"]),
        ("unknown option", ["--nope=1"]),
    ]
    n = 0
    for label, T, dflt, values in positions:
        for vi, value in enumerate(values):
            for channel in ("args", "string", "object"):
                p = ArgumentParser(exit_on_error=False, default_env=False)
                if dflt is None:
                    p.add_argument("--layers", type=T)
                else:
                    p.add_argument("--layers", type=T, default=dflt)
                p.add_argument("--tok", type=Tok, default=None)
                try:
                    if channel == "args":
                        args = ["--layers=" + json.dumps(value)]
                        cfg = p.parse_args(args)
                    elif channel == "string":
                        cfg = p.parse_string(json.dumps({"layers": value}))
                    else:
                        cfg = p.parse_object({"layers": copy.deepcopy(value)})
                except ArgumentError:
                    ctx.hist("history_family", "rejected")
                    continue
                before = history_observation(p, cfg)
                ctx.count(4)
                rep0 = {"kind": "history", "label": label, "value": vi, "channel": channel}
                for fname, fargs in failing:
                    try:
                        p.parse_args(fargs)
                        ctx.hist("history_family", "failing parse accepted")
                        continue
                    except ArgumentError:
                        pass
                    except Exception:  # noqa: BLE001
                        ctx.hist("history_family", "failing parse crashed")
                    after = history_observation(p, cfg)
                    n += 1
                    ctx.count(4)
                    ctx.nontrivial(jdump(["history", label, vi, channel, fname]))
                    rep = dict(rep0, failing=fname)
                    if jdump(after) != jdump(before):
                        diff = [k for k in before if jdump(before[k]) != jdump(after.get(k))]
                        ctx.violation("the fixed-point observations of an earlier parse result change after a rejected parse (%s)" % ", ".join(diff),
                                      dict(rep, what="history", before={k: before[k] for k in diff}, after={k: after[k] for k in diff}))
                        break
                # the observations themselves (clean history) have to be fixed points as well
                if before["validate"] != "ok":
                    ctx.violation("a parse result of the dataclass-in-container family does not pass validate()", dict(rep0, what="validate", got=before["validate"]))
                if jdump(before["reparse"]) != jdump(before["cfg"]):
                    ctx.violation("parse_object(cfg) differs from cfg (dataclass in a container)", dict(rep0, what="reparse", first=before["cfg"], second=before["reparse"]))
                if before["dump"] != before["dump_again"]:
                    ctx.violation("dump/parse/dump is not byte-identical (dataclass in a container)", dict(rep0, what="dump", d1=before["dump"], d2=before["dump_again"]))
    ctx.extra["history_family_cases"] = n


# ---------------------------------------------------------------- the check
def run(ctx: Ctx):
    repo_python_path()
    ctx.rule = ("every (type hint, channel, input) of the C02 generators (same grammar, depth <= 4, all input classes) that the real parser accepts with "
                "a non-null result: validate(cfg), parse_object(cfg) compared type-aware with cfg, dump->parse_string->dump in yaml and json, and the "
                "model's second pass / serialiser compared with the real ones; non-trivial = accepted non-null result whose first pass changed the "
                "input (a conversion happened) or that is a container; distinct by canonical JSON of (type, result)")
    ctx.assumptions = list(c02_assumptions()) + [
        "the model identifies an instance of a restricted string class with its text; the serialiser correspondence is therefore not compared "
        "when the result holds such an instance AND the type has a Union with two non-None members (the code hands the str subclass to PyYAML's "
        "C parser in a foreign member's branch, which raises TypeError); the real dump round trip is judged in every case",
        "parse-time links: a fixed parser (three int sources, two int targets, a subclass-typed argument with two int init_args) and a pool of 14 "
        "links; the definitions that link_arguments refuses are skipped - the fixed-point property is required of every set of links it accepts",
        "equality of configurations is judged on the typed canonical form (1, 1.0 and True are different values), stricter than Python ==",
        "values at positions typed Any (or Union[..., Any]) are plain data (no Enum members, sets, tuples) for the dump round trip",
        "when a result holds a set with two or more elements, second-pass/serialiser outputs that depend on list(set) order are not compared",
        "subclass-typed values (a Base/SubA/SubB family in a temporary module) at Base, Optional, List, List[Optional], Dict, Dict[.., Optional], "
        "Tuple[Base, int], Optional[Tuple[Base, Base]], List[List[Base]] positions, with and without a parser default of the same shape, first parse by "
        "parse_string / parse_path / parse_args / parse_object, are checked on the real parser only (no model correspondence); no dict_kwargs",
        "dict-valued arguments added with enable_path=True and given as the path of a yaml/json file (parse_args / parse_string / parse_path), "
        "compared with metadata (__path__ inside the dict value) kept; and a history stage (a rejected parse of five kinds between obtaining a result of the "
        "dataclass-in-container family and checking it) are judged on the real parser only",
        "registered types (timedelta, range, bytes, bytearray, UUID, complex, pathlib.Path, Decimal with float-exact values) and the restricted "
        "number/string types are checked at leaf / Optional / List positions on the real parser only (no model correspondence); not inside other Unions",
    ]
    ctx.lean_build(extractors=["adapt_tables"])
    run_ = c02.Run(ctx)

    from ..lib import corpus as corpus_mod

    corpus = []
    for c in corpus_mod.load(ctx.prop):
        for case in c.get("cases", [c]):
            corpus.append((case["desc"], case["channel"], case["input"], "corpus"))
    n_types = ctx.budget(260, 2600) * (2 if ctx.search_boost > 1 else 1)
    gen, _ = c02.generated_cases(ctx, n_types, 3 if not ctx.thorough else 4, 0)
    cases = corpus + gen + union_scalar_probes(ctx.thorough)
    if ctx.thorough:
        cases += c02.exhaustive_small(ctx)

    items, metas = [], []
    n_acc = 0
    for desc, ch, inp, origin in cases:
        try:
            inp = c02.norm_input(ch, inp)
            obs, cfg, p = c02.real_parse(desc, ch, inp, keep=True, skip_validation=True)
        except Unencodable:
            continue
        ctx.count()
        if not accepted(obs) or obs["ok"] is None or (isinstance(obs["ok"], dict) and "unencodable" in obs["ok"]):
            ctx.hist("first_pass", "rejected-or-null")
            continue
        n_acc += 1
        sp = second_pass(p, cfg)
        ctx.count(4)
        first = sp["first"]
        ctx.hist("first_pass", "accepted")
        ctx.hist("channel", ch)
        ctx.hist("origin", origin)
        ctx.hist("type_root", desc if isinstance(desc, str) else next(iter(desc)))
        if isinstance(first, (list, dict)) or jdump(first) != jdump(canon(inp) if ch == "obj" else inp):
            ctx.nontrivial(jdump([desc, first]))
        try:
            items.append({"t": desc, "v": sp["first_iter"], "o": c02.tables_for(desc, first, sp["first_iter"]), "want": ["parseObj", "ser"]})
            metas.append((desc, ch, inp, origin, sp))
        except Unencodable:
            judge(ctx, (desc, ch, inp, origin, sp), None, None)
    res = c02.run_driver(ctx, items)
    bad = []
    second = [None] * len(items)
    sers = [None] * len(items)
    if res is not None:
        for i, (r, (desc, ch, inp, origin, sp)) in enumerate(zip(res, metas)):
            if "miss" in r or "bad-input" in r:
                raise MachineryError("driver could not evaluate %s: %s" % (jdump([desc, sp["first"]])[:300], jdump(r)[:200]))
            m2 = c02.model_obs(r, "obj")
            second[i] = m2
            multi = c02.has_multi_set(sp["first"])
            ms = {"ok": canon(r["ser"]["ok"])} if "ok" in r["ser"] else {"err": "reject"}
            sers[i] = r["ser"]
            for what, mine, real in (("second pass", m2, sp["reparse"]), ("serialise", ms, sp["ser"])):
                if jdump(mine) == jdump(real):
                    continue
                if multi:
                    # list(set) enumerates in an order that a copy of the set need not reproduce: not a disagreement
                    ctx.hist("set_order_dependent", what)
                    continue
                if what == "serialise" and sp.get("first_rstr_instance") and multi_member_union(desc):
                    # OUTSIDE THE DOMAIN OF THE MODEL: the result holds an INSTANCE of a restricted string class (a `str`
                    # subclass), which the model's `Val` identifies with its plain text.  When the serialiser of a Union offers
                    # it to a FOREIGN member whose branch loads strings (int / float / bool / None leaves, Literal), the code
                    # calls PyYAML's C parser on it, which refuses str SUBCLASSES with TypeError ("a string or stream input
                    # is required"), so that member fails where the model (plain text) lets it load the text.  The real
                    # outcome is still judged by the dump/parse/dump oracle above; only model-vs-code is not compared here.
                    ctx.hist("outside_model", "serialise: restricted-str instance offered to a foreign Union member")
                    continue
                bad.append({"what": what, "desc": desc, "value": sp["first"], "real": real, "model": mine, "from": [ch, inp]})
    # the model's prediction of dump -> parse for the cases whose dump cycle deviates
    rt_items, rt_idx = [], []
    roundtrip = [None] * len(items)
    for i, (desc, ch, inp, origin, sp) in enumerate(metas):
        if (sp["dump_yaml"] != "same" or sp["dump_json"] != "same") and sers[i] is not None:
            if "ok" not in sers[i]:
                roundtrip[i] = "unrepresentable"
                continue
            try:
                pl = plain_of(sers[i]["ok"])
                rt_items.append({"t": desc, "v": pl, "o": c02.tables_for(desc, pl), "want": ["parseObj"]})
                rt_idx.append(i)
            except (ValueError, Unencodable):
                roundtrip[i] = "unrepresentable"
    rt_res = c02.run_driver(ctx, rt_items) if rt_items else []
    for i, r in zip(rt_idx, rt_res or []):
        roundtrip[i] = c02.model_obs(r, "obj") if "parseObj" in r else None
    for i, rec in enumerate(metas):
        sp = rec[4]
        devs = [k for k in ("validate",) if sp[k] != "ok"] + (["reparse"] if jdump(sp["reparse"]) != jdump({"ok": sp["first"]}) else []) + \
               [k for k in ("dump_yaml", "dump_json") if sp[k] != "same"]
        ctx.hist("deviations", ",".join(devs) or "none")
        judge(ctx, rec, second[i], roundtrip[i])
    bad.sort(key=lambda b: len(jdump(b)))
    for b in bad[:3]:
        ctx.tie_break("correspondence E3 (second pass / serialiser of the adapter model vs jsonargparse) disagrees", jdump(b)[:1800])
    ctx.extra["correspondence_disagreements"] = len(bad)
    ctx.extra["accepted_cases"] = n_acc
    import os
    if os.environ.get("C10_DEBUG"):
        with open(os.environ["C10_DEBUG"], "w") as f:
            for b in bad:
                f.write(jdump(b) + "\n")
    for c in gen[:4]:
        ctx.sample({"type": c[0], "channel": c[1], "input": c[2]})

    default_family(ctx)
    registered_family(ctx)
    registered_correspondence(ctx)
    subclass_family(ctx)
    link_family(ctx)
    path_family(ctx)
    history_family(ctx)

    # ---- findings -------------------------------------------------------------
    for f in ctx.open_findings():
        if replay_case(ctx, f["witness"], quiet=True):
            ctx.known(f["id"], f["description"])
        else:
            ctx.stale_findings.append(f["id"])


def c02_assumptions():
    return [
        "one optional argument without nargs/default/enable_path; parser_mode yaml; values inside the wire grammar (str/int dict keys, |int| < 10^400; an int beyond the float range is rejected for float)",
        "PyYAML + yaml_load/load_value, int(str) for dict keys and repr(float(int)) for |int| > 2^53 are oracles of the model (supplied per case)",
        "dict keys contain no '.', values contain no 'class_path' key and no '__path__' key",
    ]


def replay_case(ctx: Ctx, rp, quiet=False):
    say = (lambda *a: None) if quiet else print
    kind = rp["kind"]
    if kind in ("path-value", "history"):
        sub = Ctx(ctx.prop, ctx.tier, ctx.seed)
        (path_family if kind == "path-value" else history_family)(sub)
        for v in sub.violations:
            say("  ", v["what"])
        return bool(sub.violations)
    if kind == "with-default":
        return replay_default_family(rp)
    if kind == "subclass":
        sp = subclass_case(rp["position"], rp["value"], rp["with_default"], rp["channel"])
        say(jdump(sp)[:2000])
        return sp is not None and any(w == rp["what"] for w, _ in fixed_point_deviations(sp))
    if kind == "links":
        sp, acc = link_case(rp["order"], rp["input"], rp["channel"])
        say("links accepted by the definition:", acc)
        say(jdump(sp)[:2000])
        return sp is not None and any(w == rp["what"] for w, _ in fixed_point_deviations(sp))
    if kind == "registered":
        sp = registered_case(rp["type"], rp["position"], rp["how"], rp["index"])
        say(jdump(sp)[:1500])
        return sp is not None and any(w == rp["what"] for w, _ in fixed_point_deviations(sp))
    if kind == "default":
        try:
            a, b = default_case(rp["desc"], rp["default"])
        except Exception as ex:  # noqa: BLE001 - re-parsing the defaults fails altogether
            say("raises", type(ex).__name__)
            return True
        say("parse_args([]):", jdump(a), " parse_object(that):", jdump(b))
        return jdump(a) != jdump(b)
    obs, cfg, p = c02.real_parse(rp["desc"], rp["channel"], rp["input"], keep=True, skip_validation=True)
    say("first pass:", jdump(obs))
    if not accepted(obs) or obs["ok"] is None:
        return False
    sp = second_pass(p, cfg)
    say(jdump(sp)[:1500])
    if kind == "validate":
        return sp["validate"] != "ok"
    if kind == "reparse":
        return jdump(sp["reparse"]) != jdump({"ok": sp["first"]})
    if kind == "dump":
        fmts = [rp["format"]] if "format" in rp else ["yaml", "json"]
        return any(sp["dump_" + f] != "same" for f in fmts)
    if kind == "corr":
        r = ctx.driver("Adapt", [{"t": rp["desc"], "v": sp["first"], "o": c02.tables_for(rp["desc"], sp["first"]), "want": ["parseObj", "ser"]}])[0]
        say("model:", jdump(r))
        return jdump(c02.model_obs(r, "obj")) != jdump(sp["reparse"])
    raise MachineryError("unknown replay kind " + kind)


def replay(ctx: Ctx, body):
    repo_python_path()
    rp = body["replay"]
    if "broken" in rp:
        print("broken tie (no concrete input):", jdump(rp)[:2000])
        ctx.lean_build(extractors=["adapt_tables"])
        return 1 if ctx.tie_broken else 0
    r = replay_case(ctx, rp)
    print("still failing" if r else "no longer failing")
    return 1 if r else 0

"""C18 — save never destroys data: all-or-nothing on failure, no silent overwrite.

Pipeline: (1) regenerate Gen/SaveOrder (order of the effect steps of ArgumentParser.save read off the AST,
keyword defaults, check_overwrite test, Path 'c' checks) + build Props/C18 (theorems over ALL file systems
and fault vectors; `tie_*` theorems compare the regenerated order with the order the model implements);
(2) correspondence: the real `parser.save` in a temp directory with pre-existing target / sub-files, with a
failure injected at each step (invalid key, unserialisable value, k-th open failing, k-th write failing)
vs the Lean model (Drv/Save) fed with the texts a reference computes through the public API
(validate/dump/dump_using_format): outcome class + final directory content must agree;
(3) property oracle on the real code, independent of the model: (a) without overwrite no existing file
changes, (b) a failing save leaves the directory snapshot unchanged (open finding: multi-file mode, failure
after the first sub-file write), (c) on success parse_path(saved) equals the configuration, (d) save leaves the
caller's configuration object and the working directory alone.
Session 2: targets are handed to the model as SPELLED (symbolic links as target and as sub-file names go into
env.links, the model resolves them: `saveR`); the path argument is also given relative / through `..` / as
pathlib.Path / as a jsonargparse Path object; skip_validation, deprecated skip_check and skip_none are passed;
sub-files are also loaded from sub-directories; the model's `writtenCount` (theorem C18_failure_exact) must equal
the number of sub-files the oracle lets a failing run leave behind; the fsspec branch runs against an in-process
memory:// file system and the model `saveFsspec` (since fixes 22a2e9a / 8a0a805: recognition without probe,
NotImplementedError first, overwrite check, dump before open; the former findings are fixed, demos fixes/f60, f61).
"""
from __future__ import annotations

import builtins
import copy
import enum
import hashlib
import json
import os
import pathlib
import shutil
import tempfile
import warnings
from typing import Any, Optional

from ..lib.common import Ctx, MachineryError, repo_python_path

MANIFEST = {
    "engine": "E7-Save",
    "technique": "Lean 4 proof over an effect-order model of ArgumentParser.save with universally quantified fault vectors + "
                 "file-system model with an explicit resolve function for path aliasing + model of the fsspec branch + effect order, guards, "
                 "file expressions and the normalised text of every statement of save() regenerated from the AST + differential correspondence "
                 "with fault injection in a temp directory and on an in-process memory:// file system",
    "text": "Theorems in lean/Jap/Props/C18.lean prove for all file systems, targets, sub-file lists of any length and all fault vectors "
            "(validation, each serialisation, each open, each write) that without overwrite no existing file changes, that every changed path "
            "is a declared target, that a failing single-file save (and a multi-file save failing no later than its first write) leaves the "
            "file system unchanged, and that a successful save leaves exactly the dump text in the target and the serialised text in every "
            "sub-file. The full multi-file all-or-nothing statement is refuted on a witness (open finding) and the failure is characterised "
            "EXACTLY: a failing save leaves precisely the result of the first writtenCount sub-file steps (C18_failure_exact), writtenCount=0 "
            "iff the hypothesis of the partial theorem holds (C18_failure_clean_iff), and outside it the first sub-file really was written "
            "(C18_partial_is_sharp). Path aliasing is decided over a file-system model with an explicit resolve function (saveR): no-overwrite, "
            "frame and all-or-nothing hold through symbolic links / relative spellings / two names for one file; colliding names, a sub-file "
            "named like the target, dangling links and uncreatable resolved locations are decided by theorems. The fsspec branch is modelled "
            "(saveFsspec; since fixes 22a2e9a/8a0a805 recognition without write-probe, NotImplementedError first, overwrite check, dump before open): "
            "no-overwrite and all-or-nothing hold there at full strength and are stated as ONE theorem over both branches (saveAny: "
            "C18_no_overwrite_any, C18_all_or_nothing_single_any), with frame, success-writes and equality with the local single-file branch; the "
            "branch as it was (saveFsspecOld) is kept as a regression record with its refutations. The model is tied to the code by regenerating from the AST the order of effect steps of both local modes, of "
            "save_paths and of the fsspec block with its guards, the probe of Path, the file expression of every check_overwrite/open pair, "
            "the signature and the normalised text of EVERY statement of save (compared with the text the model was transcribed from), and by "
            "running the real save (local directory and memory:// file system) with injected failures against the model.",
    "level_note": "Trusted: Lean kernel; axioms propext/Quot.sound/Classical.choice only; the AST extractor; the correspondence harness and its "
                  "reference (validate/dump/dump_using_format decide the fault vector handed to the model; skip_validation/skip_check/skip_none/"
                  "format are handed through to it, so the flags are exercised but their effect on the TEXT is an input of the model). "
                  "OS-level partial writes after a successful open, close() failing, remote fsspec back-ends other than memory:// (the model "
                  "assumes what memory:// does: isfile is exact, opening for writing creates/truncates), http(s) URL targets, branch= (subcommands), FIFO targets, "
                  "chains of symbolic links (the harness hands the model fully resolved destinations) and other processes changing the directory "
                  "or permissions during the save are outside the model.",
}

FINDING_PARTIAL = "C18-multifile-partial"
FINDING_COLLISION = "C18-basename-collision"
NOBODY = 65534
VALID_FORMATS = ("parser_mode", "yaml", "json", "json_indented")


class Col(enum.Enum):
    red = 1
    green = 2
    blue = 3


class Unser:
    """a value no dumper can represent (valid for an `Any` typed argument)"""

    def __repr__(self):
        return "<Unser>"


class InjectedOpenError(OSError):
    pass


class InjectedWriteError(OSError):
    pass


# ---------------------------------------------------------------- scenario -> parser, files, config
SUB_LEAVES = (("x", "int"), ("t", "str"), ("any", "any"), ("e", "enum"))
INNER_LEAVES = (("z", "int"), ("any", "any"))
TOP_LEAVES = (("top", "int"), ("name", "str"), ("any", "any"), ("col", "enum"))


def build_parser(sc):
    from jsonargparse import ActionParser, ArgumentParser

    p = ArgumentParser(exit_on_error=False)
    p.add_argument("--top", type=int, default=0)
    p.add_argument("--name", type=str, default="n")
    p.add_argument("--any", type=Any, default=None)
    p.add_argument("--col", type=Optional[Col], default=None)
    for s in sc["subs"]:
        sp = ArgumentParser(exit_on_error=False)
        sp.add_argument("--x", type=int, default=1)
        sp.add_argument("--t", type=str, default="t")
        sp.add_argument("--any", type=Any, default=None)
        sp.add_argument("--e", type=Optional[Col], default=None)
        if s.get("inner") is not None:
            ip = ArgumentParser(exit_on_error=False)
            ip.add_argument("--z", type=int, default=2)
            ip.add_argument("--any", type=Any, default=None)
            sp.add_argument("--inner", action=ActionParser(parser=ip))
        p.add_argument("--" + s["name"], action=ActionParser(parser=sp))
    if sc.get("dict") is not None:
        p.add_argument("--d", type=Optional[dict], enable_path=True, default=None)
    if sc.get("schema") is not None:
        from jsonargparse import ActionJsonSchema

        p.add_argument("--schema", action=ActionJsonSchema(schema={"type": "object", "properties": {"a": {"type": "integer"}}}))
    if sc.get("jsonnet") is not None:
        from jsonargparse import ActionJsonnet

        p.add_argument("--jn", action=ActionJsonnet())
    if sc.get("pathcontent") is not None:
        from jsonargparse.typing import Path_fr

        p.add_argument("--pth", type=Optional[Path_fr], default=None)
        p.save_path_content.add("pth")
    return p


def leaf_keys(sc):
    """[(dotted key, kind)] of the leaves a fault can be injected at"""
    out = list(TOP_LEAVES)
    for s in sc["subs"]:
        out += [(s["name"] + "." + k, t) for k, t in SUB_LEAVES]
        if s.get("inner") is not None:
            out += [(s["name"] + ".inner." + k, t) for k, t in INNER_LEAVES]
    if sc.get("dict") is not None:
        out.append(("d.k", "dictval"))
    return out


def plain(v):
    """scenario value -> what is written into the input yaml"""
    if isinstance(v, dict) and "enum" in v:
        return v["enum"]
    return v


def write_inputs(sc, in_dir, out_dir):
    """write the main input config and the sub-files it refers to; returns the path of the main input"""
    import yaml

    vals = sc.get("values", {})

    def put(rel, data, raw=False, base=in_dir):
        path = os.path.join(base, rel)
        os.makedirs(os.path.dirname(path), exist_ok=True)
        with open(path, "wb") as f:
            if raw:
                f.write(data.encode("utf-8"))
            elif rel.endswith(".json"):
                f.write(json.dumps(data).encode())
            else:
                f.write(yaml.safe_dump(data, sort_keys=False, allow_unicode=True).encode("utf-8"))

    main = {}
    for k, _ in TOP_LEAVES:
        if k in vals:
            main[k] = plain(vals[k])
    for s in sc["subs"]:
        body = {k: plain(vals[s["name"] + "." + k]) for k, _ in SUB_LEAVES if s["name"] + "." + k in vals}
        if s.get("inner") is not None:
            ib = {k: plain(vals[s["name"] + ".inner." + k]) for k, _ in INNER_LEAVES if s["name"] + ".inner." + k in vals}
            if s["inner"].get("file"):
                # relative to the file that refers to it
                base = os.path.dirname(s["file"]) if s.get("file") else ""
                put(os.path.join(base, s["inner"]["file"]), ib)
                body["inner"] = s["inner"]["file"]
            else:
                body["inner"] = ib
        if s.get("file"):
            put(s["file"], body)
            main[s["name"]] = s["file"]
        else:
            main[s["name"]] = body
    if sc.get("dict") is not None:
        put(sc["dict"]["file"], {"k": plain(vals.get("d.k", 1))})
        main["d"] = sc["dict"]["file"]
    if sc.get("schema") is not None:
        put(sc["schema"]["file"], {"a": 1})
        main["schema"] = sc["schema"]["file"]
    if sc.get("jsonnet") is not None:
        put(sc["jsonnet"]["file"], sc["jsonnet"]["text"], raw=True)
        main["jn"] = sc["jsonnet"]["file"]
    if sc.get("pathcontent") is not None:
        pc = sc["pathcontent"]
        if pc.get("dir") == "out" and out_dir != in_dir:
            put(pc["file"], pc["content"], raw=True, base=out_dir)
            main["pth"] = os.path.join(out_dir, pc["file"])
        else:
            put(pc["file"], pc["content"], raw=True)
            main["pth"] = pc["file"]
    put(sc.get("main_in", "main_in.yaml"), main)
    return os.path.join(in_dir, sc.get("main_in", "main_in.yaml"))


def input_names(sc):
    """names (relative to the input directory) of the files write_inputs creates"""
    out = {sc.get("main_in", "main_in.yaml")}
    for s in sc["subs"]:
        if s.get("file"):
            out.add(s["file"])
        if s.get("inner") and s["inner"].get("file"):
            out.add(os.path.join(os.path.dirname(s["file"]) if s.get("file") else "", s["inner"]["file"]))
    for k in ("dict", "schema", "jsonnet", "pathcontent"):
        if sc.get(k):
            out.add(sc[k]["file"])
    return out


def apply_fault(cfg, fault):
    k = fault.get("kind")
    if k == "invalid":
        cfg[fault["key"]] = [1, "x"] if fault.get("as") == "list" else "not-valid"
    elif k == "unser":
        key = fault["key"]
        if key == "d.k":
            cfg["d"]["k"] = Unser()
        else:
            cfg[key] = Unser()
    elif k == "enum":
        cfg[fault["key"]] = Col.blue


# ---------------------------------------------------------------- observation helpers
def snapshot(root):
    """{relative name: (size, sha256, bytes)} of the regular files below root, set of directories"""
    files, dirs = {}, set()
    for dp, dn, fn in os.walk(root):
        for d in dn:
            dirs.add(os.path.relpath(os.path.join(dp, d), root))
        for f in fn + [d for d in dn if os.path.islink(os.path.join(dp, d))]:
            p = os.path.join(dp, f)
            if os.path.islink(p):
                # symbolic links are recorded, never followed; they are no regular files of the model
                files[os.path.relpath(p, root)] = (-1, "link:" + os.readlink(p), None)
                continue
            with open(p, "rb") as h:
                b = h.read()
            files[os.path.relpath(p, root)] = (len(b), hashlib.sha256(b).hexdigest(), b)
    return files, dirs


def snap_sig(snap):
    files, dirs = snap
    return {"files": {k: [v[0], v[1]] for k, v in sorted(files.items())}, "dirs": sorted(dirs)}


def snap_diff(before, after):
    """names whose state differs (created, removed, content changed) + directory changes"""
    fb, db = before
    fa, da = after
    out = sorted(n for n in set(fb) | set(fa) if fb.get(n, (None, None))[:2] != fa.get(n, (None, None))[:2])
    out += sorted("dir:" + d for d in db ^ da)
    return out


def sub_snapshot(snap, prefix):
    """the part of a snapshot below directory `prefix`, names made relative to it"""
    files, dirs = snap
    pre = prefix + os.sep
    return ({n[len(pre):]: v for n, v in files.items() if n.startswith(pre)}, {d[len(pre):] for d in dirs if d.startswith(pre)})


def fs_view(snap, out_prefix, extra):
    """model view of a snapshot of the case directory: top-level regular files of the output directory under
    their basename + the files in `extra` ({relative name in the case dir: model name})"""
    files, _ = snap
    out = []
    pre = out_prefix + os.sep
    for n, v in files.items():
        if v[2] is None:
            continue
        if n.startswith(pre) and os.sep not in n[len(pre):]:
            out.append([n[len(pre):], v[2].decode("utf-8")])
        elif n in extra:
            out.append([extra[n], v[2].decode("utf-8")])
    return sorted(out)


def classify_exc(ex):
    from jsonargparse._util import PathError

    if isinstance(ex, InjectedOpenError):
        return "os"
    if isinstance(ex, InjectedWriteError):
        return "io"
    if isinstance(ex, PathError):
        return "path"
    if isinstance(ex, NotImplementedError):
        return "notImplemented"
    mod = type(ex).__module__ or ""
    if mod.startswith("yaml") and type(ex).__name__ == "RepresenterError":
        return "unserialisable"
    if isinstance(ex, ValueError) and "Refusing to overwrite" in str(ex):
        return "refuse"
    if isinstance(ex, ValueError) and "Unknown output format" in str(ex):
        return "format"
    if isinstance(ex, TypeError) and "not JSON serializable" in str(ex):
        return "unserialisable"
    if isinstance(ex, TypeError):
        return "invalid"
    if isinstance(ex, OSError):
        return "os"
    return "other:" + type(ex).__name__


def canon_cfg(v):
    from jsonargparse import Namespace
    from jsonargparse._util import Path

    if isinstance(v, Namespace):
        return {"ns": {k: canon_cfg(x) for k, x in sorted(vars(v).items()) if not k.startswith("__")}}
    if isinstance(v, dict):
        return {"dict": {str(k): canon_cfg(x) for k, x in sorted(v.items(), key=lambda kv: str(kv[0])) if not str(k).startswith("__")}}
    if isinstance(v, (list, tuple)):
        return [canon_cfg(x) for x in v]
    if isinstance(v, enum.Enum):
        return {"enum": v.name}
    if isinstance(v, Path):
        # a path whose content save() copies: the value is the name + what the file holds
        try:
            with open(v.absolute, "rb") as f:
                content = f.read().decode("utf-8", "replace")
        except OSError:
            content = None
        return {"path": os.path.basename(str(v)), "content": content}
    if v is None or isinstance(v, (bool, int, str)):
        return v
    return {"repr": repr(v)}


def canon_meta(v):
    """the caller's configuration object INCLUDING its meta entries (__path__, __orig__): save() must leave it alone"""
    from jsonargparse import Namespace
    from jsonargparse._util import Path

    if isinstance(v, Namespace):
        return {"ns": {k: canon_meta(x) for k, x in sorted(vars(v).items())}}
    if isinstance(v, dict):
        return {"dict": {str(k): canon_meta(x) for k, x in sorted(v.items(), key=lambda kv: str(kv[0]))}}
    if isinstance(v, (list, tuple)):
        return [canon_meta(x) for x in v]
    if isinstance(v, enum.Enum):
        return {"enum": v.name}
    if isinstance(v, Path):
        return {"path": str(v), "abs": v.absolute, "mode": v.mode}
    if v is None or isinstance(v, (bool, int, str)):
        return v
    return {"repr": repr(v)}


def my_sorted_keys(cfg):
    """order in which save_paths visits the keys: leaves in insertion order, then the branches they imply,
    stable-sorted by descending depth (reimplemented here, Namespace.keys() is C11's subject)"""
    keys = [k for k in cfg.keys() if k.split(".")[-1] not in ("__path__", "__orig__", "__default_config__")]
    for key in [k for k in keys if "." in k]:
        parts = key.split(".")
        for n in range(len(parts) - 1):
            parent = ".".join(parts[: n + 1])
            if parent not in keys:
                keys.append(parent)
    keys.sort(key=lambda x: -len(x.split(".")))
    return keys


class OpenPatch:
    """while active, the k-th open(<file below root>, 'w') fails (kind 'open') or yields a handle whose write fails
    after the file was really opened, i.e. created/truncated (kind 'write')"""

    def __init__(self, root, kind, k):
        self.root, self.kind, self.k, self.n = os.path.realpath(root) + os.sep, kind, k, 0
        self.real = builtins.open
        self.writes = []

    def __enter__(self):
        real = self.real
        me = self

        def patched(file, mode="r", *a, **kw):
            try:
                path = os.path.realpath(os.fspath(file)) if isinstance(file, (str, os.PathLike)) else None
            except TypeError:
                path = None
            if path is None or not path.startswith(me.root) or "w" not in mode:
                return real(file, mode, *a, **kw)
            idx = me.n
            me.n += 1
            me.writes.append(os.path.relpath(path, me.root))
            if me.kind == "open" and idx == me.k:
                raise InjectedOpenError("injected: open fails")
            h = real(file, mode, *a, **kw)
            if me.kind == "write" and idx == me.k:
                class Failing:
                    def __enter__(s):
                        return s

                    def __exit__(s, *e):
                        h.close()
                        return False

                    def write(s, data):
                        raise InjectedWriteError("injected: write fails")

                    def close(s):
                        h.close()

                return Failing()
            return h

        builtins.open = patched
        return self

    def __exit__(self, *e):
        builtins.open = self.real
        return False


# ---------------------------------------------------------------- one case on the real code + reference plan
def save_kwargs(sc):
    kw = {}
    if sc.get("overwrite") is not None:
        kw["overwrite"] = sc["overwrite"]
    if sc.get("multifile") is not None:
        kw["multifile"] = sc["multifile"]
    if sc.get("format") is not None:
        kw["format"] = sc["format"]
    if sc.get("skip_validation") == "skip_check":
        kw["skip_check"] = True            # deprecated spelling of skip_validation=True
    elif sc.get("skip_validation") is not None:
        kw["skip_validation"] = sc["skip_validation"]
    if sc.get("skip_none") is not None:
        kw["skip_none"] = sc["skip_none"]
    return kw


def dump_flags(sc):
    """(skip_validation, skip_none) as save() hands them to dump()"""
    return bool(sc.get("skip_validation")), sc.get("skip_none") is not False


def setup_dirs(sc, case_dir):
    out_dir = os.path.join(case_dir, "out")
    os.makedirs(out_dir)
    in_dir = out_dir if sc.get("same_dir") else os.path.join(case_dir, "in")
    os.makedirs(in_dir, exist_ok=True)
    for name, content in sc.get("pre", {}).items():
        with open(os.path.join(out_dir, name), "wb") as f:
            f.write(content.encode("utf-8"))
    for name in sc.get("predirs", []):
        os.makedirs(os.path.join(out_dir, name), exist_ok=True)
    for name, dest in sc.get("links", {}).items():
        os.symlink(dest, os.path.join(out_dir, name))      # relative destination, possibly dangling
    main_in = write_inputs(sc, in_dir, out_dir)
    return in_dir, out_dir, main_in


def reference_plan(parser, cfg, sc, case_dir, out_dir):
    """what save() has to compute for this config, obtained through the public API only
    (validate, dump, dump_using_format) on a SEPARATE copy of the config; returns the model input and
    {file in the case dir: model name} for copied sources outside the output directory"""
    from jsonargparse import Namespace, strip_meta
    from jsonargparse._loaders_dumpers import dump_using_format
    from jsonargparse._util import Path

    fmt = sc.get("format") or "parser_mode"
    fmt_ok = fmt in VALID_FORMATS
    multi = sc.get("multifile") is not False
    # targets are handed to the model AS SPELLED; symbolic links go into env.links and the model resolves them
    # (open / isfile / realpath(path/..) all follow the link)
    skipv, skip_none = dump_flags(sc)
    inp = {"path": sc["target"], "overwrite": sc.get("overwrite"), "multifile": sc.get("multifile"), "format_ok": fmt_ok,
           "validate_ok": True, "subs": [], "wr": {"open": True, "write": True}}
    extra = {}
    if not fmt_ok:
        inp["dump"] = {"fail": "format"}
        return inp, extra

    def outcome(fn):
        try:
            return {"text": fn()}
        except Exception as ex:  # noqa: BLE001 - the class is the observation
            return {"fail": classify_exc(ex)}

    valid = True
    if not skipv:
        try:
            parser.validate(strip_meta(cfg.clone()))
        except TypeError:
            valid = False
    if not multi:
        if not valid:
            inp["dump"] = {"fail": "invalid"}
        else:
            inp["dump"] = outcome(lambda: parser.dump(cfg.clone(), format=fmt, skip_none=skip_none, skip_validation=skipv))
        return inp, extra
    inp["validate_ok"] = valid
    c = cfg.clone()
    real_out = os.path.realpath(out_dir)
    for key in my_sorted_keys(c):
        val = c[key]
        if isinstance(val, (Namespace, dict)) and "__path__" in val:
            name = os.path.basename(val["__path__"].absolute)
            if "__orig__" in val:
                text = {"text": val["__orig__"]}
            else:
                raw = strip_meta(val)
                if isinstance(raw, Namespace):
                    raw = raw.as_dict()
                sub_fmt = "json_indented" if name.lower().endswith(".json") else fmt
                text = outcome(lambda: dump_using_format(parser, raw, sub_fmt))
            inp["subs"].append({"path": name, "kind": "cfg", "key": key, "text": text, "wr": {"open": True, "write": True}})
            c[key] = name
        elif isinstance(val, Path) and key in parser.save_path_content and "r" in val.mode:
            name = os.path.basename(val.absolute)
            src_real = os.path.realpath(val.absolute)
            if os.path.dirname(src_real) == real_out:
                src = os.path.basename(src_real)
            else:
                src = "<src>/" + os.path.basename(src_real)
                extra[os.path.relpath(src_real, os.path.realpath(case_dir))] = src
            inp["subs"].append({"path": name, "kind": "content", "key": key, "src": src, "read_ok": True, "wr": {"open": True, "write": True}})
            c[key] = name
    inp["dump"] = outcome(lambda: parser.dump(c, format=fmt, skip_none=skip_none, skip_validation=True))
    return inp, extra


def resolved(mi, p):
    """the file a target spelling stands for (the harness-side twin of Jap.Save.Env.resolve)"""
    for k, v in mi.get("env", {}).get("links", []):
        if k == p:
            return v
    return p


def add_env(inp, before_out, ro=False, links=None):
    _, dirs = before_out
    top_dirs = sorted(d for d in dirs if os.sep not in d)
    inp["env"] = {"links": sorted([k, v] for k, v in (links or {}).items())}
    names = [resolved(inp, p) for p in [inp["path"]] + [s["path"] for s in inp["subs"]]]
    noparent = []
    for p in names:
        if os.sep in p and os.path.dirname(p) not in dirs:
            noparent.append(p)
    # the facts are about RESOLVED names
    inp["env"].update({"noparent": noparent, "ro": names if ro else [], "nonfile": top_dirs})


def add_write_fault(inp, fault):
    """the k-th open for writing fails / the k-th write fails: sub-files in order, then the target"""
    if fault.get("kind") not in ("open", "write"):
        return
    k = fault["k"]
    multi = inp.get("multifile") is not False
    slots = [s["wr"] for s in inp["subs"]] if multi else []
    slots.append(inp["wr"])
    if k < len(slots):
        slots[k]["open" if fault["kind"] == "open" else "write"] = False


class Scen:
    """one scenario on disk: directories, parsers and the loaded configuration are set up once and shared by all the
    faults injected into it (every run gets deep copies of the configuration and a freshly rebuilt directory)"""

    def __init__(self, sc, root):
        self.sc = sc
        self.case_dir = tempfile.mkdtemp(dir=root)
        self.fresh = False
        self.reset()
        self.parser = build_parser(sc)
        self.cfg = self.parser.parse_path(self.main_in)
        self.parser2 = build_parser(sc)
        self.cfg2 = self.parser2.parse_path(self.main_in)
        self.parser3 = build_parser(sc)

    def reset(self):
        if self.fresh:
            return
        for n in os.listdir(self.case_dir):
            shutil.rmtree(os.path.join(self.case_dir, n), ignore_errors=True)
        self.in_dir, self.out_dir, self.main_in = setup_dirs(self.sc, self.case_dir)
        self.fresh = True

    def close(self):
        shutil.rmtree(self.case_dir, ignore_errors=True)


def prepare(scn, fault, ro=False):
    """rebuild the directories, copy the configuration (one copy for save, one for the reference), build the model input"""
    from jsonargparse import strip_meta

    sc = scn.sc
    scn.reset()
    scn.fresh = False
    cfg = copy.deepcopy(scn.cfg)
    apply_fault(cfg, fault)
    cfg2 = copy.deepcopy(scn.cfg2)
    apply_fault(cfg2, fault)
    before = snapshot(scn.case_dir)
    out_prefix = os.path.relpath(scn.out_dir, scn.case_dir)
    model_in, extra = reference_plan(scn.parser2, cfg2, sc, scn.case_dir, scn.out_dir)
    model_in["fs"] = fs_view(before, out_prefix, extra)
    add_env(model_in, sub_snapshot(before, out_prefix), ro, sc.get("links"))
    add_write_fault(model_in, fault)
    return {"sc": sc, "fault": fault, "case_dir": scn.case_dir, "out_dir": scn.out_dir, "parser": scn.parser, "parser3": scn.parser3, "cfg": cfg,
            "before": before, "model_in": model_in, "extra": extra, "out_prefix": out_prefix,
            "expected_cfg": canon_cfg(strip_meta(copy.deepcopy(cfg)))}


def execute(st):
    sc, fault = st["sc"], st["fault"]
    target = os.path.join(st["out_dir"], sc["target"])
    spelling = sc.get("spelling")
    cwd0 = os.getcwd()
    run_cwd = cwd0
    if sc.get("uri"):
        target = "file://" + target       # file:// spelling of a LOCAL path: must behave exactly like the plain path
    elif spelling == "rel":
        run_cwd = st["case_dir"]          # relative to a working directory that is NOT the target's directory
        target = os.path.relpath(target, run_cwd)
    elif spelling == "dotrel":
        run_cwd = st["out_dir"]
        target = "./" + sc["target"]
    elif spelling == "updown":
        target = os.path.join(st["out_dir"], "..", os.path.basename(st["out_dir"]), sc["target"])   # out/../out/main.yaml
    elif spelling == "pathlib":
        target = pathlib.Path(target)
    exc = None
    cwd_after = None
    patch_kind = fault["kind"] if fault.get("kind") in ("open", "write") else "none"
    cfg_before = canon_meta(st["cfg"])
    with OpenPatch(st["out_dir"], patch_kind, fault.get("k", -1)) as op:
        try:
            os.chdir(run_cwd)
            if spelling == "japath":
                from jsonargparse._util import Path as JPath, PathError

                try:
                    target = JPath(target, mode="fc")      # a path object the caller has already checked
                except PathError:
                    pass                                    # the caller cannot build the object: the plain string is passed
            with warnings.catch_warnings():
                warnings.simplefilter("ignore")
                st["parser"].save(st["cfg"], target, **save_kwargs(sc))
            outcome = "ok"
        except Exception as ex:  # noqa: BLE001 - the class is the observation
            outcome = classify_exc(ex)
            exc = "%s: %s" % (type(ex).__name__, str(ex)[:160])
        finally:
            cwd_after = os.getcwd()
            os.chdir(cwd0)
    after = snapshot(st["case_dir"])
    reparsed = None
    reparse_err = None
    if outcome == "ok":
        try:
            reparsed = canon_cfg(st["parser3"].parse_path(os.path.join(st["out_dir"], sc["target"]), with_meta=False))
        except Exception as ex:  # noqa: BLE001
            reparse_err = "%s: %s" % (type(ex).__name__, str(ex)[:200])
    try:
        real_fs = fs_view(after, st["out_prefix"], st["extra"])
    except UnicodeDecodeError:
        real_fs = "undecodable"
    return {"outcome": outcome, "exc": exc, "before": st["before"], "after": after,
            "before_out": sub_snapshot(st["before"], st["out_prefix"]), "after_out": sub_snapshot(after, st["out_prefix"]),
            "model_in": st["model_in"], "real_fs": real_fs, "expected_cfg": st["expected_cfg"], "reparsed": reparsed,
            "reparse_err": reparse_err, "writes": op.writes, "out_prefix": st["out_prefix"],
            "cwd_moved": os.path.realpath(cwd_after) != os.path.realpath(run_cwd),
            "cfg_mutated": canon_meta(st["cfg"]) != cfg_before}


_LAST = {"key": None, "scn": None}


def run_case(sc, fault, root):
    key = json.dumps(sc, sort_keys=True, default=repr) + root
    if _LAST["key"] != key:
        if _LAST["scn"] is not None:
            _LAST["scn"].close()
        _LAST["key"], _LAST["scn"] = key, Scen(sc, root)
    return execute(prepare(_LAST["scn"], fault))


def run_readonly_cases(cases, root):
    """the same, with the process running as an unprivileged user for whom the output directory is not writeable
    (the sandbox runs as root, for whom os.access(W_OK) is always true)"""
    os.chmod(root, 0o755)
    scens = [Scen(sc, root) for sc, _ in cases]
    states = [prepare(scn, f, ro=True) for scn, (_, f) in zip(scens, cases)]
    for scn in scens:
        os.chmod(scn.case_dir, 0o755)
    results = []
    os.setresuid(NOBODY, NOBODY, 0)
    try:
        for st in states:
            results.append(execute(st))
    finally:
        os.setresuid(0, 0, 0)
        for scn in scens:
            scn.close()
        os.chmod(root, 0o700)
    return results


# ---------------------------------------------------------------- the oracle (real code only)
def has_collision(model_in):
    names = [resolved(model_in, s["path"]) for s in model_in["subs"]] + [os.path.basename(resolved(model_in, model_in["path"]))]
    return len(set(names)) != len(names)


def judge(res, sc, fault):
    """evaluate C18 on one real run; returns list of (finding-id-or-None, description)"""
    out = []
    mi = res["model_in"]
    multi = mi.get("multifile") is not False
    pref = res["out_prefix"]
    diff = snap_diff(res["before"], res["after"])
    rel = lambda n: os.path.relpath(n, pref) if not n.startswith("dir:") else n  # noqa: E731
    diff_out = [rel(n) for n in diff]
    # (a) without overwrite no existing file changes
    if sc.get("overwrite") is not True:
        changed = [n for n in diff if n in res["before"][0]]
        if changed:
            out.append((None, "overwrite not requested but existing file(s) changed: %s" % [rel(n) for n in changed]))
    # files outside the output directory are never touched
    outside = [n for n in diff if not (n.startswith(pref + os.sep) or n.startswith("dir:" + pref + os.sep))]
    if outside:
        out.append((None, "save changed files outside the target directory: %s" % outside))
    if res.get("cwd_moved"):
        out.append((None, "save left the working directory changed"))
    if res.get("cfg_mutated"):
        # the object the caller keeps is what "the configuration" of the round trip refers to: a save that rewrites it
        # (e.g. replaces nested sub-configs by file names) makes the NEXT save of the same object lose those sub-files
        out.append((None, "save modified the caller's configuration object (outcome %s)" % res["outcome"]))
    # (b) failure -> nothing changed
    if res["outcome"] != "ok":
        if diff:
            subs = [resolved(mi, s["path"]) for s in mi["subs"]] if multi else []
            # the open finding allows exactly the sub-files written BEFORE the failing step to remain
            allowed = set()
            fail_at = failing_slot(mi)
            if multi and fail_at is not None and fail_at >= 1:
                allowed = set(subs[:fail_at])
            io_file = None
            if res["outcome"] == "io":
                # OS failing in the middle of a write, after open succeeded: outside the property, that one file is truncated
                slots = subs + [os.path.basename(resolved(mi, mi["path"]))]
                io_file = slots[fault["k"]] if fault.get("kind") == "write" and fault["k"] < len(slots) else None
            rest = [n for n in diff_out if n not in allowed and n != io_file]
            if rest:
                out.append((None, "save raised (%s) but the directory changed: %s" % (res["outcome"], diff_out)))
            elif [n for n in diff_out if n != io_file]:
                out.append((FINDING_PARTIAL, "multi-file save failed (%s) after %d sub-file(s) were written: %s stay written"
                            % (res["outcome"], fail_at, sorted(n for n in diff_out if n != io_file))))
    else:
        # (c) round trip (a Path whose content is saved counts with its content)
        if sc.get("skip_validation") and fault.get("kind") == "invalid":
            pass        # validation was switched off and the configuration IS invalid: nothing to re-parse
        elif res["reparse_err"] is not None or res["reparsed"] != res["expected_cfg"]:
            fid = None
            if multi and has_collision(mi):
                fid = FINDING_COLLISION
            out.append((fid, "saved path does not re-parse to the configuration (%s)" % (res["reparse_err"] or "values differ")))
    return out


def failing_slot(mi):
    """index of the sub-file step at which the reference expects the multi-file save to fail
    (len(subs) = at the final dump / target write); None = no failure expected inside/after save_paths"""
    if mi.get("multifile") is False or not mi["format_ok"] or not mi["validate_ok"]:
        return None
    existing = {n for n, _ in mi["fs"]}
    nonfile = set(mi["env"]["nonfile"])
    ow = mi.get("overwrite") is True
    main = resolved(mi, mi["path"])
    if main in nonfile or main in mi["env"]["noparent"] or main in mi["env"]["ro"] or (not ow and main in existing):
        return None
    for i, s in enumerate(mi["subs"]):
        sp = resolved(mi, s["path"])
        bad_text = "fail" in s.get("text", {}) or (s["kind"] == "content" and resolved(mi, s["src"]) not in existing)
        if sp in nonfile or sp in mi["env"]["noparent"] or (not ow and sp in existing) or bad_text or not s["wr"]["open"] or not s["wr"]["write"]:
            return i
        existing.add(sp)
    if "fail" in mi["dump"] or not mi["wr"]["open"] or not mi["wr"]["write"]:
        return len(mi["subs"])
    return None


# ---------------------------------------------------------------- generators
NAMES = ["main.yaml", "s1.yaml", "s2.yaml", "s3.json", "inner1.yaml", "d.yaml", "schema.json", "file.txt", "other.txt", "config.yaml", "notes.md"]
CONTENTS = ["", "precious\n", "a: 5\n", "x: 1\ny: [1, 2]\n", "été → ünï\n", "{\"k\": 1}", "line1\r\nline2\r\n", "\tTabbed\n\n", "0" * 300]
STRS = ["abc", "hello world", "été", "v1", ""]


ALPHABET = "abc xyz019:-{}[]#'\"\\\n\n\t\r\u00e9\u00fc\u2192\U0001f600\x01\x7f"


def gen_content(rng):
    """pre-existing file content: a fixed palette + arbitrary text"""
    if rng.random() < 0.6:
        return rng.choice(CONTENTS)
    return "".join(rng.choice(ALPHABET) for _ in range(rng.choice([1, 3, 10, 40, 200])))


def gen_value(rng, kind):
    if kind == "int":
        return rng.choice([0, 1, 5, -3, 42])
    if kind == "str":
        return rng.choice(STRS)
    if kind == "enum":
        return rng.choice([None, None, {"enum": "red"}, {"enum": "blue"}])
    if kind == "dictval":
        return rng.choice([1, 2, "abc"])
    return rng.choice([None, 3, "abc", [1, 2], {"k": 1}, True])


def gen_scenario(rng):
    n_subs = rng.choice([0, 1, 1, 2, 2, 3])
    files = ["s1.yaml", "s2.yaml", "s3.json"]
    subs = []
    for i in range(n_subs):
        s = {"name": "s%d" % (i + 1), "file": files[i] if rng.random() < 0.8 else None}
        if s["file"] and rng.random() < 0.3:
            # loaded from a sub-directory of the input directory; saved under its basename next to the target
            s["file"] = rng.choice(["sub/", "cfgs/", "a/b/"]) + s["file"]
        if rng.random() < 0.3:
            s["inner"] = {"file": "inner%d.yaml" % (i + 1) if rng.random() < 0.7 else None}
        subs.append(s)
    sc = {"subs": subs, "dict": {"file": "d.yaml"} if rng.random() < 0.3 else None,
          "schema": {"file": "schema.json"} if rng.random() < 0.15 else None,
          "jsonnet": {"file": "jn.jsonnet", "text": rng.choice(['{"c": 3, "d": 4}', "{c: 1 + 2,\n d: 'x'}\n"])} if rng.random() < 0.1 else None,
          "pathcontent": None}
    sc["same_dir"] = rng.random() < 0.25
    sc["multifile"] = rng.choice([None, True, True, False])
    if rng.random() < 0.18 and sc["multifile"] is not False:
        # - single-file mode writes the relative path as given, which a config saved elsewhere does not resolve (C19's subject)
        # - the copy goes through text mode (universal newlines): sources without carriage returns
        # - dir=out / inputs next to the target: the file is copied onto itself (repaired defect F15s)
        sc["pathcontent"] = {"file": "file.txt", "content": rng.choice([c for c in CONTENTS[1:] if "\r" not in c]),
                             "dir": rng.choice(["in", "in", "out"])}
    vals = {}
    for k, kind in leaf_keys(sc):
        if rng.random() < 0.6:
            v = gen_value(rng, kind)
            if v is not None or kind != "enum":
                vals[k] = v
    # an Enum member in a sub-file (raw dump fails) only now and then; keep most scenarios savable
    if rng.random() < 0.75:
        vals = {k: v for k, v in vals.items() if not (isinstance(v, dict) and "enum" in v and "." in k)}
    sc["values"] = vals
    sc["format"] = rng.choice([None, None, "yaml", "json", "json_indented", "parser_mode"])
    if rng.random() < 0.03:
        sc["format"] = "bogus"
    sc["overwrite"] = rng.choice([None, False, True, True])
    sc["uri"] = rng.random() < 0.25      # target spelled file:///abs/path
    r = rng.random()
    if r < 0.78:
        sc["target"] = "main.yaml"
    elif r < 0.90:
        sc["target"] = rng.choice(["config.yaml", "main_in.yaml" if sc["same_dir"] else "other.txt"])
    elif r < 0.95:
        sc["target"] = "nodir/main.yaml"
    else:
        sc["target"] = "adir"
    pre = {}
    for n in NAMES:
        if rng.random() < 0.4:
            pre[n] = gen_content(rng)
    sc["links"] = {}
    if sc["target"] == "main.yaml" and rng.random() < 0.15:
        # the target is a symbolic link: to a file next to it (existing or not yet: dangling) or into a directory that is gone
        dest = rng.choice(["actual.yaml", "actual.yaml", "gone/main.yaml"])
        sc["links"]["main.yaml"] = dest
        pre.pop("main.yaml", None)
        if dest == "actual.yaml" and rng.random() < 0.5:
            pre["actual.yaml"] = gen_content(rng)
    resolved = sc["links"].get(sc["target"], sc["target"])
    if sc["overwrite"] is not True and resolved in pre and rng.random() < 0.7:
        del pre[resolved]          # keep the immediate refusal of the target a minority
    sc["pre"] = pre
    sc["predirs"] = []
    if sc["target"] == "adir":
        sc["predirs"].append("adir")
    if rng.random() < 0.08 and not sc["same_dir"]:
        d = rng.choice(["s1.yaml", "s2.yaml", "d.yaml"])
        sc["predirs"].append(d)
        pre.pop(d, None)
    if sc["same_dir"]:
        # the inputs ARE pre-existing files of the output directory
        for n in input_names(sc):
            pre.pop(n, None)
    if sc["pathcontent"] and sc["pathcontent"]["dir"] == "out":
        pre.pop(sc["pathcontent"]["file"], None)
    # --- how the target is spelled: absolute string (default), relative to a working directory elsewhere / to its own
    #     directory, through `..`, a pathlib.Path, a jsonargparse Path(mode="fc") object
    sc["spelling"] = None
    if not sc["uri"] and rng.random() < 0.4:
        sc["spelling"] = rng.choice(["rel", "dotrel", "updown", "pathlib", "japath"])
    # --- flags save() hands through to dump() / that switch validation off (also by the deprecated keyword)
    sc["skip_validation"] = rng.choice([None, None, None, None, False, True, "skip_check"])
    sc["skip_none"] = rng.choice([None, None, None, False])
    # --- a sub-file NAME in the target directory that is a symbolic link: to a file of its own (existing or dangling),
    #     to the name of another sub-file, or to the target
    sub_names = [os.path.basename(s["file"]) for s in subs if s.get("file")] + (["d.yaml"] if sc["dict"] else [])
    if sub_names and sc["multifile"] is not False and not sc["same_dir"] and rng.random() < 0.15:
        name = rng.choice(sub_names)
        if name not in sc["predirs"] and name not in sc["links"]:
            cands = ["linked.yaml"] * 3 + [n for n in sub_names if n != name and n not in sc["predirs"]][:1]
            if "main.yaml" not in sc["links"]:
                cands.append("main.yaml")
            dest = rng.choice(cands)
            sc["links"][name] = dest
            pre.pop(name, None)
            if dest == "linked.yaml" and rng.random() < 0.5:
                pre["linked.yaml"] = gen_content(rng)
    return sc


def early_reject(sc):
    """save is refused before it looks at the configuration (static)"""
    if sc.get("format") not in (None,) + VALID_FORMATS:
        return True
    resolved = sc.get("links", {}).get(sc["target"], sc["target"])
    if sc["target"] in ("nodir/main.yaml", "adir") or resolved == "gone/main.yaml":
        return True
    exists = resolved in sc.get("pre", {}) or (sc.get("same_dir") and sc["target"] in input_names(sc))
    return exists and sc.get("overwrite") is not True


def all_faults(sc, n_writes):
    """a failure injected at each step: validation at each typed key, serialisation at each Any value, each open, each write"""
    out = [{"kind": "none"}]
    for k, kind in leaf_keys(sc):
        if kind in ("int", "enum"):
            out.append({"kind": "invalid", "key": k})
        if kind == "str":
            out.append({"kind": "invalid", "key": k, "as": "list"})
        if kind in ("any", "dictval"):
            out.append({"kind": "unser", "key": k})
        if kind == "enum":
            out.append({"kind": "enum", "key": k})
    for k in range(n_writes):
        out.append({"kind": "open", "k": k})
        out.append({"kind": "write", "k": k})
    return out


def count_writes(sc):
    n = 1
    if sc.get("multifile") is not False:
        for s in sc["subs"]:
            n += 1 if s.get("file") else 0
            n += 1 if s.get("inner") and s["inner"].get("file") else 0
        for k in ("dict", "schema", "jsonnet", "pathcontent"):
            n += 1 if sc.get(k) else 0
    return n



# ---------------------------------------------------------------- the fsspec branch (memory:// file system, in-process)
_FS_COUNTER = [0]
FS_TARGET = "main.yaml"


def fsspec_available():
    try:
        from jsonargparse._optionals import fsspec_support

        if not fsspec_support:
            return False
        import fsspec

        fsspec.filesystem("memory")
        return True
    except Exception:  # noqa: BLE001
        return False


def gen_fsspec_scenario(rng):
    sc = {"fsspec": True, "subs": [], "dict": None, "schema": None, "jsonnet": None, "pathcontent": None}
    vals = {}
    for k, kind in TOP_LEAVES:
        if rng.random() < 0.6:
            v = gen_value(rng, kind)
            if v is not None or kind != "enum":
                vals[k] = v
    sc["values"] = vals
    sc["format"] = rng.choice([None, None, "yaml", "json", "json_indented", "parser_mode", "bogus"])
    sc["overwrite"] = rng.choice([None, False, True])
    sc["multifile"] = rng.choice([False, False, False, None, True])
    sc["skip_validation"] = rng.choice([None, None, None, True])
    sc["skip_none"] = rng.choice([None, None, False])
    sc["target"] = FS_TARGET
    sc["pre"] = {n: gen_content(rng) for n in (FS_TARGET, "other.yaml") if rng.random() < 0.7}
    return sc


def fsspec_faults(sc):
    """k counts the fsspec.open(<target>, 'w') calls of one save(): since fix 22a2e9a there is exactly one (k=0, save's own
    open; the write-probe of Path(mode="sw") is gone).  k=1 is kept: an open that never happens must change nothing."""
    out = [{"kind": "none"}, {"kind": "invalid", "key": "top"}, {"kind": "invalid", "key": "name", "as": "list"},
           {"kind": "unser", "key": "any"}, {"kind": "enum", "key": "col"},
           {"kind": "open", "k": 0}, {"kind": "write", "k": 0}, {"kind": "open", "k": 1}]
    return out


class FsspecPatch:
    """while active, the k-th fsspec.open(<below root>, 'w') fails with OSError (k=0 is save's own open; there is no other
    since fix 22a2e9a); kind 'write': the handle's write fails after the file was really opened"""

    def __init__(self, root, kind, k):
        self.root, self.kind, self.k, self.n = root, kind, k, 0

    def __enter__(self):
        import fsspec

        self.mod = fsspec
        real = self.real = fsspec.open
        me = self

        def patched(urlpath, mode="rb", *a, **kw):
            if not (isinstance(urlpath, str) and urlpath.startswith(me.root) and "w" in mode):
                return real(urlpath, mode, *a, **kw)
            idx = me.n
            me.n += 1
            if me.kind == "open" and idx == me.k:
                raise InjectedOpenError("injected: open fails")
            of = real(urlpath, mode, *a, **kw)
            if me.kind == "write" and idx == me.k:
                class Failing:
                    def __enter__(s):
                        of.__enter__()
                        return s

                    def __exit__(s, *e):
                        return of.__exit__(*e)

                    def write(s, data):
                        raise InjectedWriteError("injected: write fails")

                return Failing()
            return of

        fsspec.open = patched
        return self

    def __exit__(self, *e):
        self.mod.open = self.real
        return False


def mem_snapshot(root):
    import fsspec

    m = fsspec.filesystem("memory")
    base = "/" + root[len("memory://"):].strip("/")
    out = {}
    if m.exists(base):
        for pth in m.find(base):
            out[pth[len(base) + 1:]] = m.cat(pth)
    return out


def run_fsspec_case(sc, fault):
    """one save() to a memory:// target: real code + the input of Jap.Save.saveFsspec"""
    import fsspec
    from jsonargparse import strip_meta

    _FS_COUNTER[0] += 1
    root = "memory://c18-%d-%d/" % (os.getpid(), _FS_COUNTER[0])
    base = "/" + root[len("memory://"):].strip("/")
    m = fsspec.filesystem("memory")
    try:
        for name, content in sc.get("pre", {}).items():
            with fsspec.open(root + name, "wb") as f:
                f.write(content.encode("utf-8"))
        parser, parser2, parser3 = build_parser(sc), build_parser(sc), build_parser(sc)
        main = {k: plain(v) for k, v in sc.get("values", {}).items()}
        cfg, cfg2 = parser.parse_object(main), parser2.parse_object(main)
        apply_fault(cfg, fault)
        apply_fault(cfg2, fault)
        expected = canon_cfg(strip_meta(copy.deepcopy(cfg)))
        before = mem_snapshot(root)
        fmt = sc.get("format") or "parser_mode"
        fmt_ok = fmt in VALID_FORMATS
        skipv, skip_none = dump_flags(sc)
        mi = {"branch": "fsspec", "path": sc["target"], "overwrite": sc.get("overwrite"), "multifile": sc.get("multifile"),
              "format_ok": fmt_ok,
              "wr": {"open": not (fault.get("kind") == "open" and fault.get("k") == 0),
                     "write": not (fault.get("kind") == "write" and fault.get("k") == 0)},
              "fs": sorted([n, c.decode("utf-8")] for n, c in before.items())}
        if not fmt_ok:
            mi["dump"] = {"fail": "format"}
        else:
            try:
                mi["dump"] = {"text": parser2.dump(cfg2, format=fmt, skip_none=skip_none, skip_validation=skipv)}
            except Exception as ex:  # noqa: BLE001 - the class is the observation
                mi["dump"] = {"fail": classify_exc(ex)}
        exc = None
        patch_kind = fault["kind"] if fault.get("kind") in ("open", "write") else "none"
        with FsspecPatch(root, patch_kind, fault.get("k", -1)):
            try:
                with warnings.catch_warnings():
                    warnings.simplefilter("ignore")
                    parser.save(cfg, root + sc["target"], **save_kwargs(sc))
                outcome = "ok"
            except Exception as ex:  # noqa: BLE001 - the class is the observation
                outcome = classify_exc(ex)
                exc = "%s: %s" % (type(ex).__name__, str(ex)[:160])
        after = mem_snapshot(root)
        reparsed = reparse_err = None
        if outcome == "ok":
            try:
                reparsed = canon_cfg(parser3.parse_string(after[sc["target"]].decode("utf-8"), with_meta=False))
            except Exception as ex:  # noqa: BLE001
                reparse_err = "%s: %s" % (type(ex).__name__, str(ex)[:200])
        return {"outcome": outcome, "exc": exc, "before": before, "after": after, "model_in": mi,
                "real_fs": sorted([n, c.decode("utf-8", "replace")] for n, c in after.items()),
                "expected_cfg": expected, "reparsed": reparsed, "reparse_err": reparse_err}
    finally:
        if m.exists(base):
            m.rm(base, recursive=True)


def judge_fsspec(res, sc, fault):
    """C18 on one real run against a memory:// target; returns list of (finding-id-or-None, description)"""
    out = []
    before, after, t = res["before"], res["after"], sc["target"]
    changed = sorted(n for n in set(before) | set(after) if before.get(n) != after.get(n))
    if [n for n in changed if n != t]:
        out.append((None, "fsspec save touched files other than the target: %s" % changed))
    # (a) without overwrite no existing file changes
    if sc.get("overwrite") is not True and t in before and t in changed:
        out.append((None, "overwrite not requested, fsspec target existed and was changed (outcome %s)" % res["outcome"]))
    if res["outcome"] == "ok":
        if sc.get("skip_validation") and fault.get("kind") == "invalid":
            pass
        elif res["reparse_err"] is not None or res["reparsed"] != res["expected_cfg"]:
            out.append((None, "fsspec target does not re-parse to the configuration (%s)" % (res["reparse_err"] or "values differ")))
    elif t in changed and res["outcome"] != "io":
        # (b) failure -> nothing changed (class io = the back-end failing in the middle of the write is outside the property)
        out.append((None, "save to an fsspec target raised (%s) and the target %s" %
                    (res["outcome"], ("was emptied" if after.get(t) == b"" else "changed") if t in before else "was created")))
    return out


def process_fsspec(ctx: Ctx, cases, origin):
    results = [run_fsspec_case(sc, fault) for sc, fault in cases]
    lines = [r["model_in"] for r in results]
    model = None
    try:
        model = ctx.driver("Save", lines) if lines else []
    except MachineryError as ex:
        if ctx.lean_ok:
            raise
        ctx.tie_break("correspondence E7 (fsspec branch) not runnable (model does not build)", str(ex))
    dis = 0
    for idx, ((sc, fault), res) in enumerate(zip(cases, results)):
        ctx.count()
        ctx.hist("fsspec_outcome", res["outcome"])
        ctx.hist("fsspec_mode", {None: "multi(default)", True: "multi", False: "single"}[sc.get("multifile")])
        ctx.hist("fsspec_overwrite", {None: "default", True: "on", False: "off"}[sc.get("overwrite")])
        ctx.hist("fsspec_fault", fault["kind"] + (str(fault["k"]) if "k" in fault else ""))
        if sc["target"] in res["before"]:
            ctx.nontrivial(json.dumps([sc, fault], sort_keys=True, default=repr))
        if model is not None:
            m = model[idx]
            if m.get("outcome") != res["outcome"] or model_fs(m) != res["real_fs"]:
                dis += 1
                if dis <= 3:
                    ctx.tie_break("correspondence E7 (saveFsspec vs ArgumentParser.save on a memory:// target) disagrees",
                                  json.dumps({"scenario": sc, "fault": fault, "real": {"outcome": res["outcome"], "exc": res["exc"], "fs": res["real_fs"]},
                                              "model": {"outcome": m.get("outcome"), "fs": model_fs(m)}}, ensure_ascii=True, default=repr)[:1900])
        for fid, desc in judge_fsspec(res, sc, fault):
            if fid is not None and ctx.is_open(fid):
                ctx.known(fid, desc)
            else:
                ctx.violation("save: " + desc, {"kind": "oracle", "origin": origin, "scenario": sc, "fault": fault, "what": desc,
                                               "before": {k: v.decode("utf-8", "replace") for k, v in res["before"].items()},
                                               "after": {k: v.decode("utf-8", "replace") for k, v in res["after"].items()}, "exc": res["exc"]})
    return dis

# ---------------------------------------------------------------- the check
def model_fs(m):
    return sorted([p, c] for p, c in m["fs"])


def process(ctx: Ctx, cases, root, origin, readonly=False):
    """run the real code on every (scenario, fault), the model in one batch; correspondence + oracle"""
    if readonly:
        results = run_readonly_cases(cases, root)
    else:
        results = [run_case(sc, fault, root) for sc, fault in cases]
    lines = [r["model_in"] for r in results]
    model = None
    try:
        model = ctx.driver("Save", lines) if lines else []
    except MachineryError as ex:
        if ctx.lean_ok:
            raise
        ctx.tie_break("correspondence E7 not runnable (model does not build)", str(ex))
    disagreements = 0
    for idx, ((sc, fault), res) in enumerate(zip(cases, results)):
        ctx.count()
        mi = res["model_in"]
        ctx.hist("outcome", res["outcome"])
        ctx.hist("mode", "single" if mi.get("multifile") is False else ("multi" if mi.get("multifile") else "multi(default)"))
        ctx.hist("overwrite", {None: "default", True: "on", False: "off"}[sc.get("overwrite")])
        ctx.hist("fault", fault["kind"])
        ctx.hist("subfiles", len(mi["subs"]))
        ctx.hist("subfile_loaded_from", "sub-directory" if any(os.sep in (x.get("file") or "") for x in sc["subs"]) else "input directory")
        ctx.hist("target_spelling", "file://" if sc.get("uri") else "plain")
        ctx.hist("target_kind", "symlink->" + sc["links"][sc["target"]] if sc["target"] in sc.get("links", {}) else "name")
        if not sc.get("uri"):
            ctx.hist("path_argument", sc.get("spelling") or "absolute str")
        ctx.hist("skip_validation", repr(sc.get("skip_validation")))
        ctx.hist("skip_none", repr(sc.get("skip_none")))
        sublinks = [k for k in sc.get("links", {}) if k != sc["target"]]
        ctx.hist("subfile_symlink", "->" + sc["links"][sublinks[0]] if sublinks else "none")
        if res["outcome"] != "ok":
            fa = failing_slot(mi)
            ctx.hist("failure_position", "before-first-write" if not fa else ("after-%d-subfile-writes" % min(fa, 3)))
        if res["before_out"][0] and mi["format_ok"] and res["outcome"] != "path":
            ctx.nontrivial(json.dumps([sc, fault], sort_keys=True, default=repr))
        # --- correspondence
        if model is not None:
            m = model[idx]
            if m.get("outcome") != res["outcome"] or model_fs(m) != res["real_fs"]:
                disagreements += 1
                if disagreements <= 3:
                    ctx.tie_break("correspondence E7 (save effect model vs ArgumentParser.save) disagrees",
                                  json.dumps({"scenario": sc, "fault": fault, "real": {"outcome": res["outcome"], "exc": res["exc"], "fs": res["real_fs"]},
                                              "model": {"outcome": m.get("outcome"), "fs": model_fs(m)}}, ensure_ascii=True, default=repr)[:1900])
            # the finding classifier of the oracle must be the complement of the partial theorem's hypothesis
            # (class io = the OS failing after an open succeeded is never "by the first open")
            if m.get("outcome") not in ("ok", "io", None) and m.get("outcome") == res["outcome"] and bool(m.get("early")) != (not failing_slot(mi)):
                ctx.tie_break("oracle's failure-position classifier disagrees with Jap.Save.failsByFirstOpen",
                              json.dumps({"scenario": sc, "fault": fault, "early": m.get("early"), "failing_slot": failing_slot(mi)}, default=repr)[:1500])
            # ... and the number of sub-files the oracle lets a failing run leave behind is the model's writtenCount
            # (theorem C18_failure_exact)
            if m.get("outcome") not in ("ok", "io", None) and m.get("outcome") == res["outcome"] and m.get("written") != (failing_slot(mi) or 0):
                ctx.tie_break("oracle's count of sub-files written before the failure disagrees with Jap.Save.writtenCount",
                              json.dumps({"scenario": sc, "fault": fault, "written": m.get("written"), "failing_slot": failing_slot(mi)}, default=repr)[:1500])
        # --- oracle
        for fid, desc in judge(res, sc, fault):
            if fid is not None and ctx.is_open(fid):
                ctx.known(fid, desc)
            else:
                ctx.violation("save: " + desc, {"kind": "oracle", "origin": origin, "scenario": sc, "fault": fault, "what": desc, "readonly": readonly,
                                               "before": snap_sig(res["before_out"]), "after": snap_sig(res["after_out"]), "exc": res["exc"]})
    return disagreements


def run(ctx: Ctx):
    repo_python_path()
    ctx.rule = ("scenario = parser with 0-3 ActionParser sub-configs (optionally nested, each loaded from its own sub-file or inline), optional dict, "
                "jsonschema, jsonnet (__orig__) and save_path_content sub-files, values, format, multifile in {omitted,True,False}, overwrite in "
                "{omitted,False,True}, target (new, existing, missing parent, a directory, parent not writeable, a symbolic link to an existing / not yet existing sibling or into a missing directory; spelled as a plain path or as a file:// URI), pre-existing files of arbitrary content, "
                "inputs next to or away from the target; the path argument as absolute str, file:// URI, relative to a working directory elsewhere, ./name in its own directory, "
                "through dir/../dir, pathlib.Path or a jsonargparse Path(mode='fc') object; skip_validation in {omitted,False,True, deprecated skip_check=True}, skip_none in {omitted,False}; "
                "a sub-file NAME in the target directory that is a symbolic link (to its own existing/dangling file, to another sub-file's name, to the target's name); "
                "plus scenarios on an in-process memory:// file system (fsspec branch: existing/new target, overwrite, multifile, format, flags; faults: invalid/unserialisable value, "
                "fsspec.open failing, write failing); for every scenario a failure is injected at EACH step (invalid value at each typed key, "
                "unserialisable value at each Any key, Enum at each enum key, k-th open fails, k-th write fails) plus the fault-free run; each "
                "(scenario, fault) runs the real parser.save in a temp dir and the Lean model; non-trivial = output directory holds >=1 pre-existing "
                "file and save gets past the format/path checks; distinct by JSON of (scenario, fault)")
    ctx.assumptions = [
        "validation / serialisation outcomes and the dump texts are inputs of the model; the reference obtains them from parser.validate, parser.dump and dump_using_format on a separately loaded copy",
        "local file system (plain paths and file:// URIs of local files) and the in-process memory:// file system of fsspec (no network back-ends, no http(s) URLs); symbolic links as the main target (to a sibling file, dangling, or into a missing directory) and as a sub-file name (one link, one step: the harness hands the model the resolved destination), the model resolves them; nobody else writes to the directory during save",
        "branch= is not exercised (it only selects the subcommand validate() looks at: C17's subject); save(**unexpected_kwargs) raising ValueError before anything else is not modelled",
        "FIFO targets are outside the model and not exercised: an existing FIFO passes Path(mode='fc') (fix 5706b13), is not refused by check_overwrite (os.path.isfile) and open(fifo,'w') blocks until a reader appears; a FIFO stores no content; existing non-files in the scenarios are directories",
        "an OS failure in the middle of write() after a successful open (class io) is outside the property; the model and the harness still track it",
        "save_path_content copies go through text mode: sources are UTF-8 text without carriage returns (newline translation is outside the model)",
    ]
    ctx.lean_build(extractors=["save_order"])

    from ..lib import corpus as corpus_mod

    root = tempfile.mkdtemp(prefix="c18-")
    try:
        corpus_cases, corpus_fs = [], []
        have_fsspec = fsspec_available()
        for c in corpus_mod.load(ctx.prop):
            for f in c.get("faults", [{"kind": "none"}]):
                (corpus_fs if c["scenario"].get("fsspec") else corpus_cases).append((c["scenario"], f))
        dis = process(ctx, corpus_cases, root, "corpus")
        if have_fsspec:
            dis += process_fsspec(ctx, corpus_fs, "corpus")
        else:
            ctx.assumptions.append("fsspec is not installed: save() has no fsspec branch in this environment, the memory:// cases were skipped")

        def batch(n_scen, origin):
            cases = []
            per_scen = 40 if ctx.thorough else 12
            for _ in range(n_scen):
                sc = gen_scenario(ctx.rng)
                faults = all_faults(sc, count_writes(sc))
                limit = 2 if early_reject(sc) else per_scen
                if len(faults) > limit:
                    faults = [faults[0]] + ctx.rng.sample(faults[1:], limit - 1)
                for f in faults:
                    cases.append((sc, f))
                if len(ro_cases) < ctx.budget(12, 60) and sc["target"] == "main.yaml":
                    ro_cases.append((sc, faults[-1]))
            for sc, f in cases[:3]:
                ctx.sample({"scenario": sc, "fault": f})
            return process(ctx, cases, root, origin)

        ro_cases = []
        n_scen = ctx.budget(220, 2600)
        dis += batch(n_scen, "generated")
        if ctx.tie_broken and not any(v["found_input"] for v in ctx.violations):
            # a tie is broken and no failing input yet: search harder
            extra = n_scen * (ctx.search_boost - 1) if not ctx.thorough else n_scen
            dis += batch(extra, "generated-boosted")
            n_scen += extra
        if have_fsspec:
            fs_cases = []
            for _ in range(ctx.budget(25, 400) * (ctx.search_boost if ctx.tie_broken else 1)):
                fsc = gen_fsspec_scenario(ctx.rng)
                faults = fsspec_faults(fsc)
                for f in [faults[0]] + ctx.rng.sample(faults[1:], 3 if not ctx.thorough else len(faults) - 1):
                    fs_cases.append((fsc, f))
            dis += process_fsspec(ctx, fs_cases, "generated-fsspec")
            ctx.extra["fsspec_cases"] = len(fs_cases)
        if os.getuid() == 0:
            dis += process(ctx, ro_cases, root, "generated-readonly", readonly=True)
            ctx.extra["readonly_parent_cases"] = len(ro_cases)
        else:
            ctx.assumptions.append("not running as root: the parent-not-writeable cases were skipped")
        ctx.extra["scenarios"] = n_scen
        ctx.extra["correspondence_disagreements"] = dis

        # --- replay of catalogued findings
        for f in ctx.open_findings():
            w = f["witness"]
            ctx.count()
            if w["scenario"].get("fsspec"):
                if not have_fsspec:
                    continue
                verdicts = judge_fsspec(run_fsspec_case(w["scenario"], w["fault"]), w["scenario"], w["fault"])
            else:
                verdicts = judge(run_case(w["scenario"], w["fault"], root), w["scenario"], w["fault"])
            if any(fid == f["id"] for fid, _ in verdicts):
                ctx.known(f["id"], f["description"])
            else:
                ctx.stale_findings.append(f["id"])
        ctx.replay_fixed_demos()
    finally:
        shutil.rmtree(root, ignore_errors=True)


def replay(ctx: Ctx, body):
    repo_python_path()
    rp = body["replay"]
    if rp.get("kind") == "demo":
        import subprocess

        from ..lib.common import REPO, VERIF

        p = subprocess.run(["/venv/bin/python", os.path.join(VERIF, rp["demo"])], env=dict(os.environ, PYTHONPATH=REPO))
        return 1 if p.returncode != 0 else 0
    if "scenario" not in rp:
        print("nothing to replay:", json.dumps(rp)[:500])
        return 1
    if rp["scenario"].get("fsspec"):
        res = run_fsspec_case(rp["scenario"], rp["fault"])
        verdicts = judge_fsspec(res, rp["scenario"], rp["fault"])
        print("outcome:", res["outcome"], res["exc"])
        print("before :", res["before"])
        print("after  :", res["after"])
        print("verdicts:", verdicts)
        return 1 if any(fid is None for fid, _ in verdicts) else 0
    root = tempfile.mkdtemp(prefix="c18-")
    try:
        if rp.get("readonly"):
            res = run_readonly_cases([(rp["scenario"], rp["fault"])], root)[0]
        else:
            res = run_case(rp["scenario"], rp["fault"], root)
        verdicts = judge(res, rp["scenario"], rp["fault"])
        print("outcome:", res["outcome"], res["exc"])
        print("before :", json.dumps(snap_sig(res["before_out"])))
        print("after  :", json.dumps(snap_sig(res["after_out"])))
        print("verdicts:", verdicts)
        return 1 if any(fid is None for fid, _ in verdicts) else 0
    finally:
        shutil.rmtree(root, ignore_errors=True)

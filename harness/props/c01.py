"""C01 \u2014 a dumped configuration re-parses to the same configuration (layer L2 + end-to-end oracle).

Pipeline
 1. regenerate Gen/Resolvers + Gen/DumpCfg from the LIVE Loader/Dumper classes and dump kwargs, build
    Props/C01 (kernel certificates over the joint automaton lifted to all strings; JSON string round trip).
 2. extractor validation: every DFA vs its `re` pattern on all short words over the class representatives and on
    random walks of the DFA and of its complement; J's tag columns vs the real `Resolver.resolve` of both classes;
    the Lean tables (driver) vs the extractor's in-memory model.
 3. correspondence on strings generated FROM the automata: real `yaml_dump({'k': s})` plain-vs-quoted vs the model's
    prediction given the real emitter's `analyze_scalar` verdict; `yaml_load` of the text vs `resolveLoad`;
    `json.dumps` escaping vs `jsonEscape`; the loader on JSON string literals / random double-quoted texts vs
    `yamlDqUnescape`; real representer outputs are members of the image languages.
 3b. whole documents (c01_doc.py): emitDoc vs yaml_dump character for character, loadDoc vs yaml_load on emitted and
    perturbed layouts; jDump vs the json dumpers, jsonLoad vs the YAML loader on JSON texts and perturbed JSON texts;
    skip_default (c01_skip.py): delKV vs _dump_delete_default_entries, reparse vs parse_object on parsers built from
    generated structures, and the property itself wherever the model's `leafStable` holds.
 4. property oracle on real parsers (independent of the model): generated parsers over the type grammar x accepted
    values x {dump yaml/json/json_indented, skip_default, --print_config fed back through --cfg, save+parse_path,
    histories of skip_default dumps on one parser whose defaults change in between (default config file rewritten /
    replaced, action.default assigned), multi-file save with sub-config files after overrides + parse_path}; generated
    documents through the real dump / load functions of the three formats.
 5. replay of the repaired F01 demo and of every open finding's witness.
"""
from __future__ import annotations

import contextlib
import itertools
import json
import math
import os
import random
import subprocess

from ..lib.common import REPO, VERIF, Ctx, MachineryError, derive_seed, repo_python_path
from . import c01_doc as D
from . import c01_e2e as E
from . import c01_skip as S

MANIFEST = {
    "engine": "Scalar",
    "technique": "regenerated resolver automata (regex -> DFA -> joint automaton) + Lean 4 `decide +kernel` certificates lifted to all strings "
                 "by induction + Lean models of PyYAML's emitter (scalar styles, block layout of nested dict/list), of libyaml's reading of that text and of "
                 "JSON text (flow collections, double-quoted scalars, simple-key rule), with round-trip theorems for whole documents of any depth + "
                 "differential correspondence against yaml_dump / yaml_load / the json dumpers (emitted and perturbed texts) + end-to-end oracle on generated parsers",
    "text": "Theorems in lean/Jap/Props/C01.lean prove, for ALL inputs: (scalars) whatever the Dumper class used by yaml_dump resolves as a plain str the loader "
            "class used by yaml_load resolves as str (C01_resolver_agreement); every text the representers can write for int/float/bool/null, and every RFC 8259 "
            "number, is resolved by the loader with that tag; the text the emitter writes for a single-line str (plain / single / double quoted, value or simple "
            "key) is scanned back to that str. (documents) C01_yaml_doc_roundtrip: for every nested dict/list of scalars at any depth the block-style text of "
            "yaml_dump (indent 2, indentless sequences under keys, [] / {}, simple keys; model emitDoc, corresponded character for character with the real dump) "
            "is read back by the loader model (lines -> column-tagged tokens -> recursive descent; corresponded with yaml_load on emitted and perturbed "
            "layouts) as the same value, same key order, every scalar with its tag; the structural layer needs no hypothesis, the text layer is defined "
            "whenever no str is multi-line or folded and every key is a simple key. C01_json_doc_roundtrip_partial: the same for json and json_indented "
            "read back by the YAML loader, for str keys, strings without DEL/C1/U+2028/U+2029/U+FFFE/U+FFFF, finite floats and key literals of at most 1024 "
            "characters; each excluded class is an open finding with a kernel-checked counterexample (C01-json-long-key is new). Strings with a line break that PyYAML writes double-quoted (blank next to a "
            "break, TAB, special character) are inside the model (C01_multiline_style, C01_emitScalar_defined_multiline); single-quoted multi-line output is "
            "not. Composition (C01_typed_roundtrip_partial / _json_partial): for every type of the sub-grammar of C10_ser_adapt_roundtrip and every value the "
            "adapter returns, adapt(constructors(loadDoc(emitDoc(toV(ser t w))))) = w, with the embedding toV/ofV of the adapter's plain values into document "
            "values proved to commute (hence injective); the int/float text codec is a parameter whose law is required on the numbers that occur. "
            "skip_default: delKV is _dump_delete_default_entries on plain nested dicts, reparse the merge-groups / replace-leaves re-parse; "
            "C01_skip_default_roundtrip_partial proves reparse(dumped) = cfg whenever no dict-valued leaf shares an entry with its default (the open finding is "
            "the kernel-checked witness), corresponded with the real reduction, parse_object and dump/parse_string. The dump configuration the "
            "models hard-code is pinned to the extracted one (C01_tie_dump_configuration). The automata and the dump kwargs are regenerated on every run from "
            "the live classes; the typed<->plain layer (ser/adapt) belongs to C02/C10; the whole property is evaluated end to end on generated real parsers "
            "and on generated documents through the three formats.",
    "level_note": "Trusted: Lean kernel; axioms propext/Quot.sound/Classical.choice only; harness/lib/regex2dfa.py (regex -> DFA, validated against `re` on every "
                  "run) and the joint-automaton exploration (tag columns validated against the real Resolver.resolve); the image languages written down in the "
                  "extractor (every real representer output observed is checked to be a member); that the Lean models of PyYAML's emitter / libyaml's scanner "
                  "and block/flow parser agree with the third-party code beyond the generated cases (corresponded on every run: scalar analysis and styles "
                  "exhaustively on short indicator strings, documents and perturbed layouts at random; the constants are PyYAML's, not regenerated). A scalar is "
                  "(tag, text): the construction of int/float objects from their text is outside the document model (the real constructors are used when "
                  "comparing). Outside the models, seen by the oracle only: multi-line and folded strings, complex keys (`? `), yaml_load's post-processing of "
                  "top-level mappings whose values are all None, _dump_cleanup_actions (per-action serialisation, removal of config/link/None entries), the "
                  "subclass-spec branch of skip_default, sub-config files of multi-file save, yaml_comments (ruyaml), toml.",
    "engines": ["Scalar"],
}

TAG_TYPES = {"str": str, "null": type(None), "bool": bool, "int": int, "float": float}


# ================================================================ helpers on the extracted model
def get_model(ctx):
    from ..extractors import resolvers

    try:
        return resolvers.model()
    except Exception as ex:  # noqa: BLE001
        ctx.tie_break("extract: resolvers model not available: %r" % (ex,))
        return None


def py_tags(m, s):
    j = m["J"].run(m["part"].word(s))
    return m["tagD"][j], m["tagL"][j], m["img"][j]


def tag_code(m, tag):
    from ..extractors.resolvers import tag_short

    t = tag_short(tag)
    return m["tags"].index(t) if t in m["tags"] else -1


class RealResolvers:
    def __init__(self, m):
        import io

        import yaml

        self.yaml = yaml
        self.L = m["sides"]["L"]("")
        self.D = m["sides"]["D"](io.StringIO())
        self.m = m

    def resolve(self, side, s):
        inst = self.L if side == "L" else self.D
        return tag_code(self.m, inst.resolve(self.yaml.nodes.ScalarNode, s, (True, False)))


# ================================================================ 2. extractor validation
def validate_short_words(ctx, m, rr, maxlen):
    """all words up to maxlen over one representative per class: every component DFA vs `re`, tag columns vs resolve"""
    J, part = m["J"], m["part"]
    reps = [chr(r) for r in part.reps]
    comps = [(i, m["comp_rx"][name]) for i, name in enumerate(J.names)]
    accs = [d["acc"] for d in J.dfas]
    bad = []
    n = 0

    def visit(j, s):
        nonlocal n
        n += 1
        qs = J.states[j][1]
        for i, rx in comps:
            if (rx.match(s) is not None) != accs[i][qs[i]]:
                bad.append(("dfa", J.names[i], s))
        if rr.resolve("L", s) != m["tagL"][j]:
            bad.append(("tagL", m["tags"][m["tagL"][j]], s))
        if rr.resolve("D", s) != m["tagD"][j]:
            bad.append(("tagD", m["tags"][m["tagD"][j]], s))

    def rec(j, s, depth):
        visit(j, s)
        if depth < maxlen and len(bad) < 20:
            row = J.delta[j]
            for c in range(J.K):
                rec(row[c], s + reps[c], depth + 1)

    rec(0, "", 0)
    ctx.count(n * (len(comps) + 2))
    return n, bad


def any_char_of(part, c, rng):
    ivs = part.classes[c]
    lo, hi = rng.choice(ivs)
    return chr(rng.randint(lo, hi))


def validate_random_walks(ctx, m, rr, rng, per_dfa):
    """random walks on every component DFA and on its complement, expanded with arbitrary members of the classes"""
    from ..lib import regex2dfa as R

    part, J = m["part"], m["J"]
    bad, n = [], 0
    for name in J.names:
        dfa, rx = m["dfas"][name], m["comp_rx"][name]
        for target, want in ((dfa, True), (R.complement(dfa), False)):
            for _ in range(per_dfa):
                w = R.random_accepted(target, rng, max_len=rng.choice([3, 6, 12]), stop=0.25)
                if w is None:
                    break
                s = "".join(any_char_of(part, c, rng) for c in w)
                n += 1
                if (rx.match(s) is not None) != want or R.dfa_accepts(dfa, part.word(s)) != want:
                    bad.append(("walk", name, s))
                d, l, _ = py_tags(m, s)
                if rr.resolve("L", s) != l:
                    bad.append(("tagL", name, s))
                if rr.resolve("D", s) != d:
                    bad.append(("tagD", name, s))
    ctx.count(n * 3)
    return n, bad


def codes(s):
    return [ord(ch) for ch in s]


def lean_ok_string(s):
    return all(not (0xD800 <= ord(ch) <= 0xDFFF) for ch in s)


def driver(ctx, lines):
    if not lines:
        return []
    try:
        return ctx.driver("Scalar", lines)
    except MachineryError as ex:
        if ctx.lean_ok:
            raise
        ctx.tie_break("correspondence Scalar not runnable (model does not build)", str(ex)[:500])
        return None


# ================================================================ 3. correspondence
@contextlib.contextmanager
def record_emitter(Dumper):
    """record, for every scalar the live Dumper class emits, the style chosen and the emitter's own analysis"""
    log = []
    had = "choose_scalar_style" in Dumper.__dict__
    orig = Dumper.choose_scalar_style

    def wrapper(self):
        style = orig(self)
        a, ev = self.analysis, self.event
        allow = (not (self.simple_key_context and (a.empty or a.multiline))
                 and bool(self.flow_level and a.allow_flow_plain or (not self.flow_level and a.allow_block_plain)))
        log.append({"value": ev.value, "implicit0": bool(ev.implicit[0]), "style": style, "plain_allowed": allow,
                    "forced": bool(ev.style) or bool(self.canonical), "tag": ev.tag, "allow_block_plain": bool(a.allow_block_plain),
                    "allow_single_quoted": bool(a.allow_single_quoted), "multiline": bool(a.multiline), "empty": bool(a.empty),
                    "simple_key": bool(self.simple_key_context)})
        return style

    Dumper.choose_scalar_style = wrapper
    try:
        yield log
    finally:
        if had:
            Dumper.choose_scalar_style = orig
        else:
            del Dumper.choose_scalar_style


def scalar_violation(ctx, s, fmt, what, origin, position="value"):
    ctx.violation(what, {"kind": "scalar", "s": s, "codes": codes(s), "format": fmt, "origin": origin, "position": position})


def real_str_roundtrip(s, fmt, position="value"):
    """the property on the smallest real parser: one str argument (or Dict[str,int] / List[str] for a key / an item)"""
    from typing import Dict, List

    from jsonargparse import ArgumentError, ArgumentParser

    p = ArgumentParser(exit_on_error=False)
    p.add_argument("--s", type={"value": str, "key": Dict[str, int], "item": List[str]}[position])
    val = {"value": s, "key": {s: 1}, "item": [s]}[position]
    cfg = p.parse_object({"s": val})
    try:
        text = p.dump(cfg, format=fmt, skip_none=False)
    except Exception as ex:  # noqa: BLE001
        return "dump raises %s" % type(ex).__name__
    try:
        back = p.parse_string(text)
    except ArgumentError as ex:
        return "re-parse rejected: %s" % str(ex)[:120].replace("\n", " ")
    if E.canon(back.s) != E.canon(val):
        return "re-parsed as %r" % (back.s,)
    return None


def known_scalar(ctx, s, fmt):
    """is a str round-trip failure inside an open finding class?"""
    if fmt == "yaml" and E.NEL in s and ctx.is_open("C01-yaml-nel"):
        return "C01-yaml-nel"
    if fmt != "yaml" and any(ord(ch) in E.JSON_UNSAFE for ch in s) and ctx.is_open("C01-json-unreadable-chars"):
        return "C01-json-unreadable-chars"
    return None


FINDING_TEXT = {
    "C01-yaml-nel": "a str containing U+0085 (NEL) written by the yaml dumper comes back with the NEL folded into a space",
    "C01-json-unreadable-chars": "json formats write DEL/C1 controls/U+2028/U+2029/U+FFFE/U+FFFF raw; the YAML loader rejects or folds them",
    "C01-json-nonfinite-float": "json formats write Infinity/-Infinity/NaN, which the loader reads as strings",
    "C01-skip-default-dict-leaf": "dump(skip_default=True) strips the entries a dict-typed leaf shares with its default; re-parse replaces the default",
    "C01-skip-default-equal-other-type": "dump(skip_default=True) drops a value that == its default although the type differs (1/True/1.0, -0.0/0.0)",
    "C01-union-serialisation": "Union serialisation keeps the first member whose serialiser does not raise (Enum / restricted types accept anything)",
    "C01-decimal-via-float": "Decimal is serialised with float (see C20-decimal-via-float): a Decimal that float does not preserve re-parses differently",
    "C01-comments-requoted": "yaml_comments output is re-serialised by ruyaml (YAML 1.2): quotes needed by the YAML 1.1 loader are dropped",
    "C01-comments-float-digits": "yaml_comments output: ruyaml re-writes floats with fewer digits",
    "C01-comments-int-key": "yaml_comments: a str dict key that YAML 1.2 reads as int makes add_yaml_comments raise",
    "C01-save-subconfig-unserialised": "multi-file save writes the content of a sub-config file (value with __path__) without serialising its leaves: Enum / set / registered-type objects make save raise",
    "C01-json-long-key": "json formats: a dict key whose JSON literal is longer than 1024 characters is not a simple key for libyaml; the loader rejects the dump",
}


def correspond_yaml_strings(ctx, m, strings, origin, position="value"):
    """real yaml_dump / yaml_load on {'k': s} (position value), {s: 1} (key) or [s] (item) vs the model (Lean
    driver) given the emitter's analysis"""
    from jsonargparse import _loaders_dumpers as ld

    Dumper = m["cap"]["Dumper"]
    strings = [s for s in strings if lean_ok_string(s)]
    res = driver(ctx, [{"op": "resolve", "s": codes(s)} for s in strings])
    bad = []
    for idx, s in enumerate(strings):
        if enough(ctx):
            break
        if res is not None:
            d, l, img = res[idx]["d"], res[idx]["l"], res[idx]["img"]
            if (d, l, img) != py_tags(m, s):
                bad.append({"what": "Lean tables differ from the extractor's model", "s": s, "lean": res[idx], "py": py_tags(m, s)})
                continue
        else:
            d, l, img = py_tags(m, s)
        doc = {"k": s} if position == "value" else ({s: 1} if position == "key" else [s])
        with record_emitter(Dumper) as log:
            try:
                text = ld.dumpers["yaml"](doc)
            except Exception as ex:  # noqa: BLE001
                bad.append({"what": "yaml_dump raises %s" % type(ex).__name__, "s": s})
                continue
        ctx.count()
        ev = [e for e in log if e["value"] == s and e["tag"].endswith(":str")]
        if not ev:
            bad.append({"what": "no scalar event recorded for the value", "s": s})
            continue
        ev = ev[-1]
        if ev["implicit0"] != (d == 0):
            bad.append({"what": "dumper resolver verdict differs from resolveDump", "s": s, "model_tag": m["tags"][d], "real_implicit": ev["implicit0"]})
            continue
        plain_model = (d == 0) and ev["plain_allowed"] and not ev["forced"]
        if (ev["style"] == "") != plain_model:
            bad.append({"what": "plain/quoted decision differs from the model", "s": s, "style": ev["style"], "model_plain": plain_model})
            continue
        # load side
        try:
            back = ld.loaders["yaml"](text)
            if position == "value":
                got = back["k"] if isinstance(back, dict) and "k" in back else ("<no k>", back)
            elif position == "key":
                got = next(iter(back)) if isinstance(back, dict) and len(back) == 1 else ("<not one key>", back)
            else:
                got = back[0] if isinstance(back, list) and len(back) == 1 else ("<not one item>", back)
        except Exception as ex:  # noqa: BLE001
            got = ("<exception>", type(ex).__name__)
        if ev["style"] == "":
            ctx.hist("yaml_str", "plain")
            want_type = TAG_TYPES.get(m["tags"][l])
            if l == 0:
                ok = type(got) is str and got == s
            else:
                ok = want_type is not None and type(got) is want_type
            if l != 0:
                # the model itself predicts a non-str: the agreement is broken on this string
                scalar_violation(ctx, s, "yaml", "str %r is written plain (%s position) and read back as %r" % (s, position, got), origin, position)
            elif not ok:
                fid = known_scalar(ctx, s, "yaml")
                if fid:
                    ctx.known(fid, FINDING_TEXT[fid])
                else:
                    bad.append({"what": "plain text not read back as predicted (resolveLoad=%s)" % m["tags"][l], "s": s, "got": repr(got)})
        else:
            ctx.hist("yaml_str", "quoted:" + m["tags"][d] if d else "quoted:analysis")
            if not (type(got) is str and got == s):
                fid = known_scalar(ctx, s, "yaml")
                if fid:
                    ctx.known(fid, FINDING_TEXT[fid])
                else:
                    scalar_violation(ctx, s, "yaml", "quoted str %r (%s position) is read back as %r" % (s, position, got), origin, position)
        if d == 0 and s:
            ctx.nontrivial("y:" + s)
    return bad


def correspond_numbers(ctx, m, values):
    """ints/floats/bools/None: the text the real representers write is in the image language the theorems cover"""
    from ..extractors.resolvers import IMAGES, JSON_NONFINITE
    from jsonargparse import _loaders_dumpers as ld

    Dumper = m["cap"]["Dumper"]
    names = [x[0] for x in IMAGES]
    bad = []
    for v in values:
        kind = "null" if v is None else type(v).__name__
        # yaml
        with record_emitter(Dumper) as log:
            text = ld.dumpers["yaml"]({"k": v})
        ev = log[-1]
        d, l, img = py_tags(m, ev["value"])
        want_img = {"int": "imgInt", "bool": "imgBool", "null": "imgNull", "float": "imgFloatYaml"}[kind]
        ctx.count()
        if not (img >> names.index(want_img)) & 1:
            bad.append({"what": "representer output outside the image language %s" % want_img, "text": ev["value"], "value": repr(v)})
        if ev["style"] != "" or not ev["implicit0"]:
            bad.append({"what": "number/bool/null not written plain", "text": ev["value"]})
        back = ld.loaders["yaml"](text)["k"]
        if E.canon(back) != E.canon(v):
            ctx.violation("%s value %r is dumped as %r and re-read as %r" % (kind, v, ev["value"], back),
                          {"kind": "value", "value": repr(v), "format": "yaml"})
        # json
        jt = ld.dumpers["json"]({"k": v})
        txt = jt[len('{"k":'):-1]
        d, l, img = py_tags(m, txt)
        want_img = {"int": "jsonInt", "bool": "imgBool", "null": "imgNull", "float": "imgFloatJson"}[kind]
        ctx.count()
        if kind == "float" and not math.isfinite(v):
            if txt not in JSON_NONFINITE:
                bad.append({"what": "json text of a non-finite float is not one of Infinity/-Infinity/NaN", "text": txt})
            continue
        if not (img >> names.index(want_img)) & 1:
            bad.append({"what": "json output outside the image language %s" % want_img, "text": txt, "value": repr(v)})
        back = ld.loaders["yaml"](jt)["k"]
        if E.canon(back) != E.canon(v):
            ctx.violation("%s value %r is dumped as json %r and re-read as %r" % (kind, v, txt, back),
                          {"kind": "value", "value": repr(v), "format": "json"})
    return bad


def correspond_json_strings(ctx, m, strings, origin):
    """json.dumps escaping vs jsonEscape; the loader on the JSON text vs yamlDqUnescape"""
    from jsonargparse import _loaders_dumpers as ld

    strings = [s for s in strings if lean_ok_string(s)]
    lines = []
    for s in strings:
        lines.append({"op": "escape", "s": codes(s)})
        lines.append({"op": "rt", "s": codes(s)})
    res = driver(ctx, lines)
    bad = []
    for idx, s in enumerate(strings):
        text = ld.dumpers["json"]({"k": s})
        esc_real = text[len('{"k":"'):-2]
        try:
            back = ld.loaders["yaml"](text)
            got = back["k"] if isinstance(back, dict) and "k" in back and isinstance(back["k"], str) else None
        except Exception:  # noqa: BLE001
            got = None
        ctx.count(2)
        if res is not None:
            esc_model = "".join(chr(c) for c in res[2 * idx]["r"])
            r = res[2 * idx + 1]["r"]
            rt_model = None if r is None else "".join(chr(c) for c in r)
            if esc_model != esc_real:
                bad.append({"what": "jsonEscape differs from json.dumps", "s": s, "real": esc_real, "model": esc_model})
                continue
            if rt_model != got:
                bad.append({"what": "yamlDqUnescape differs from the loader", "s": s, "real": got, "model": rt_model})
                continue
        if got != s:
            fid = known_scalar(ctx, s, "json")
            if fid:
                ctx.known(fid, FINDING_TEXT[fid])
            else:
                scalar_violation(ctx, s, "json", "str %r written by the json dumper is read back as %r" % (s, got), origin)
        else:
            ctx.nontrivial("j:" + s)
    return bad


STYLE_NAMES = {"": "plain", "'": "single", '"': "double"}
EMIT_ALPHABET = list("-?:,[]{}#&*!|>'\"%@`") + [" ", "\t", "a", "b", "1", ".", "\\", "=", "<", "~", "\n", "\r", "\x85", "\u2028", "\xe9", "\xa0",
                                                 "\ufeff", "\x7f", "\U0001f600", "\U0010ffff", "e", "n", "_"]


def _cs(xs):
    return "".join(chr(c) for c in xs)


def rest_is_comment(rest):
    t = rest.lstrip(" \t")
    return t == "" or (t.startswith("#") and t != rest)


def correspond_emitter(ctx, m, strings, origin):
    """the emitter model (analyze_scalar, choose_scalar_style, writers without folding) and the line scanner model
    against the live Dumper / Loader, in value and key position"""
    from jsonargparse import _loaders_dumpers as ld

    Dumper = m["cap"]["Dumper"]
    strings = [s for s in dict.fromkeys(strings) if lean_ok_string(s)]
    col = 3   # 'k: ' precedes the value
    res = driver(ctx, [{"op": "emit", "s": codes(s), "col": col} for s in strings])
    bad = []
    if res is None:
        return bad
    loads = []   # (kind, s, line, col0)
    for s, r in zip(strings, res):
        for pos in ("value", "key"):
            doc = {"k": s} if pos == "value" else {s: 1}
            with record_emitter(Dumper) as log:
                try:
                    text = ld.dumpers["yaml"](doc)
                except Exception as ex:  # noqa: BLE001
                    bad.append({"what": "yaml_dump raises %s" % type(ex).__name__, "s": s})
                    continue
            ev = [e for e in log if e["value"] == s and e["tag"].endswith(":str")]
            ev = [e for e in ev if e["simple_key"] == (pos == "key")] or ev
            if not ev:
                continue
            ev = ev[0]
            ctx.count()
            if ev["allow_block_plain"] != r["plainOK"] or ev["allow_single_quoted"] != r["allowSingle"] or ev["multiline"] != r["multiline"]:
                bad.append({"what": "analyze_scalar differs from the model", "s": s, "real": {k: ev[k] for k in ("allow_block_plain", "allow_single_quoted", "multiline")},
                            "model": {k: r[k] for k in ("plainOK", "allowSingle", "multiline")}})
                continue
            model_style = r["styleV"] if pos == "value" else r["styleK"]
            if ev["simple_key"] == (pos == "key") and STYLE_NAMES.get(ev["style"]) != model_style:
                bad.append({"what": "choose_scalar_style differs from the model (%s position)" % pos, "s": s, "real": ev["style"], "model": model_style})
                continue
            emitted = r["emitV"] if pos == "value" else r["emitK"]
            if emitted is None or ev["simple_key"] != (pos == "key"):
                continue
            want = ("k: " + _cs(emitted) + "\n") if pos == "value" else (_cs(emitted) + ": 1\n")
            if text != want:
                bad.append({"what": "emitted text differs from the model (%s position)" % pos, "s": s, "real": text, "model": want})
                continue
            ctx.hist("emit_style", pos + ":" + model_style)
            loads.append((pos, s, _cs(emitted) + ("" if pos == "value" else ": 1"), pos == "key"))
    res2 = driver(ctx, [{"op": "loadline", "s": codes(line), "col0": c0} for _, _, line, c0 in loads])
    for (pos, s, line, c0), r in zip(loads, res2 or []):
        ctx.count()
        want_rest = "" if pos == "value" else ": 1"
        if r.get("r", 0) is None or r["tag"] != 0 or _cs(r["v"]) != s or _cs(r["rest"]) != want_rest:
            bad.append({"what": "loadLine does not read the emitted text back (the theorem's statement) in %s position" % pos, "s": s, "line": line, "model": r})
    return bad


def correspond_lines(ctx, m, rng, n):
    """random single lines after 'k: ': whenever the scanner model reads a whole-line scalar the live loader agrees"""
    from jsonargparse import _loaders_dumpers as ld

    alphabet = [a for a in EMIT_ALPHABET if a not in ("\n", "\x85", "\u2028")] + ["''", '\\"', "\\n", "\\x41", ": ", " #", "x", "yes", "1e3", "null"]
    lines = []
    for _ in range(n):
        lines.append("".join(rng.choice(alphabet) for _ in range(rng.choice([1, 2, 3, 4, 5, 7]))))
    res = driver(ctx, [{"op": "loadline", "s": codes(t), "col0": False} for t in lines])
    bad = []
    said = 0
    for t, r in zip(lines, res or []):
        if r.get("r", 0) is None or not rest_is_comment(_cs(r["rest"])):
            continue
        said += 1
        ctx.count()
        try:
            back = ld.loaders["yaml"]("k: " + t + "\n")
            got = back["k"] if isinstance(back, dict) and list(back) == ["k"] else ("<other>", back)
        except Exception as ex:  # noqa: BLE001
            got = ("<exception>", type(ex).__name__)
        tag = m["tags"][r["tag"]] if r["tag"] < len(m["tags"]) else "?"
        want_type = TAG_TYPES.get(tag)
        v = _cs(r["v"])
        ok = (type(got) is str and got == v) if tag == "str" else (want_type is not None and type(got) is want_type)
        if tag in ("int", "float") and isinstance(got, tuple) and got[0] == "<exception>":
            ok = True      # resolved as a number but not constructible (e.g. 0x_): loader error, see F02
        if want_type is None and tag != "str":
            ok = True      # merge / value / timestamp-like tags: construction is outside this comparison
        if not ok:
            bad.append({"what": "loadLine reads a scalar where the loader does not (or another one)", "line": t, "model": {"tag": tag, "v": v}, "real": repr(got)})
    ctx.extra["random_lines_read_as_scalar"] = said
    return bad


DQ_ALPHABET = ["a", "b", " ", "  ", "\t", "\n", "\r", "\r\n", "\x85", "\u2028", "\u2029", "\xa0", "\\\\", '\\"', "\\n", "\\t", "\\ ", "\\\n", "\\\r\n",
               "\\x41", "\\u00e9", "\\U0001F600", "\\ud83d", "\\uD800", "\\x4", "\\q", "\\0", "\\/", "\\N", "\\_", "\\L", "\\P", "\\e", "\\a", "\\v",
               "\\f", "\\r", "\\b", "-", "---", "--- ", "...", "... ", ".", "\xe9", "\U0001f600", "\x7f", "\x9b", "\ufffe", "\ufeff", "'", "#", ":",
               "\\U00110000", "\\x"]


def correspond_dq(ctx, m, rng, n):
    """random double-quoted texts: the live loader vs yamlDqUnescape"""
    from jsonargparse import _loaders_dumpers as ld

    texts = []
    for _ in range(n):
        texts.append("".join(rng.choice(DQ_ALPHABET) for _ in range(rng.choice([1, 2, 3, 4, 6, 9]))))
    res = driver(ctx, [{"op": "dq", "s": codes(t)} for t in texts])
    bad = []
    if res is None:
        return bad
    for t, r in zip(texts, res):
        doc = '{"k":"' + t + '"}'
        try:
            back = ld.loaders["yaml"](doc)
            got = back["k"] if isinstance(back, dict) and list(back) == ["k"] and isinstance(back["k"], str) else None
        except Exception:  # noqa: BLE001
            got = None
        model = None if r["r"] is None else "".join(chr(c) for c in r["r"])
        ctx.count()
        if model != got:
            bad.append({"what": "yamlDqUnescape differs from the loader on a double-quoted text", "text": t, "real": got, "model": model})
    return bad


# ================================================================ 4. end-to-end oracle
def judge_case(ctx, case, variants, origin):
    """run one case; classify failures; returns the CaseResult"""
    try:
        res = E.run_case(case, variants)
    except Exception as ex:  # noqa: BLE001 - harness problem with this case, not a verdict
        raise MachineryError("e2e case crashed the harness: %r on %s" % (ex, json.dumps(case, default=repr)[:400])) from ex
    if not res.accepted:
        ctx.hist("e2e", "rejected")
        return res
    ctx.count(res.checked)
    ctx.hist("e2e", "accepted")
    for a in case["spec"]["args"]:
        ctx.hist("types", E.type_shape(a["type"])[:40])
    done = set()
    for variant, f in res.failures:
        vkey = json.dumps(variant, sort_keys=True)
        if vkey in done:
            continue
        done.add(vkey)
        small = E.shrink_case(case, variant, budget=60)
        fid = E.classify(small, variant)
        if fid and ctx.is_open(fid):
            ctx.known(fid, FINDING_TEXT.get(fid, fid))
            continue
        r2 = E.run_case(small, [variant])
        f2 = r2.failures[0][1] if r2.failures else f
        ctx.violation("re-parse of the %s output differs from the accepted configuration (%s: %s)" % (variant_name(variant), f2["stage"], f2["detail"][:160]),
                      {"kind": "e2e", "origin": origin, "case": small, "variant": variant, "failure": f2})
    return res


def variant_name(v):
    if v["kind"] == "dump":
        return "dump(format=%s%s)" % (v["format"], ", skip_default=True" if v["skip_default"] else "")
    if v["kind"] == "print_config":
        return "--print_config" + ("=" + v["flags"] if v["flags"] else "")
    if v["kind"] == "print_config_history":
        return "--print_config history %r on one parser object" % (v["seq"],)
    if v["kind"] == "skip_default_history":
        return "history of dump(skip_default=True) on one parser with the defaults changing through %s" % v["change"]
    if v["kind"] == "save_subconfig":
        return "save(format=%s, multifile) with sub-config files + parse_path" % v["format"]
    return "save(format=%s)+parse_path" % v["format"]


CLEAN_PROFILE = {"max_depth": 2, "union_family": False, "nonfinite": False, "p_default": 0.5, "dict_defaults": False, "mixed_literal": False}
WIDE_PROFILE = {"max_depth": 3, "union_family": True, "nonfinite": True, "p_default": 0.5, "dict_defaults": True, "mixed_literal": True,
                "decimal_inexact": True}


def enough(ctx):
    """the replay cap is reached with concrete failing inputs: further search adds nothing"""
    return sum(1 for v in ctx.violations if v["found_input"]) >= 5


# ================================================================ the check
def run(ctx: Ctx):
    repo_python_path()
    ctx.rule = ("documents: nested dict/list of scalars (depth <= 4; keys and values from the same string sources, ints, floats, bools, None; long, "
                "multi-line and non-simple keys included), non-trivial = distinct emitted text of depth >= 2 on which model and real dump agree; "
                "scalar layer: strings generated from the extracted automata (accepted words of every resolver/image DFA, words where either side is "
                "non-str, one-edit neighbours, YAML indicators), non-trivial = distinct non-empty string that the dumper writes plain (yaml) or that "
                "round-trips through the json text; end to end: (parser spec, accepted configuration) pairs over the type grammar, non-trivial = accepted "
                "configuration with at least one non-default leaf, distinct by canonical JSON of the case")
    ctx.assumptions = [
        "Y1: the YAML scanner returns a plain scalar verbatim and un-quotes a quoted scalar to the original text (exercised by the correspondence; U+0085 is a recorded exception)",
        "Y2: mappings/sequences round-trip structurally through PyYAML: now a theorem about the model (C01_yaml_doc_roundtrip, C01_json_doc_roundtrip_partial); the model is corresponded with yaml_dump / yaml_load / json dumpers on generated documents and perturbed layouts",
        "analyze_scalar (the emitter's permission to write plain) is a parameter of the model, observed on the real emitter",
        "strings are sequences of Unicode scalar values (no lone surrogates)",
        "instances of restricted types are compared as their base type: a value equal to the default is returned as the plain base type by adapt_typehints",
        "the typed<->plain layer (ser/adapt) is proved under C02/C10; here it is covered by the end-to-end oracle only",
        "yaml_comments (ruyaml) is outside the model: exercised on a letters-only sub-domain, three recorded findings",
    ]
    ctx.lean_build(extractors=["resolvers"])
    m = get_model(ctx)
    if m is None:
        # the extractor cannot read the resolvers any more (broken tie): the oracle still runs, with a static string palette
        run_oracle_only(ctx)
        return
    E._loader_nonstr[:] = [lambda s: py_tags(m, s)[1] != 0]
    rr = RealResolvers(m)
    def boost(cap=8):
        """search harder while a tie is broken and no concrete failing input has been found yet"""
        if any(v["found_input"] for v in ctx.violations):
            return 1
        return min(ctx.search_boost, cap)

    fixed_rng = random.Random(derive_seed(20260926, "C01-fixed"))

    import time as _time

    stage_t = {}
    _t0 = [_time.time()]

    def lap(name):
        now = _time.time()
        stage_t[name] = round(stage_t.get(name, 0) + now - _t0[0], 1)
        _t0[0] = now
        ctx.extra["stage_seconds"] = stage_t

    _t0[0] = ctx.t0
    lap("build")
    # ---------------- 2. extractor validation
    n, bad = validate_short_words(ctx, m, rr, 4 if ctx.thorough else 3)
    ctx.extra["validated_short_words"] = {"max_len": 4 if ctx.thorough else 3, "words": n, "patterns": len(m["comp_names"])}
    n2, bad2 = validate_random_walks(ctx, m, rr, ctx.rng, ctx.budget(150, 2500))
    ctx.extra["validated_random_walks"] = n2
    for b in (bad + bad2)[:3]:
        ctx.tie_break("extractor validation: %s of %s disagrees with the live regex/resolver" % (b[0], b[1]), json.dumps({"string": b[2], "codes": codes(b[2])}))

    lap("extractor_validation")
    # ---------------- strings
    from ..lib import corpus as corpus_mod

    corpus = corpus_mod.load(ctx.prop)
    corpus_strings = [s for c in corpus if c.get("kind") == "strings" for s in c["strings"]]
    sg_seed = E.StrGen(m, ctx.rng, avoid={0x85})
    sg_fixed = E.StrGen(m, fixed_rng)
    n_str = ctx.budget(2500, 12000) * (2 if boost() > 1 else 1)
    gen_strings = [sg_seed.sample() for _ in range(n_str)]
    # obligations that are false on the regenerated tables: their shortest words are tried first (after the corpus)
    from ..extractors import resolvers as rx_mod

    failing = rx_mod.failing_words(m, limit=12)
    ctx.extra["table_obligations_false"] = {k: v[:4] for k, v in failing.items()}
    model_witnesses = [w for w in failing.get("agreement", [])]
    for name, words in failing.items():
        if name == "agreement":
            continue
        for w in words[:3]:
            why = image_text_misread(m, name, w)
            ctx.count()
            if why:
                ctx.violation("text %r of the image language %s: %s" % (w, name, why), {"kind": "image", "image": name, "text": w})
    if model_witnesses:
        neigh = [sg_seed.neighbour(w) for w in model_witnesses for _ in range(6)]
        gen_strings = neigh + gen_strings
    all_strings = list(dict.fromkeys(corpus_strings + model_witnesses + gen_strings))
    for s in all_strings:
        ctx.hist("string_len", min(len(s), 20) // 4 * 4)

    # ---------------- 3. correspondence
    bad = correspond_yaml_strings(ctx, m, all_strings, "generated")
    n_pos = ctx.budget(500, 5000)
    bad += correspond_yaml_strings(ctx, m, all_strings[:n_pos], "generated", position="key")
    bad += correspond_yaml_strings(ctx, m, all_strings[:n_pos], "generated", position="item")
    json_strings = list(dict.fromkeys(corpus_strings + [s for s in gen_strings[: n_str // 2]] +
                                      ["".join(fixed_rng.choice(["a", " ", "\xe9", "\U0001f600", '"', "\\", "\n", "\t", "\x01", "\x1f", "/", "\ufeff", "\ud7ff", "\ue000", "\U0010ffff"])
                                               for _ in range(fixed_rng.randint(1, 6))) for _ in range(ctx.budget(200, 2000))]))
    lap("yaml_string_correspondence")
    bad += correspond_json_strings(ctx, m, json_strings, "generated")
    bad += correspond_dq(ctx, m, ctx.rng, ctx.budget(600, 6000))
    lap("json_dq_correspondence")
    # emitter / scanner model: exhaustive short strings over the indicator alphabet, then generated strings
    short = [""] + ["".join(w) for n in range(1, (4 if ctx.thorough else 3)) for w in itertools.product(EMIT_ALPHABET, repeat=n)]
    if not ctx.thorough:
        short = [w for w in short if len(w) <= 2] + [ctx.rng.choice(short) for _ in range(1500)]
    longish = [ctx.rng.choice(["word ", "x", "a b ", "'", '"', "\xe9 "]) * ctx.rng.randint(8, 40) for _ in range(30)]
    # long texts without a space are never folded (plain / single-quoted): inside the model whatever their length
    longish += [ctx.rng.choice(["/path/to", "1e3", "0x1f_", "a:b", "#", "it's", "\xe9", "a,b", "-", "\t", "\\", "x" * 30 + " "]) * ctx.rng.randint(9, 60)
                for _ in range(40)]
    bad += correspond_emitter(ctx, m, short + all_strings[: ctx.budget(700, 6000)] + longish, "generated")
    bad += correspond_lines(ctx, m, ctx.rng, ctx.budget(1500, 15000))
    ctx.extra["emitter_exhaustive"] = {"alphabet": len(EMIT_ALPHABET), "max_len": 3 if ctx.thorough else 2}
    lap("emitter_scanner_correspondence")
    # whole documents: block emitter / loader model vs yaml_dump / yaml_load, emitted texts and perturbed layouts
    doc_corpus = [D.decode_doc(c["doc"]) for c in corpus if c.get("kind") == "doc"]
    import sys as _sys

    bad += D.correspond_docs(ctx, m, _sys.modules[__name__], ctx.rng, sg_seed, ctx.budget(500, 5000) * boost(4), ctx.budget(1000, 10000) * boost(4), doc_corpus)
    bad += D.correspond_json_docs(ctx, m, _sys.modules[__name__], ctx.rng, sg_fixed if False else E.StrGen(m, ctx.rng), ctx.budget(300, 3000) * boost(4),
                                  ctx.budget(900, 9000) * boost(4), doc_corpus)
    lap("document_correspondence")
    # dump(skip_default=True): delKV / reparse vs _dump_delete_default_entries / parse_object, and the property under leafStable
    bad += S.correspond_skip_default(ctx, m, _sys.modules[__name__], ctx.rng, ctx.budget(400, 4000) * boost(4))
    lap("skip_default_correspondence")
    numbers = [None, True, False] + E.INTS + E.FLOATS + [math.inf, -math.inf, math.nan] + \
        [ctx.rng.randint(-10 ** 30, 10 ** 30) for _ in range(ctx.budget(100, 1000))] + \
        [ctx.rng.uniform(-1, 1) * 10 ** ctx.rng.randint(-300, 300) for _ in range(ctx.budget(200, 2000))]
    bad += correspond_numbers(ctx, m, numbers)
    for b in bad[:3]:
        ctx.tie_break("correspondence Scalar (model vs PyYAML/json as configured by _loaders_dumpers): %s" % b["what"], json.dumps(b, ensure_ascii=True, default=repr)[:1500])
    ctx.extra["correspondence_disagreements"] = len(bad)
    ctx.extra["strings"] = len(all_strings)

    # the strings themselves through the smallest real parser (the property, not the model)
    probe = corpus_strings + model_witnesses + gen_strings[: ctx.budget(150, 1500) * boost()]
    for s in dict.fromkeys(probe):
        if enough(ctx):
            break
        for fmt in ("yaml", "json"):
            ctx.count()
            why = real_str_roundtrip(s, fmt)
            if why:
                fid = known_scalar(ctx, s, fmt)
                if fid:
                    ctx.known(fid, FINDING_TEXT[fid])
                else:
                    scalar_violation(ctx, s, fmt, "str value %r: %s after dump(format=%s)" % (s, why, fmt), "probe")

    # whole documents through the real dump / load functions (yaml, json, json_indented), model-independent
    D.oracle_docs(ctx, ctx.rng, sg_seed, ctx.budget(500, 5000) * boost(4), doc_corpus)
    D.oracle_docs(ctx, fixed_rng, sg_fixed, ctx.budget(200, 2000))
    lap("numbers_and_probe")
    # ---------------- 4. end-to-end oracle
    variants = E.all_variants()
    n_corpus = 0
    for c in corpus:
        if c.get("kind") != "e2e":
            continue
        vs = variants if c.get("variants", "all") == "all" else c["variants"]
        res = judge_case(ctx, c["case"], vs, "corpus")
        n_corpus += 1
        if not res.accepted:
            raise MachineryError("corpus case is no longer accepted: %s (%s)" % (c.get("name"), res.reject_reason))
        ctx.nontrivial("e:" + json.dumps(c["case"], sort_keys=True, default=repr))
    n_seed = ctx.budget(220, 3000) * boost(3)
    accepted = 0
    for i in range(n_seed):
        if enough(ctx):
            break
        case = E.gen_case(ctx.rng, sg_seed, CLEAN_PROFILE)
        res = judge_case(ctx, case, E.pick_variants(variants, ctx.rng), "generated")
        if res.accepted:
            accepted += 1
            if case["obj"]:
                ctx.nontrivial("e:" + json.dumps(case, sort_keys=True, default=repr))
            if i < 3:
                ctx.sample({"spec": [(a["name"], E.type_shape(a["type"])) for a in case["spec"]["args"]], "obj": case["obj"]})
    lap("e2e_corpus_and_seed_driven")
    # wider exploration with a fixed internal seed (known-finding classes allowed; anything else is a violation)
    n_wide = ctx.budget(140, 2200) * boost(3)
    for i in range(n_wide):
        if enough(ctx):
            break
        case = E.gen_case(fixed_rng, sg_fixed, WIDE_PROFILE)
        res = judge_case(ctx, case, E.pick_variants(variants, fixed_rng), "wide-fixed-seed")
        if res.accepted and case["obj"]:
            ctx.nontrivial("e:" + json.dumps(case, sort_keys=True, default=repr))
    ctx.extra["e2e"] = {"corpus": n_corpus, "seed_driven": n_seed, "seed_driven_accepted": accepted, "wide_fixed_seed": n_wide,
                        "variants": [variant_name(v) for v in variants]}

    lap("e2e_wide")
    # ---------------- 5. fixed demos and open findings
    ctx.replay_fixed_demos()
    for f in ctx.open_findings():
        w = f["witness"]
        if replay_witness(w):
            ctx.known(f["id"], f["description"])
        else:
            ctx.stale_findings.append(f["id"])


def image_text_misread(m, name, text):
    """a text of an image language (what a representer / a JSON writer can emit for a tag) on the live loader"""
    from ..extractors.resolvers import IMAGES
    from jsonargparse import _loaders_dumpers as ld

    tag = next(t for n, _, t in IMAGES if n == name)
    want = TAG_TYPES[tag]
    try:
        got = ld.loaders["yaml"]('{"k": %s}' % text)["k"]
    except Exception as ex:  # noqa: BLE001
        return "the loader raises %s" % type(ex).__name__
    if type(got) is not want:
        return "the loader reads %r (%s), expected %s" % (got, type(got).__name__, tag)
    return None


class FallbackGen:
    """string source used when the automata cannot be extracted"""

    def __init__(self, rng, strings):
        self.rng, self.strings = rng, strings or ["1e3", "null", "a"]

    def neighbour(self, s):
        i = self.rng.randint(0, len(s))
        return s[:i] + self.rng.choice(list("0123456789eE+-_.:xa ")) + s[i:]

    def sample(self):
        s = self.rng.choice(self.strings)
        while self.rng.random() < 0.3:
            s = self.neighbour(s)
        return s


def run_oracle_only(ctx):
    from ..lib import corpus as corpus_mod

    corpus = corpus_mod.load(ctx.prop)
    strings = [s for c in corpus if c.get("kind") == "strings" for s in c["strings"]]
    for s in strings:
        for fmt in ("yaml", "json"):
            ctx.count()
            why = real_str_roundtrip(s, fmt)
            if why and not known_scalar(ctx, s, fmt):
                scalar_violation(ctx, s, fmt, "str value %r: %s after dump(format=%s)" % (s, why, fmt), "corpus")
    sg = FallbackGen(ctx.rng, strings)
    D.oracle_docs(ctx, ctx.rng, sg, ctx.budget(500, 5000), [D.decode_doc(c["doc"]) for c in corpus if c.get("kind") == "doc"])
    variants = [v for v in E.all_variants() if not E._is_comments(v)]
    for c in corpus:
        if c.get("kind") == "e2e":
            judge_case(ctx, c["case"], variants, "corpus")
    for _ in range(ctx.budget(600, 6000)):
        if enough(ctx):
            break
        judge_case(ctx, E.gen_case(ctx.rng, sg, CLEAN_PROFILE), variants, "generated")
    ctx.replay_fixed_demos()


def value_misread(py, fmt):
    """dump {'k': v} with the live dumper of the format and read it back with the live yaml loader"""
    import ast

    from jsonargparse import _loaders_dumpers as ld

    v = {"inf": math.inf, "-inf": -math.inf, "nan": math.nan}.get(py)
    if v is None:
        v = ast.literal_eval(py)
    back = ld.loaders["yaml"](ld.dumpers[fmt]({"k": v}))["k"]
    return None if E.canon(back) == E.canon(v) else "re-read as %r" % (back,)


def replay_witness(w):
    """True if the witness of a finding still fails on the real code"""
    if w.get("kind") == "scalar":
        return real_str_roundtrip(w["s"], w["format"]) is not None
    if w.get("kind") == "e2e":
        res = E.run_case(w["case"], [w["variant"]])
        return bool(res.failures)
    if w.get("kind") == "doc":
        return D.doc_roundtrip(D.decode_doc(w["doc"]), w["format"]) is not None
    raise MachineryError("unknown witness kind %r" % (w.get("kind"),))


def replay(ctx: Ctx, body):
    repo_python_path()
    r = body["replay"]
    kind = r.get("kind")
    if kind == "scalar":
        s = "".join(chr(c) for c in r["codes"]) if "codes" in r else r["s"]
        why = real_str_roundtrip(s, r["format"], r.get("position", "value"))
        print("str %r (%s position), dump(format=%s): %s" % (s, r.get("position", "value"), r["format"], why or "round trip holds"))
        return 1 if why else 0
    if kind == "e2e":
        try:
            m = get_model(ctx)
            if m is not None:
                E._loader_nonstr[:] = [lambda s: py_tags(m, s)[1] != 0]
        except Exception:  # noqa: BLE001
            pass
        res = E.run_case(r["case"], [dict(r["variant"], force=True)])
        print("case:", json.dumps(r["case"], ensure_ascii=True, default=repr))
        print("variant:", variant_name(r["variant"]))
        if not res.accepted:
            print("configuration is not accepted any more:", res.reject_reason)
            return 0
        print("accepted configuration:", res.cfg0)
        for v, f in res.failures:
            print("FAILS:", json.dumps(f, ensure_ascii=True))
        if not res.failures:
            print("round trip holds")
        return 1 if res.failures else 0
    if kind == "skipdef":
        return S.replay_skipdef(r)
    if kind == "doc":
        d = D.decode_doc(r["doc"])
        why = D.doc_roundtrip(d, r["format"])
        print("document %r, format %s: %s" % (d, r["format"], why or "round trip holds"))
        return 1 if why else 0
    if kind == "image":
        m = get_model(ctx)
        why = image_text_misread(m, r["image"], r["text"])
        print("text %r (%s): %s" % (r["text"], r["image"], why or "read with the right tag"))
        return 1 if why else 0
    if kind == "value":
        why = value_misread(r["value"], r["format"])
        print("value %s, format %s: %s" % (r["value"], r["format"], why or "round trip holds"))
        return 1 if why else 0
    if kind == "demo":
        env = dict(os.environ, PYTHONPATH=REPO)
        p = subprocess.run(["/venv/bin/python", os.path.join(VERIF, r["demo"])], env=env)
        return 1 if p.returncode != 0 else 0
    print(json.dumps(r, indent=1)[:3000])
    print("this replay records a broken tie (no concrete failing input); re-run ./check C01")
    return 1


_ = itertools

"""Restricted types for the C02 / C10 generators: a fixed pool of restricted string and number types (the ones that
ship with jsonargparse and user-defined ones, among them string patterns that are NOT anchored with `^`, patterns
without `$`, a pre-compiled pattern with flags, `or`-joined and single-comparison number types), their
specification in the wire form the Lean driver understands (Drv/Adapt.lean, "rspec"), and candidate values.

The predicate of a restricted type is never computed by asking the class itself: the Lean model evaluates the
specification (Core/AdaptRestr.lean: `Re.accepts` = a match that starts at position 0, the comparisons joined by
and / or on exact decimals).  The translation of a Python pattern into the model's `Re` goes through CPython's own
parser (`re._parser`), ASCII subjects only.
"""
from __future__ import annotations

import re

from ..lib.common import MachineryError

DIGIT = [[48, 57]]
SPACE = [[9, 13], [32, 32]]
WORD = [[48, 57], [65, 90], [95, 95], [97, 122]]
SUPPORTED_FLAGS = re.UNICODE | re.IGNORECASE | re.VERBOSE | re.DOTALL | re.MULTILINE | re.ASCII


class Unsupported(Exception):
    pass


def _cls(neg, ranges):
    return {"k": "cls", "neg": bool(neg), "r": [[int(a), int(b)] for a, b in ranges]}


def _cat(items):
    items = [x for x in items if x["k"] != "eps"]
    if not items:
        return {"k": "eps"}
    if len(items) == 1:
        return items[0]
    return {"k": "cat", "a": items}


def _fold(ranges, flags):
    if not flags & re.IGNORECASE:
        return ranges
    out = list(ranges)
    for lo, hi in ranges:
        for a, b, d in ((65, 90, 32), (97, 122, -32)):
            x, y = max(lo, a), min(hi, b)
            if x <= y:
                out.append((x + d, y + d))
    return out


def _seq(sub, flags):
    c = re._constants
    out = []
    for op, av in sub:
        if op is c.LITERAL:
            out.append(_cls(False, _fold([(av, av)], flags)))
        elif op is c.NOT_LITERAL:
            out.append(_cls(True, _fold([(av, av)], flags)))
        elif op is c.ANY:
            out.append(_cls(True, [] if flags & re.DOTALL else [(10, 10)]))
        elif op is c.IN:
            neg, ranges = False, []
            for iop, iav in av:
                if iop is c.NEGATE:
                    neg = True
                elif iop is c.LITERAL:
                    ranges.append((iav, iav))
                elif iop is c.RANGE:
                    ranges.append(tuple(iav))
                elif iop is c.CATEGORY and iav is c.CATEGORY_DIGIT:
                    ranges.extend(tuple(r) for r in DIGIT)
                elif iop is c.CATEGORY and iav is c.CATEGORY_SPACE:
                    ranges.extend(tuple(r) for r in (SPACE if flags & re.ASCII else SPACE + [[28, 31]]))
                elif iop is c.CATEGORY and iav is c.CATEGORY_WORD:
                    ranges.extend(tuple(r) for r in WORD)
                else:
                    raise Unsupported("class item %r" % ((iop, iav),))
            out.append(_cls(neg, _fold(ranges, flags)))
        elif op in (c.MAX_REPEAT, c.MIN_REPEAT):
            lo, hi, body = av
            b = _cat(_seq(body, flags))
            if lo > 8 or (hi is not c.MAXREPEAT and hi > 8):
                raise Unsupported("large counted repeat")
            items = [b] * lo
            if hi is c.MAXREPEAT:
                items.append({"k": "star", "a": [b]})
            else:
                items.extend([{"k": "alt", "a": [b, {"k": "eps"}]}] * (hi - lo))
            out.append(_cat(items) if items else {"k": "eps"})
        elif op is c.SUBPATTERN:
            _, add_flags, del_flags, body = av
            if add_flags or del_flags:
                raise Unsupported("inline flags")
            out.append(_cat(_seq(body, flags)))
        elif op is c.BRANCH:
            out.append({"k": "alt", "a": [_cat(_seq(x, flags)) for x in av[1]]})
        elif op is c.AT and av is c.AT_BEGINNING:
            out.append({"k": "mbol" if flags & re.MULTILINE else "bol"})
        elif op is c.AT and av is c.AT_BEGINNING_STRING:
            out.append({"k": "bol"})
        elif op is c.AT and av is c.AT_END:
            out.append({"k": "meol" if flags & re.MULTILINE else "eol"})
        else:
            raise Unsupported("regex node %r" % ((op, av),))
    return out


def regex_to_re(pattern: str, flags: int = 0):
    parsed = re._parser.parse(pattern, flags)
    flags = parsed.state.flags
    if flags & ~SUPPORTED_FLAGS:
        raise Unsupported("flags %d" % (flags & ~SUPPORTED_FLAGS))
    return _cat(_seq(parsed, flags))


# ---------------------------------------------------------------- the pool
# APPEND ONLY: the position of a type in STR_TYPES + NUM_TYPES is its number in descriptors ({"rn": [base, k]}), which
# appear in corpus/C02/restricted-nested.json, in replay files and in the witness of C10-union-restricted-number-second-pass.
# (New string types would shift the number types: add new types of either kind at the END of NUM_TYPES' list is not
# possible either - so extend by a third list if ever needed.)
# string types: (name | library name, pattern, flags, compiled?, matching examples, non-matching examples)
STR_TYPES = [
    ("lib:NotEmptyStr", None, 0, False, ["a", " x ", "0"], ["", " ", "   "]),
    ("lib:Email", None, 0, False, ["a@b.c", "x.y@z.org"], ["a@b", "@b.c", "a b@c.d", "abc"]),
    ("C02Hex", r"[0-9a-f]+$", 0, False, ["00ff", "0", "deadbeef", "1"], ["xx00ff", "0x1f", "zz", "00fg", ""]),
    ("C02Ver", r"v[0-9]+\.[0-9]+", 0, False, ["v1.0", "v12.34", "v1.0-rc1"], ["rev1.2", "release-v3.4", "1.0", "v1", "V1.0"]),
    ("C02Code", r"[A-Z]{2}-[0-9]+$", 0, True, ["AB-12", "ZZ-0"], ["xAB-12", "AB-12x", "ab-12", "A-1", "AB12"]),
    ("C02Word", r"^[a-z]+$", 0, False, ["abc", "x"], ["Abc", "ab c", "1a", "", "abc1"]),
    ("C02Key", r"[a-z_]+(\.[a-z_]+)*$", 0, False, ["a.b", "ab_c", "x.y.z"], [".a", "1.a", "a.", "a..b", "A.b"]),
    ("C02OnOff", r"(on|off)$", 0, False, ["on", "off"], ["onn", "xon", " off", "o", "ON"]),
    ("C02Num", r"\d+", 0, False, ["12", "7ab", "0"], ["ab7", " 12", "x", ""]),
    ("C02At", r".+@.+", 0, False, ["a@b", "xx@y@z"], ["@b", "a@", "@", "ab"]),
    ("C02CI", r"[a-c]+$", re.IGNORECASE, True, ["abc", "ABC", "aBc"], ["xabc", "abcd", "", "d"]),
    ("C02Opt", r"x*y?$", 0, False, ["", "xx", "xxy", "y"], ["yx", "zxy", "xyy", "a"]),
]
# number types: (name | library name, base, [(op, ref)], join)
NUM_TYPES = [
    ("lib:PositiveInt", int, [(">", 0)], "and"),
    ("lib:NonNegativeInt", int, [(">=", 0)], "and"),
    ("lib:PositiveFloat", float, [(">", 0)], "and"),
    ("lib:NonNegativeFloat", float, [(">=", 0)], "and"),
    ("lib:ClosedUnitInterval", float, [(">=", 0), ("<=", 1)], "and"),
    ("lib:OpenUnitInterval", float, [(">", 0), ("<", 1)], "and"),
    ("C02Band", int, [(">=", -5), ("<", 10)], "and"),
    ("C02Outside", int, [("<", 0), (">=", 10)], "or"),
    ("C02NotZero", float, [("!=", 0.0)], "and"),
    ("C02Seven", int, [("==", 7)], "and"),
    ("C02HalfOpen", float, [(">", -1.5), ("<=", 2.5)], "and"),
    ("C02Far", float, [("<=", -1.0), (">=", 1e3)], "or"),
]
N_STR = len(STR_TYPES)
N_TYPES = N_STR + len(NUM_TYPES)

_CLS: dict = {}
_SPEC: dict = {}


def base_tag(k):
    if k < N_STR:
        return "str"
    return "int" if NUM_TYPES[k - N_STR][1] is int else "float"


def desc(k):
    return {"rn": [base_tag(k), k]}


def cls_of(k):
    """the restricted type number k (created through the public constructors on first use; the library registers
    restricted types by their restriction, so a second call returns the same class)"""
    if k in _CLS:
        return _CLS[k]
    import jsonargparse.typing as jt

    if k < N_STR:
        name, pat, flags, compiled, _g, _b = STR_TYPES[k]
        if name.startswith("lib:"):
            T = getattr(jt, name[4:])
        else:
            T = jt.restricted_string_type(name, re.compile(pat, flags) if compiled else pat)
    else:
        name, base, rs, join = NUM_TYPES[k - N_STR]
        if name.startswith("lib:"):
            T = getattr(jt, name[4:])
        else:
            T = jt.restricted_number_type(name, base, rs if len(rs) > 1 else rs[0], join=join)
    _CLS[k] = T
    return T


def index_of(T):
    for k in range(N_TYPES):
        if _CLS.get(k) is T:
            return k
    for k in range(N_TYPES):
        if cls_of(k) is T:
            return k
    return None


def _num_wire(x):
    if isinstance(x, float):
        return {"f": repr(x)}
    return int(x)


def spec(k):
    """wire form of the specification, read from what the harness DECLARED for its own types and from the attributes
    (`_regex`, `_restrictions`, `_join`) of the types that ship with the library"""
    if k in _SPEC:
        return _SPEC[k]
    import operator

    if k < N_STR:
        name, pat, flags, _c, _g, _b = STR_TYPES[k]
        if name.startswith("lib:"):
            rx = cls_of(k)._regex
            pat, flags = rx.pattern, rx.flags
        try:
            sp = {"re": regex_to_re(pat, flags)}
        except Unsupported as ex:
            raise MachineryError("pattern of restricted type %d outside the translated fragment: %s" % (k, ex))
    else:
        name, base, rs, join = NUM_TYPES[k - N_STR]
        if name.startswith("lib:"):
            T = cls_of(k)
            sym = {operator.gt: ">", operator.ge: ">=", operator.lt: "<", operator.le: "<=", operator.eq: "==", operator.ne: "!="}
            rs, join = [(sym[c], r) for c, r in T._restrictions], T._join
        sp = {"num": {"or": join == "or", "rs": [[op, _num_wire(ref)] for op, ref in rs]}}
    _SPEC[k] = sp
    return sp


def declared(k):
    """(base, [(op, ref)], join) of a number type / (pattern, flags, good, bad) of a string type, as declared above"""
    return STR_TYPES[k] if k < N_STR else NUM_TYPES[k - N_STR]


def py_num_ok(k, x):
    """the harness's own reading of a number restriction (only used to steer the generator towards conforming values)"""
    import operator

    ops = {">": operator.gt, ">=": operator.ge, "<": operator.lt, "<=": operator.le, "==": operator.eq, "!=": operator.ne}
    _n, _b, rs, join = NUM_TYPES[k - N_STR]
    checks = [ops[o](x, r) for o, r in rs]
    return any(checks) if join == "or" else all(checks)


INT_CANDS = [-7, -5, -1, 0, 1, 2, 7, 9, 10, 11, 42, 1000]
FLT_CANDS = [-2.0, -1.5, -1.0, -0.5, 0.0, 1e-7, 0.5, 1.0, 2.5, 3.25, 999.5, 1000.0, 1e16]
JUNK_PRE = ["x", "zz", "0x", " ", "g-", "re", "_", "\n"]
JUNK_POST = ["x", " ", "!", "\n", "\n\n", ".", "0"]


def gen_value(rng, k, conforming, forms):
    """a wire value for the restricted type k: conforming (by the declaration above), or a near miss"""
    if k < N_STR:
        _n, _p, _f, _c, good, bad = STR_TYPES[k]
        if conforming:
            return rng.choice(good)
        r = rng.random()
        if r < 0.3:
            return rng.choice(JUNK_PRE) + rng.choice(good)      # merely CONTAINS a match (what `search` would accept)
        if r < 0.5:
            return rng.choice(good) + rng.choice(JUNK_POST)     # a match followed by junk (what a missing `$` lets through)
        if r < 0.8:
            return rng.choice(bad)
        return rng.choice([5, None, True, [rng.choice(good)], {"f": "1.5"}])
    base = NUM_TYPES[k - N_STR][1]
    cands = INT_CANDS if base is int else FLT_CANDS
    ok = [x for x in cands if py_num_ok(k, x)]
    ko = [x for x in cands if not py_num_ok(k, x)]
    if conforming and ok:
        x = rng.choice(ok)
        if forms:
            r = rng.random()
            if r < 0.3:
                return str(x) if base is int else repr(x)
            if r < 0.45 and base is int:
                return {"f": repr(float(x))}
            if r < 0.45 and base is float and float(x).is_integer() and abs(x) < 2 ** 53:
                return int(x)
        return _num_wire(x)
    r = rng.random()
    if r < 0.15 and base is int:
        # a float that is not an integer (the `not float.is_integer(v)` guard), as a number or as text
        return rng.choice([{"f": "2.5"}, {"f": "7.5"}, {"f": "-0.5"}, {"f": "9.99"}, {"f": "1000.5"}, "2.5", "7.0", "1e1"])
    if r < 0.6 and ko:
        x = rng.choice(ko)
        if forms and rng.random() < 0.3:
            return str(x) if base is int else repr(x)
        return _num_wire(x)
    if r < 0.8:
        return rng.choice([True, False, None, "abc", "", "1.5", {"f": "0.5"}, {"f": "nan"}, {"f": "inf"}, [1], "0x10", "1_0", " 3 "])
    return _num_wire(rng.choice(cands))


def indices_in(d, out=None):
    """numbers of the restricted types that occur in a type descriptor"""
    out = set() if out is None else out
    if isinstance(d, dict):
        if "rn" in d:
            out.add(d["rn"][1])
        else:
            for v in d.values():
                if isinstance(v, list):
                    for x in v:
                        indices_in(x, out)
                else:
                    indices_in(v, out)
    return out


def rspec_of(d):
    return [[k, spec(k)] for k in sorted(indices_in(d))]

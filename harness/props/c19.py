"""C19 — Path types accept exactly what the mode says; relative paths follow the config.

Pipeline
 (1) regenerate Gen/PathFlags (rules of Path._check_mode, the flag tests of Path.__init__ in source
     order) and build Props/C19 (accept_iff partial + refutation witnesses, no OS error escapes,
     abs/rel, rel_to_cfg, cwd_restored);
 (2) path stage, in a forked child that dropped privileges to uid/gid 65534 (the sandbox runs as
     root, for which os.access is vacuous): EVERY mode string of <= 3 (thorough: <= 4) flags x a
     fixture of path kinds x spellings x 2 working directories.  `Path(p, mode)` outcome
     (ok / PathError message class / other exception) is compared with the Lean model
     (`checkPath` on facts taken independently with os.stat/os.access/os.path.realpath) and with an
     oracle `sat_doc` written from the class docstring flag by flag;
 (3) load stage, same kind of child: generated programs of 1-3 levels of config files in different
     directories referencing each other and path values relatively (ActionConfigFile, nested
     ActionParser = _ActionConfigLoad, List[Path_fr]/Dict[str, Path_fr] with enable_path =
     ActionTypeHint._check_type, parse_path, default_config_files), including failing ones;
     `.relative/.absolute/.cwd` of every parsed path value, os.getcwd() and current_path_dir after
     the call are compared with the model's `runItems` and with the static expectation of the generator;
 (3b) 30% of the load programs live in a tree with three directory symlinks and spell files through them (op "runfs":
     the model `runItemsF` runs over the kernel's directory automaton measured with os.path.realpath in the child); ~4% are the
     `<link>/..` shapes of the repaired finding F30 (decoys in the lexically normalised directory / that directory missing);
 (3c) default stage: `checkTypePath` vs parse_args of a path-typed argument with/without a Path default (open finding
     C19-default-same-spelling, exact grid); Path(Path, cwd=…) copies vs `mkPathArg`;
 (4) replay of the repaired defect F16 and of the open findings.
"""
from __future__ import annotations

import atexit
import itertools
import json
import os
import re
import shutil
import socket
import stat
import sys
import tempfile
import traceback

from ..lib.common import Ctx, MachineryError, repo_python_path

MANIFEST = {
    "engine": "E6-PathMode",
    "technique": "Lean 4 decision-table proof over a source-order transcription of Path.__init__ + bracket model of change_to_path_dir, "
                 "as strings and over a file-system model with symbolic links (kernel resolution as an automaton on physical directories, measured "
                 "with realpath on every run); regenerated flag table and pinned statements; exhaustive differential correspondence under an unprivileged uid",
    "text": "Theorems in lean/Jap/Props/C19.lean prove, for all modes and all well-formed file-system snapshots, that the model of Path.__init__ "
            "accepts iff every flag of the mode is satisfied as the class docstring describes it (full strength; the pre-fix code of the two repaired "
            "defects F19c/F19f is kept as a regression record), that every rejection is one of the fifteen PathError "
            "raises (no OSError escapes), the absolute/relative bookkeeping (a Path given a Path is the identity), and for all nested load programs, "
            "failing ones included, that every path value is resolved against the directory of its innermost enclosing config file and that cwd and "
            "current_path_dir are restored.  Second model (Core/PathModeFS): the same loader over ANY file system with directory symlinks - os.chdir "
            "resolved by the kernel, os.path.dirname/join lexical: cwd AND current_path_dir are restored for every file system, program and "
            "failure point (os.chdir raising included); every relative path at any depth resolves against the physical directory of the file that "
            "spells it (the link's own directory for a symlinked file) with NO hypothesis on file system or spellings (full strength since the repair "
            "6e92c59 of finding F30), the load succeeds iff no item fails and the bracketed files exist; the bracket before the repair (abspath before "
            "chdir, set before try) is kept as oldBracket with the two refutations as regression witnesses and lexOK as the exact condition under "
            "which it agreed.  Exact characterisations of the open findings C19-listfile-reresolved (accepted iff the spelling leads back "
            "to the list file's directory) and C19-default-same-spelling (checkTypePath).  The model is "
            "tied to the code by regenerating the rules of _check_mode, the flag tests and the relative/absolute/cwd statements of __init__, every statement "
            "of change_to_path_dir, parse_value_or_config, _ActionConfigLoad._load_config and every `with change_to_path_dir(...)` site of the package into "
            "Gen/PathFlags (tie theorems), by an exhaustive comparison "
            "of Path(p, mode) over every mode string of <=3 (thorough <=4) flags x a fixture of path kinds x working directories, run under uid 65534, "
            "and by generated nested config-file programs (30% of them in directory trees with symlinked directories, whose automaton is measured with "
            "os.path.realpath and handed to the model) run through parse_args/parse_path/get_defaults/relative_path_context.",
    "level_note": "Trusted: Lean kernel; axioms propext/Quot.sound/Classical.choice only; the extractor; the correspondence harness; os.path.expanduser/"
                  "realpath/stat/access as the oracle of the file system; one consistent snapshot of the file system per constructor call (no races); "
                  "the kernel resolves a path component by component (FS.step) and os.getcwd() names the directory the process is in (FS.Lawful). "
                  "Outside: URL and fsspec paths (flags u/s only permit), Windows, skip_check, file contents reached through a second resolution "
                  "of a list-file spelling that names another existing file.",
}

NOBODY = 65534

# ---------------------------------------------------------------- child processes


def in_child(fn, *args, drop=True):
    """run fn(*args) in a forked child (optionally as uid/gid 65534), return its JSON-able result"""
    sys.stdout.flush()
    sys.stderr.flush()
    r, w = os.pipe()
    pid = os.fork()
    if pid == 0:
        try:
            os.close(r)
            if drop and os.getuid() == 0:
                os.setgroups([])
                os.setgid(NOBODY)
                os.setuid(NOBODY)
            out = {"result": fn(*args)}
        except BaseException:  # noqa: BLE001
            out = {"child_error": traceback.format_exc()}
        try:
            data = json.dumps(out).encode("utf-8", "surrogatepass")
            with os.fdopen(w, "wb") as f:
                f.write(data)
        finally:
            os._exit(0)
    os.close(w)
    with os.fdopen(r, "rb") as f:
        data = f.read()
    os.waitpid(pid, 0)
    if not data:
        raise MachineryError("child process died without a result")
    out = json.loads(data.decode("utf-8", "surrogatepass"))
    if "child_error" in out:
        raise MachineryError("child process failed: " + out["child_error"][-3000:])
    return out["result"]


_ROOTS = []


def _cleanup():
    for r in _ROOTS:
        shutil.rmtree(r, ignore_errors=True)


atexit.register(_cleanup)


def make_root():
    """world-traversable scratch directory owned by the unprivileged user"""
    root = os.path.realpath(tempfile.mkdtemp(dir="/tmp", prefix="c19-"))
    os.chmod(root, 0o755)
    if os.getuid() == 0:
        os.chown(root, NOBODY, NOBODY)
    _ROOTS.append(root)
    return root


def warm_up():
    """load every lazily imported module while the interpreter's directories are still readable"""
    from typing import Dict, List, Optional  # noqa: F401

    import jsonargparse
    import jsonargparse.typing
    from jsonargparse import ActionConfigFile, ActionParser, ArgumentParser
    from jsonargparse.typing import Path_fr

    d = tempfile.mkdtemp(dir="/tmp", prefix="c19w-")
    _ROOTS.append(d)
    cwd0 = os.getcwd()

    def quiet(fn, *a):
        # only the imports matter here; what the calls return is judged later, in the children
        try:
            fn(*a)
        except Exception:  # noqa: BLE001
            pass

    try:
        with open(os.path.join(d, "t.txt"), "w") as f:
            f.write("x\n")
        with open(os.path.join(d, "l.txt"), "w") as f:
            f.write("t.txt\n")
        with open(os.path.join(d, "i.yaml"), "w") as f:
            f.write("pa: t.txt\n")
        with open(os.path.join(d, "c.yaml"), "w") as f:
            f.write("pa: t.txt\nlst: l.txt\ndct: {k: t.txt}\ninner: i.yaml\n")
        with open(os.path.join(d, "bad.yaml"), "w") as f:
            f.write("{\n")
        for kw in ({}, {"default_config_files": [os.path.join(d, "c.yaml")]}):
            p = build_parser(3, **kw)
            quiet(p.parse_args, ["--cfg", os.path.join(d, "c.yaml")])
            quiet(p.parse_path, os.path.join(d, "c.yaml"))
            quiet(p.parse_args, ["--cfg", os.path.join(d, "nope.yaml")])
            quiet(p.parse_args, ["--cfg", os.path.join(d, "bad.yaml")])
            quiet(p.parse_args, ["--pa", os.path.join(d, "nope.txt")])
            quiet(p.parse_args, ["--zz", "1"])
        os.environ["C19X_PA"] = os.path.join(d, "t.txt")
        quiet(build_parser(3, env_prefix="C19X", default_env=True).parse_args, ["--pb", os.path.join(d, "t.txt")])
        del os.environ["C19X_PA"]
        for m in ("fr", "F", "dcc", "fc"):
            quiet(jsonargparse.Path, os.path.join(d, "nope", "x"), m)
    finally:
        os.chdir(cwd0)
        import jsonargparse._util as U

        if U.current_path_dir.get() is not None:
            U.current_path_dir.set(None)
        shutil.rmtree(d, ignore_errors=True)


# ---------------------------------------------------------------- modes


def all_mode_strings(alphabet, n):
    for k in range(0, n + 1):
        for tup in itertools.product(alphabet, repeat=k):
            yield "".join(tup)


def canon_mode(m):
    return "".join(sorted(m))


# ---------------------------------------------------------------- fixture of path kinds

PE_CLASSES = [
    ("is not creatable since parent directory does not exist", "pe1"),
    ("is not creatable since parent directory not writeable", "pe2"),
    ("is not creatable since path already exists", "pe3/4"),
    ("does not exist", "pe5"),
    ("Path is not a directory", "pe6"),
    ("Path is not a file", "pe7"),
    ("is not readable", "pe8"),
    ("is not writeable", "pe9"),
    ("is not executable", "pe10"),
    ("Path is a directory", "pe11"),
    ("Path is a file", "pe12"),
    ("is readable", "pe13"),
    ("is writeable", "pe14"),
    ("is executable", "pe15"),
]
MODEL_CLASS = {"pe3": "pe3/4", "pe4": "pe3/4"}
# kinds whose message starts with "Directory"/"File" according to 'd' in mode
PTYPE_KINDS = {"pe1", "pe2", "pe3/4", "pe5", "pe8", "pe9", "pe10", "pe13", "pe14", "pe15"}


def classify_error(ex, mode):
    """PathError message -> class; anything else -> exc:<type>"""
    from jsonargparse._util import PathError

    if not isinstance(ex, PathError):
        return "exc:" + type(ex).__name__
    head = str(ex).split(": ")[0]
    for text, cls in PE_CLASSES:
        if head.endswith(text):
            if cls in PTYPE_KINDS:
                want = ("Directory " if "d" in mode else "File ") + text
                if head != want:
                    return "pe?:" + head[:60]
            return cls
    return "pe?:" + head[:60]


def build_kinds(root):
    """create the fixture below root (as the unprivileged user); returns names of the entries below root/k"""
    K = os.path.join(root, "k")
    os.makedirs(os.path.join(root, "w1"))
    os.makedirs(os.path.join(root, "w2", "sub"))
    os.makedirs(os.path.join(root, "home"))
    os.mkdir(K)

    def touch(p, mode=0o644, text="x\n"):
        with open(p, "w") as f:
            f.write(text)
        os.chmod(p, mode)

    touch(os.path.join(root, "home", "hfile"))
    touch(os.path.join(K, "file"))
    os.mkdir(os.path.join(K, "dir"))
    touch(os.path.join(K, "dir", "inside"))
    os.mkfifo(os.path.join(K, "fifo"), 0o644)
    os.chmod(os.path.join(K, "fifo"), 0o644)
    s = socket.socket(socket.AF_UNIX)
    s.bind(os.path.join(K, "sock"))
    s.close()
    os.symlink("file", os.path.join(K, "ln_file"))
    os.symlink("dir", os.path.join(K, "ln_dir"))
    os.symlink("nothing", os.path.join(K, "dangling"))
    os.symlink("fifo", os.path.join(K, "ln_fifo"))
    os.mkdir(os.path.join(K, "ro"))
    os.symlink("ro/newfile", os.path.join(K, "ln_ro"))      # dangling into a read-only directory
    os.symlink("nodir2/newfile", os.path.join(K, "ln_nodir"))  # dangling, target's parent missing
    touch(os.path.join(K, "f_r0"), 0o200)
    touch(os.path.join(K, "f_w0"), 0o400)
    touch(os.path.join(K, "f_x1"), 0o755)
    touch(os.path.join(K, "f_000"), 0o000)
    touch(os.path.join(K, "f_wx"), 0o300)
    for name, mode in (("d_r0", 0o300), ("d_w0", 0o500), ("d_x0", 0o600), ("d_000", 0o000), ("d_rx", 0o500)):
        d = os.path.join(K, name)
        os.mkdir(d)
        touch(os.path.join(d, "inside"))
        os.mkdir(os.path.join(d, "subdir"))
    names = [
        "file", "dir", "fifo", "sock", "ln_file", "ln_dir", "ln_fifo", "dangling", "ln_ro", "ln_nodir",
        "missing", "nodir/missing", "nodir/a/b/missing", "file/below", "file/a/below", "fifo/below", "ln_file/below",
        "dir/inside", "dir/missing", "dir/nodir/missing", "ln_dir/inside", "ln_dir/missing",
        "f_r0", "f_w0", "f_x1", "f_000", "f_wx",
        "d_r0", "d_w0", "d_x0", "d_000",
        "d_w0/inside", "d_w0/missing", "d_w0/nodir/missing", "d_w0/subdir",
        "d_x0/inside", "d_x0/missing", "d_x0/subdir/missing", "d_x0/nodir/missing",
        "d_r0/inside", "d_r0/missing",
        "d_000/inside", "d_000/nodir/missing",
        "ro/missing", "ro/nodir/missing",
        "dir/", "file/", "dir/.", "dir/..", "dir/../file", "missing/",
    ]
    # permissions last (the entries above had to be created first)
    os.chmod(os.path.join(K, "ro"), 0o555)
    for name, mode in (("d_r0", 0o300), ("d_w0", 0o500), ("d_x0", 0o600), ("d_000", 0o000)):
        os.chmod(os.path.join(K, name), mode)
    return names


def spellings(root, names, quick_subset=None):
    """[(label, spelling)]: absolute, relative from w1, relative from w2/sub, and the special ones"""
    K = os.path.join(root, "k")
    out = []
    for n in names:
        out.append(("abs:" + n, os.path.join(K, n)))
        out.append(("rel1:" + n, "../k/" + n))
        out.append(("rel2:" + n, "../../k/" + n))
    out += [
        ("dot", "."), ("dotdot", ".."), ("empty", ""), ("stdio", "-"), ("tilde", "~"), ("tilde-file", "~/hfile"), ("tilde-missing", "~/nope/x"),
        ("scheme:file", "file://" + os.path.join(K, "file")), ("scheme:dir", "file://" + os.path.join(K, "dir").lstrip("/")),
        ("rel-missing", "nope"), ("rel-deep-missing", "nope/a/b"), ("sub", "sub"), ("sub-missing", "sub/x/y"),
        ("dash-file", "./-"), ("root", "/"), ("root-missing", "/c19-nonexistent/x"),
    ]
    return out


def take_facts(p):
    """what the process can see of absolute path p; independent of jsonargparse (os.stat, os.access, realpath)"""
    try:
        st = os.stat(p)
        stat_ok = True
    except OSError:
        st = None
        stat_ok = False
    f = {
        "ex": os.access(p, os.F_OK),
        "statOk": stat_ok,
        "isDir": bool(st and stat.S_ISDIR(st.st_mode)),
        "isFile": bool(st and stat.S_ISREG(st.st_mode)),
        "isFifo": bool(st and stat.S_ISFIFO(st.st_mode)),
        "r": os.access(p, os.R_OK),
        "w": os.access(p, os.W_OK),
        "x": os.access(p, os.X_OK),
    }
    # ancestors of the resolved location: parent, grand-parent, ...
    chain = []
    q = os.path.dirname(os.path.realpath(p))
    while True:
        chain.append(q)
        nq = os.path.dirname(q)
        if nq == q:
            break
        q = nq

    def is_dir(q):
        try:
            return stat.S_ISDIR(os.stat(q).st_mode)
        except OSError:
            return False

    def exists(q):
        try:
            os.stat(q)
            return True
        except OSError:
            return False

    par = chain[0]
    f["parDir"] = is_dir(par)
    f["parW"] = os.access(par, os.W_OK)
    near = next((q for q in chain if exists(q)), None)
    f["nearDir"] = bool(near) and is_dir(near)
    f["nearW"] = bool(near) and os.access(near, os.W_OK)
    return f


def path_child(root, modes, want_perms, type_len):
    """runs as the unprivileged user: build the fixture, evaluate Path(p, mode) for every spelling x cwd x mode;
    registered path types (typing.path_type) of up to type_len flags must behave like Path(p, mode)"""
    from jsonargparse import Path
    from jsonargparse.typing import Path_dc, Path_drw, Path_dw, Path_fc, Path_fr, path_type

    named = {"fr": Path_fr, "cf": Path_fc, "dw": Path_dw, "cd": Path_dc, "drw": Path_drw}

    os.environ["HOME"] = os.path.join(root, "home")
    names = build_kinds(root)
    sps = spellings(root, names)
    canon = {}
    for m in modes:
        canon.setdefault(canon_mode(m), []).append(m)
    cwds = [("w1", os.path.join(root, "w1")), ("w2", os.path.join(root, "w2", "sub"))]
    out = {"uid": os.getuid(), "entries": [], "book": [], "perm": [], "types": [], "type_calls": 0}
    types = {}
    for cm, perms in canon.items():
        if len(cm) <= type_len or cm in named:
            t = path_type(perms[0])
            if any(path_type(m) is not t for m in perms) or (cm in named and named[cm] is not t):
                out["types"].append({"mode": cm, "problem": "path_type returns different classes for the same flags"})
            types[cm] = t
    for cwd_label, cwd in cwds:
        os.chdir(cwd)
        for label, sp in sps:
            expanded = os.path.expanduser(sp)
            expanded_l = re.sub("^file:///?", "/", expanded)
            absolute = expanded_l if expanded_l.startswith("/") else os.path.join(os.getcwd(), expanded_l)
            facts = take_facts(absolute)
            res = {}
            for cm, perms in canon.items():
                first = None
                for m in (perms if want_perms else perms[:1]):
                    try:
                        p = Path(sp, m)
                        o = "ok"
                        if p.relative != sp or p.absolute != absolute or p.cwd != cwd or str(p) != sp or p() != absolute \
                                or p(absolute=False) != sp or os.fspath(p) != absolute or p.mode != m:
                            if len(out["book"]) < 20:
                                out["book"].append({"cwd": cwd_label, "label": label, "spelling": sp, "mode": m, "relative": p.relative,
                                                    "absolute": p.absolute, "pcwd": p.cwd, "want_absolute": absolute})
                    except Exception as ex:  # noqa: BLE001 - the class is the observation
                        o = classify_error(ex, m)
                    if first is None:
                        first = o
                    elif o != first and len(out["perm"]) < 20:
                        out["perm"].append({"cwd": cwd_label, "label": label, "modes": [perms[0], m], "outcomes": [first, o]})
                res[cm] = first
                if cm in types:
                    out["type_calls"] += 1
                    try:
                        p = types[cm](sp)
                        o = "ok"
                        if p.relative != sp or p.absolute != absolute:
                            o = "ok-but-fields-differ"
                    except Exception as ex:  # noqa: BLE001
                        o = classify_error(ex, perms[0])
                    if o != first and len(out["types"]) < 20:
                        out["types"].append({"mode": cm, "cwd": cwd_label, "label": label, "type": o, "path": first})
            if os.getcwd() != cwd:
                raise RuntimeError("Path() changed the working directory")
            # the cwd= argument: mode "" makes no file-system test at all
            other = os.path.join(root, "k", "dir")
            try:
                p = Path(sp, "", cwd=other)
                with_cwd = [p.relative, p.absolute, p.cwd]
                q = Path(p, "")           # copy constructor keeps the three fields
                if [q.relative, q.absolute, q.cwd] != with_cwd and len(out["book"]) < 20:
                    out["book"].append({"cwd": cwd_label, "label": label, "spelling": sp, "mode": "", "relative": q.relative, "absolute": q.absolute,
                                        "pcwd": q.cwd, "want_absolute": p.absolute})
                # a Path given a Path keeps the three fields whatever cwd= says and wherever the process is; cwd="" means os.getcwd()
                q2 = Path(p, "", cwd=cwd)
                os.chdir(root)
                try:
                    q3 = Path(q2, "")
                finally:
                    os.chdir(cwd)
                q4 = Path(sp, "", cwd="")
                copies = [[q2.relative, q2.absolute, q2.cwd], [q3.relative, q3.absolute, q3.cwd], [q4.relative, q4.absolute, q4.cwd]]
            except Exception as ex:  # noqa: BLE001
                with_cwd = ["exc:" + type(ex).__name__, "", ""]
                copies = None
            want = expanded_l if expanded_l.startswith("/") else os.path.join(other, expanded_l)
            if with_cwd != [sp, want, other] and len(out["book"]) < 20:
                out["book"].append({"cwd": cwd_label, "label": label, "spelling": sp, "mode": "", "relative": with_cwd[0], "absolute": with_cwd[1],
                                    "pcwd": with_cwd[2], "want_absolute": want})
            out["entries"].append({"cwd": cwd_label, "label": label, "spelling": sp, "expanded": expanded, "absolute": absolute,
                                   "facts": facts, "res": res, "with_cwd": with_cwd, "copies": copies})
    return out


# ---------------------------------------------------------------- the docstring oracle


def sat_doc(mode, f, spelling=None):
    """Does the file system satisfy every flag of `mode`?  Written from the docstring of class Path:
    f=file, d=directory (the path exists - unless it may be created - and is of that kind; a FIFO counts as a
    file), r/w/x = readable/writeable/executable, upper case = not; c once: the parent directory must exist and be
    writeable; c twice: the parent need not exist but should be allowed to create = the nearest existing ancestor is
    a writeable directory; u/s permit URLs, they demand nothing.  "-" is standard input/output, always accepted."""
    if spelling == "-":
        return True
    c = mode.count("c")
    for fl in set(mode):
        if fl == "f":
            ok = (f["ex"] or c > 0) and (not f["ex"] or f["isFile"] or f["isFifo"])
        elif fl == "d":
            ok = (f["ex"] or c > 0) and (not f["ex"] or f["isDir"])
        elif fl == "c":
            ok = (f["parDir"] and f["parW"]) if c == 1 else (f["nearDir"] and f["nearW"])
        elif fl in "rwx":
            ok = f[fl]
        elif fl in "RWX":
            ok = not f[fl.lower()]
        elif fl == "F":
            ok = not (f["isFile"] or f["isFifo"])
        elif fl == "D":
            ok = not f["isDir"]
        elif fl in "us":
            ok = True
        else:
            raise MachineryError("flag outside the docstring: %r" % fl)
        if not ok:
            return False
    return True


def finding_of(mode, f, real_ok):
    """signature match of open findings of the path stage: none at present (F19c and F19f are repaired)"""
    return None


def canon_paths(obj, root):
    """replace the scratch root in every string (replays and samples must not depend on temp names)"""
    if isinstance(obj, str):
        return obj.replace(root, "/FIX")
    if isinstance(obj, list):
        return [canon_paths(x, root) for x in obj]
    if isinstance(obj, dict):
        return {k: canon_paths(v, root) for k, v in obj.items()}
    return obj


def facts_key(f):
    return "".join("1" if f[k] else "0" for k in ("ex", "statOk", "isDir", "isFile", "isFifo", "r", "w", "x", "parDir", "parW", "nearDir", "nearW"))


def path_stage(ctx: Ctx, alphabet, nflags):
    modes_all = list(all_mode_strings(alphabet, nflags))
    from jsonargparse import Path

    def valid(m):
        try:
            Path._check_mode(m)
            return True
        except ValueError:
            return False

    real_valid = {m: valid(m) for m in modes_all}
    # also strings with characters outside the alphabet / too many repetitions
    extra = ["z", "fz", "ccc", "fccc", "ff", "rr", "fd", "df", "du", "ds", "fF", "dD", "-", " ", "fr ", "C", "U", "S"]
    for m in extra:
        real_valid.setdefault(m, valid(m))
    # --- checkMode correspondence
    mlist = sorted(real_valid)
    model_valid = None
    try:
        model_valid = ctx.driver("PathMode", [{"op": "checkMode", "modes": mlist}])[0]["r"]
    except MachineryError as ex:
        if ctx.lean_ok:
            raise
        ctx.tie_break("correspondence E6 not runnable (model does not build)", str(ex))
    ctx.count(len(mlist))
    if model_valid is not None:
        bad = [m for m, b in zip(mlist, model_valid) if b != real_valid[m]]
        if bad:
            bad.sort(key=len)
            ctx.tie_break("correspondence E6 (checkMode vs Path._check_mode) disagrees", json.dumps({"mode": bad[0], "real_valid": real_valid[bad[0]]}))
    # the property's side of _check_mode: a mode is valid iff it is a string over the documented flags [fdrwxcusFDRWX]
    # with no repetition except cc and without f+d, u+d, s+d (documented: "Both modes ... not possible")
    doc_alpha = "fdrwxcusFDRWX"
    for m in sorted(mlist, key=lambda m: (len(m), m)):
        want = all(ch in doc_alpha for ch in m) and all(m.count(ch) <= (2 if ch == "c" else 1) for ch in set(m)) \
            and not ("d" in m and ("f" in m or "u" in m or "s" in m))
        if want != real_valid[m]:
            ctx.violation("Path._check_mode(%r) %s a mode that the documented flag rules %s" % (m, "accepts" if real_valid[m] else "rejects", "reject" if real_valid[m] else "accept"),
                          {"kind": "mode", "mode": m, "real_valid": real_valid[m]})
            break
    modes = [m for m in modes_all if real_valid[m]]
    ctx.extra["mode_strings"] = {"max_flags": nflags, "strings": len(modes_all), "valid": len(modes), "multisets": len({canon_mode(m) for m in modes})}

    # --- the fixture, in the unprivileged child
    root = make_root()
    data = in_child(path_child, root, modes, True, 2 if not ctx.thorough else 3)
    if os.getuid() == 0 and data["uid"] != NOBODY:
        raise MachineryError("child did not drop privileges")
    entries = data["entries"]
    ctx.extra["fixture_entries"] = len(entries)
    ctx.extra["uid_of_child"] = data["uid"]
    # --- model on the distinct fact vectors
    groups = {}
    for e in entries:
        key = (facts_key(e["facts"]), e["spelling"] == "-")
        groups.setdefault(key, []).append(e)
    cmodes = sorted({canon_mode(m) for m in modes}, key=lambda m: (len(m), m))
    lines = []
    keys = sorted(groups)
    for key in keys:
        e = groups[key][0]
        line = {"op": "checkPath", "facts": e["facts"], "modes": cmodes}
        if key[1]:
            line["path"] = "-"
        lines.append(line)
    # bookkeeping through the model
    for e in entries:
        lines.append({"op": "mk", "path": e["spelling"], "expanded": e["expanded"], "cwd": os.path.join(root, "w1") if e["cwd"] == "w1" else os.path.join(root, "w2", "sub")})
    for e in entries:
        lines.append({"op": "mk", "path": e["spelling"], "expanded": e["expanded"], "cwd": os.path.join(root, "k", "dir")})
    # Path(Path, cwd=…) and cwd="" through the model (mkPathArg)
    wdir_of = {"w1": os.path.join(root, "w1"), "w2": os.path.join(root, "w2", "sub")}
    for e in entries:
        o = dict(zip(("relative", "absolute", "cwd"), e["with_cwd"]))
        lines.append({"op": "mkarg", "obj": o, "cwdarg": wdir_of[e["cwd"]], "oscwd": wdir_of[e["cwd"]]})
        lines.append({"op": "mkarg", "obj": o, "cwdarg": None, "oscwd": root})
        lines.append({"op": "mkarg", "path": e["spelling"], "expanded": e["expanded"], "cwdarg": "", "oscwd": wdir_of[e["cwd"]]})
    model = None
    try:
        model = ctx.driver("PathMode", lines)
    except MachineryError as ex:
        if ctx.lean_ok:
            raise
        ctx.tie_break("correspondence E6 not runnable (model does not build)", str(ex))
    # --- judge
    nperm = sum(len(list(itertools.permutations(cm))) for cm in cmodes)
    corr_bad, sat_bad, viol = [], [], []
    for gi, key in enumerate(keys):
        mres = model[gi] if model is not None else None
        e0 = groups[key][0]
        if mres is not None and not mres["wf"]:
            ctx.tie_break("facts measured on the real file system violate Facts.wf", json.dumps(canon_paths({"entry": e0["label"], "cwd": e0["cwd"], "facts": e0["facts"]}, root)))
        for e in groups[key]:
            ctx.hist("entry_kind", kind_of(e["facts"]))
            for mi, cm in enumerate(cmodes):
                real = e["res"][cm]
                ctx.count()
                want_ok = sat_doc(cm, e["facts"], e["spelling"])
                if mres is not None:
                    mo = mres["r"][mi]
                    mo = MODEL_CLASS.get(mo, mo)
                    if mo != real:
                        corr_bad.append((len(cm), e, cm, real, mo))
                    if e["spelling"] != "-" and mres["sat"][mi] != want_ok:
                        sat_bad.append((len(cm), e, cm, want_ok, mres["sat"][mi]))
                real_ok = real == "ok"
                if real.startswith("exc:") or real.startswith("pe?"):
                    viol.append((len(cm), e, cm, real, "Path(%r, %r) raised %s instead of accepting or raising the documented PathError"))
                elif real_ok != want_ok:
                    fid = finding_of(cm, e["facts"], real_ok)
                    if fid and ctx.is_open(fid):
                        ctx.known(fid, KNOWN_TEXT[fid] % (cm, e["label"]))
                    else:
                        viol.append((len(cm), e, cm, real, "Path(%r, %r) gives %s but the file system " + ("does not satisfy" if real_ok else "satisfies") + " every flag of the mode"))
                if real_ok and e["facts"]["ex"]:
                    ctx.nontrivial("%s|%s|%s" % (e["cwd"], e["label"], cm))
                elif not real_ok:
                    ctx.nontrivial("%s|%s|%s" % (e["cwd"], e["label"], cm))
    ctx.evaluations += (nperm - len(cmodes)) * len(entries)  # the permutations of every multiset were run on the real side too
    for b in data["book"][:3]:
        viol.append((len(b["mode"]), {"label": b["label"], "cwd": b["cwd"], "spelling": b["spelling"], "facts": {}}, b["mode"], "ok",
                     "Path(%r, %r): %s but relative/absolute/cwd are " + json.dumps(canon_paths({k: b[k] for k in ("relative", "absolute", "pcwd", "want_absolute")}, root))))
    for b in data["perm"][:3]:
        viol.append((len(b["modes"][1]), {"label": b["label"], "cwd": b["cwd"], "spelling": b["label"], "facts": {}}, b["modes"][1], b["outcomes"][1],
                     "Path(%r, %r) gives %s but the same flags in the order " + repr(b["modes"][0]) + " give " + b["outcomes"][0]))
    for b in data["types"][:3]:
        viol.append((len(b["mode"]), {"label": b.get("label", "-"), "cwd": b.get("cwd", "w1"), "spelling": b.get("label", "-"), "facts": {}}, b["mode"], b.get("type", "-"),
                     "path_type(%2$r)(%1$r) gives %3$s but " + (b.get("problem") or "Path(p, mode) gives " + str(b.get("path")))))
    ctx.evaluations += data["type_calls"]
    # bookkeeping through the model
    if model is not None:
        for e, mk in zip(entries, model[len(keys):]):
            ctx.count()
            if mk["relative"] != e["spelling"] or mk["absolute"] != e["absolute"]:
                corr_bad.append((0, e, "", e["absolute"], mk["absolute"]))
        for e, mk in zip(entries, model[len(keys) + len(entries):]):
            ctx.count()
            if [mk["relative"], mk["absolute"], mk["cwd"]] != e["with_cwd"]:
                corr_bad.append((0, e, "cwd=", e["with_cwd"], [mk["relative"], mk["absolute"], mk["cwd"]]))
        base_i = len(keys) + 2 * len(entries)
        for i, e in enumerate(entries):
            ctx.count(3)
            got = [[m["relative"], m["absolute"], m["cwd"]] for m in model[base_i + 3 * i: base_i + 3 * i + 3]]
            if e["copies"] is not None and got != e["copies"]:
                corr_bad.append((0, e, "Path(Path)/cwd=''", e["copies"], got))
            if e["copies"] is not None and (e["copies"][0] != e["with_cwd"] or e["copies"][1] != e["with_cwd"]):
                viol.append((0, e, "", "ok", "Path(Path(%r, cwd=D), %r, cwd=E): %s but the copy does not keep relative/absolute/cwd: " + json.dumps(canon_paths(e["copies"][:2], root))))
    corr_bad.sort(key=lambda t: (t[0], t[1]["label"]))
    for _, e, cm, real, mo in corr_bad[:3]:
        ctx.tie_break("correspondence E6 (checkPath/mkPath vs jsonargparse.Path) disagrees",
                      json.dumps(canon_paths({"entry": e["label"], "cwd": e["cwd"], "spelling": e["spelling"], "mode": cm, "real": real, "model": mo, "facts": e["facts"]}, root)))
    sat_bad.sort(key=lambda t: (t[0], t[1]["label"]))
    for _, e, cm, py, lean in sat_bad[:2]:
        ctx.tie_break("the harness oracle sat_doc and the Lean predicate SatDoc disagree",
                      json.dumps(canon_paths({"entry": e["label"], "mode": cm, "python": py, "lean": lean, "facts": e["facts"]}, root)))
    viol.sort(key=lambda t: (t[0], t[1]["label"]))
    seen = set()
    for _, e, cm, real, text in viol:
        sig = (text, cm, e["label"].split(":")[-1])
        sig2 = (text, e["label"].split(":")[-1])
        if sig in seen or (sig2 in seen and len(seen) >= 2):
            continue
        seen.add(sig)
        seen.add(sig2)
        if "%2$r" in text:
            what = text.replace("%1$r", repr(canon_paths(e["spelling"], root))).replace("%2$r", repr(cm)).replace("%3$s", str(real))
        else:
            what = text % (canon_paths(e["spelling"], root), cm, real)
        ctx.violation(what, {"kind": "path", "label": e["label"], "cwd": e["cwd"], "mode": cm, "real": real, "facts": e.get("facts")})
        if len(ctx.violations) >= 4:
            break
    ctx.extra["correspondence_disagreements_path"] = len(corr_bad)
    ctx.extra["exhaustive_scope"] = "path stage: all %d valid mode strings of <= %d flags x %d fixture entries (finite scope enumerated completely)" % (len(modes), nflags, len(entries))
    ctx.extra["distinct_fact_vectors"] = len(keys)
    for e in entries[:2]:
        ctx.sample(canon_paths({"cwd": e["cwd"], "spelling": e["spelling"], "facts": facts_key(e["facts"]), "outcomes": dict(list(e["res"].items())[:6])}, root))
    return bool(viol)


KNOWN_TEXT = {}


def kind_of(f):
    if f["isDir"]:
        k = "dir"
    elif f["isFile"]:
        k = "file"
    elif f["isFifo"]:
        k = "fifo"
    elif f["ex"]:
        k = "other"
    elif f["parDir"]:
        k = "missing"
    elif f["nearDir"]:
        k = "missing-noparent"
    else:
        k = "below-nondir"
    if f["ex"]:
        k += ":" + "".join(c if f[c] else "-" for c in "rwx")
    else:
        k += ":" + ("pw" if (f["parW"] if f["parDir"] else f["nearW"]) else "p-")
    return k


# ---------------------------------------------------------------- parsers for the load stage


def build_parser(levels, **kw):
    """nested parsers: level 0 has --cfg (ActionConfigFile); every level has path-typed arguments,
    a list and a dict of paths loadable from a file, and `inner` = the next level (ActionParser -> _ActionConfigLoad)"""
    from typing import Dict, List, Optional

    from jsonargparse import ActionConfigFile, ActionParser, ArgumentParser
    from jsonargparse.typing import Path_fc, Path_fr, path_type

    Path_dr = path_type("dr")

    def level(k):
        p = ArgumentParser(exit_on_error=False, **(kw if k == 0 else {}))
        if k == 0:
            p.add_argument("--cfg", action=ActionConfigFile)
        p.add_argument("--pa", type=Path_fr)
        p.add_argument("--pb", type=Optional[Path_fr])
        p.add_argument("--pc", type=Path_fc)
        p.add_argument("--pd", type=Optional[Path_dr])
        p.add_argument("--pl", type=List[Path_fr])
        p.add_argument("--lst", type=List[Path_fr], enable_path=True)
        p.add_argument("--dct", type=Dict[str, Path_fr], enable_path=True)
        if k < levels:
            p.add_argument("--inner", action=ActionParser(parser=level(k + 1)))
        return p

    return level(0)


# ---------------------------------------------------------------- load programs

DIRS = ["a", "b", "b/y", "c", "c/d", "e/f/g", "w"]
F_LIST = "C19-listfile-reresolved"
# directory symlinks of a program with prog["dirlinks"]: link (relative to the program's base) -> target directory
LINKS = [("la", "b/y"), ("c/lk", "e/f"), ("w/lw", "a")]
# for the `link/..` shapes: link -> (directory the kernel reaches for link/.., directory abspath makes of it, a sub-directory
# that exists below the former and not below the latter)
LINK_DOTDOT = {"la": ("b", "", "y"), "c/lk": ("e", "c", "f"), "w/lw": ("", "w", "b")}


def kresolve(prog, p):
    """the harness's own oracle of kernel path resolution for an absolute canonical path below /FIX/g<id> (no existence
    test): components left to right, a directory link of the program is followed when it is reached, `..` is the parent
    of the PHYSICAL directory reached so far"""
    base = "/FIX/g%d" % prog["id"]
    links = {base + "/" + lp: base + "/" + td for lp, td in LINKS} if prog.get("dirlinks") else {}
    phys = ""
    for comp in p.split("/"):
        if comp in ("", "."):
            continue
        if comp == "..":
            phys = phys.rsplit("/", 1)[0]
            continue
        phys = phys + "/" + comp
        phys = links.get(phys, phys)
    return phys or "/"


def lex_bad(prog, base_dir, ref):
    """does os.path.abspath change where the kernel goes for the directory of the file spelled `ref` from base_dir?"""
    a = ref if ref.startswith("/") else base_dir + "/" + ref
    d = os.path.dirname(a)
    return kresolve(prog, d) != kresolve(prog, os.path.normpath(d))

LEVEL_KEYS = ["pa", "pb", "pc", "pd", "pl", "lst", "dct", "inner"]


class Gen:
    """generator of one load program; every spelling is unique (fresh names), paths use the literal root /FIX/g<id>"""

    def __init__(self, rng, pid, links=False):
        self.rng = rng
        self.pid = pid
        self.base = "/FIX/g%d" % pid
        self.n = 0
        self.links = links

    def fresh(self, prefix, ext=""):
        self.n += 1
        return "%s%d%s" % (prefix, self.n, ext)

    def spell(self, from_dir, target, detour=True):
        """a spelling of `target` (relative to the program's subtree) as seen from directory from_dir"""
        if self.links and self.rng.random() < 0.35:
            # name the target through a directory symlink (never followed by `..`: the leading `..`s of relpath come first)
            td_of = os.path.dirname(target)
            cands = [(lp, td) for lp, td in LINKS if td_of == td or td_of.startswith(td + "/")]
            if cands:
                lp, td = self.rng.choice(cands)
                target = lp + target[len(td):]
        r = self.rng.random()
        if not detour and 0.35 <= r < 0.45:
            r = 0.9
        if r < 0.2:
            return self.base + "/" + target
        rel = os.path.relpath(target, from_dir)
        if r < 0.35:
            return "./" + rel
        if r < 0.45 and from_dir not in ("", "."):
            # a detour through the parent directory
            return "../" + os.path.basename(from_dir) + "/" + rel
        return rel

    def path_node(self, key, cfg_dir):
        d = self.rng.choice(DIRS)
        if key in ("pa", "pb"):
            t = d + "/" + self.fresh("p", ".txt")
            return {"k": "path", "key": key, "rel": self.spell(cfg_dir, t), "target": t, "kind": "file", "dir": cfg_dir}
        if key == "pc":
            t = d + "/" + self.fresh("new", ".txt")
            return {"k": "path", "key": key, "rel": self.spell(cfg_dir, t), "target": t, "kind": "new", "dir": cfg_dir}
        t = d + "/" + self.fresh("d")
        return {"k": "path", "key": key, "rel": self.spell(cfg_dir, t), "target": t, "kind": "dir", "dir": cfg_dir}

    def level(self, k, cfg_dir, keys, depth_left):
        rng = self.rng
        nodes = []
        keys = [x for x in keys if rng.random() < 0.55]
        rng.shuffle(keys)
        for key in keys:
            if key in ("pa", "pb", "pc", "pd"):
                nodes.append(self.path_node(key, cfg_dir))
            elif key == "pl":
                els = []
                for _ in range(rng.randint(1, 3)):
                    t = rng.choice(DIRS) + "/" + self.fresh("p", ".txt")
                    els.append({"rel": self.spell(cfg_dir, t), "target": t})
                nodes.append({"k": "pathlist", "key": key, "els": els, "dir": cfg_dir})
            elif key == "lst":
                d = cfg_dir if rng.random() < 0.4 else rng.choice(DIRS)
                f = d + "/" + self.fresh("l", ".txt")
                els = []
                for _ in range(rng.randint(1, 3)):
                    t = rng.choice(DIRS) + "/" + self.fresh("p", ".txt")
                    els.append({"rel": self.spell(d, t), "target": t})
                r = rng.random()
                if r < 0.45:
                    ref = self.base + "/" + f
                elif r < 0.7 and d == cfg_dir:
                    ref = os.path.basename(f)
                else:
                    # no detour: a list file's spelling is resolved a second time from another directory, where the lexical
                    # normalisation of `x/../` (model, list_stable) equals the kernel's only if x exists there
                    ref = self.spell(cfg_dir, f, detour=False)
                nodes.append({"k": "list", "key": key, "ref": ref, "file": f, "els": els, "yaml": rng.random() < 0.3, "dir": cfg_dir, "fdir": d})
            elif key == "dct":
                d = rng.choice(DIRS)
                f = d + "/" + self.fresh("m", ".yaml")
                items = []
                for _ in range(rng.randint(1, 3)):
                    t = rng.choice(DIRS) + "/" + self.fresh("p", ".txt")
                    items.append({"k": "path", "key": self.fresh("k"), "rel": self.spell(d, t), "target": t, "kind": "file", "dir": d})
                nodes.append({"k": "sub", "key": key, "ref": self.spell(cfg_dir, f), "file": f, "items": items, "dir": cfg_dir, "fdir": d})
            elif key == "inner" and depth_left > 0:
                d = rng.choice(DIRS)
                f = d + "/" + self.fresh("c", ".yaml")
                items = self.level(k + 1, d, LEVEL_KEYS, depth_left - 1)
                nodes.append({"k": "sub", "key": key, "ref": self.spell(cfg_dir, f), "file": f, "items": items, "dir": cfg_dir, "fdir": d})
        return nodes

    def program(self):
        rng = self.rng
        wdir = rng.choice(DIRS)
        depth = rng.choice([1, 2, 2, 3, 3])
        entry = rng.choice(["args", "args", "args", "parse_path", "dcf", "parse_path_obj", "parse_path_obj", "apply_config_obj", "dcf_obj", "ctx"])
        if entry == "ctx":
            return self.ctx_program(wdir, depth)
        pool = list(LEVEL_KEYS)
        rng.shuffle(pool)
        top = []
        ncfg = 1 if entry != "args" else rng.choice([0, 1, 1, 2])
        cuts = sorted(rng.randint(0, len(pool)) for _ in range(ncfg))
        shares = []
        prev = 0
        for c in cuts:
            shares.append(pool[prev:c])
            prev = c
        direct = pool[prev:]
        for share in shares:
            d = rng.choice(DIRS)
            f = d + "/" + self.fresh("c", ".yaml")
            items = self.level(0, d, share, depth - 1) if share else []
            if not items:
                items = [self.path_node(rng.choice(["pa", "pb", "pc", "pd"]), d)]   # dedupe_keys keeps one value per position
            if entry in ("parse_path_obj", "apply_config_obj", "dcf_obj"):
                top.append(self.obj_node("cfg", f, d, items, False))
                continue
            ref = self.base + "/" + f if entry == "dcf" else self.spell(wdir, f)
            top.append({"k": "sub", "key": "cfg", "ref": ref, "file": f, "items": items, "dir": wdir, "fdir": d})
        if entry == "args":
            top += self.level(0, wdir, direct, depth - 1)
            rng.shuffle(top)
        elif entry in ("dcf", "dcf_obj"):
            top += self.level(0, wdir, direct, depth - 1)
        return {"id": self.pid, "wdir": wdir, "entry": entry, "top": top}

    def add_duplicates(self, prog):
        """assign one level-0 path key from TWO OR MORE sources in different directories (default config file, environment,
        config files, command line) with the SAME relative spelling; the file exists next to the earlier sources and, half of
        the time, not next to the last one.  Returns True if the last assignment was made to fail."""
        rng = self.rng
        key = rng.choice(["pa", "pa", "pb", "pb", "pc", "pd", "pl"])
        wdir = prog["wdir"]
        top = prog["top"]
        head = 1 if prog["entry"] == "dcf" else 0

        def strip(nodes):
            return [n for n in nodes if n["key"] != key]

        prog["top"] = top[:head] + strip(top[head:])
        for n in prog["top"]:
            if n["k"] == "sub" and n["key"] == "cfg":
                n["items"] = strip(n["items"])
        form = rng.choice(["%s", "%s", "./%s", "../%s"])
        nel = rng.randint(1, 2) if key == "pl" else 1
        names = [self.fresh("dd") if key == "pd" else self.fresh("data", ".txt") for _ in range(nel)]
        rels = [form % x for x in names]
        pattern = rng.choice([["cfg", "cfg"], ["cfg", "argv"], ["env", "cfg"], ["cfg", "cfg", "argv"], ["env", "cfg", "cfg"], ["cfg", "cfg", "cfg"]])
        if head:
            pattern = ["dcf"] + pattern[rng.randint(0, 1):]
        dirs = [d for d in DIRS if d != wdir]
        rng.shuffle(dirs)
        used_targets = set()
        made = []
        for src in pattern:
            if src in ("argv", "env"):
                d = wdir
            elif src == "dcf":
                d = prog["top"][0]["fdir"]
            else:
                d = dirs.pop()
            targets = [os.path.normpath(d + "/" + r) for r in rels]
            if any(t in used_targets or t.startswith("..") for t in targets) or (src == "dcf" and d == wdir):
                continue
            used_targets.update(targets)
            kind = {"pc": "new", "pd": "dir"}.get(key, "file")
            if key == "pl":
                node = {"k": "pathlist", "key": key, "els": [{"rel": r, "target": t} for r, t in zip(rels, targets)], "dir": d}
            else:
                node = {"k": "path", "key": key, "rel": rels[0], "target": targets[0], "kind": kind, "dir": d}
            if src == "dcf":
                prog["top"][0]["items"] = strip(prog["top"][0]["items"]) + [node]
            elif src == "cfg":
                f = d + "/" + self.fresh("c", ".yaml")
                prog["top"].append({"k": "sub", "key": "cfg", "ref": self.spell(wdir, f), "file": f, "items": [node], "dir": wdir, "fdir": d})
            else:
                if src == "env":
                    node["env"] = True
                prog["top"].append(node)
            made.append(node)
        prog["dup"] = key
        if len(made) >= 2 and made[-1].get("kind") != "new" and rng.random() < 0.5:
            if made[-1]["k"] == "pathlist":
                made[-1]["fail"] = "el-missing"
                made[-1]["fail_el"] = rng.randrange(nel)
            else:
                made[-1]["fail"] = "missing"
            return True
        return False

    def dotdot_program(self):
        """one bracketed file spelled `<link>/../…` (repaired finding F30 = C19-abspath-through-link): the kernel follows the
        link before `..`, os.path.abspath cancels the pair lexically; the full oracle applies, the decoys must not be taken.  shape "wrongdir": the lexical directory exists (same-named
        decoys are put there), shape "nochdir": it does not (os.chdir raises inside __enter__)."""
        rng = self.rng
        wdir = rng.choice(DIRS)
        lp = rng.choice([l for l, _ in LINKS])
        true_dir, lex_dir, sib = LINK_DOTDOT[lp]
        shape = rng.choice(["wrongdir", "nochdir"])
        fdir = true_dir if shape == "wrongdir" else (true_dir + "/" + sib).lstrip("/")
        tail = "" if shape == "wrongdir" else sib + "/"
        kind = rng.choice(["cfg", "cfg", "inner", "dct", "list", "parse_path", "dcf"])

        def in_dir(name):
            return (fdir + "/" + name).lstrip("/")

        def ref_of(name, absolute):
            via = lp + "/../" + tail + name
            return self.base + "/" + via if absolute else os.path.relpath(lp, wdir) + "/../" + tail + name

        if kind == "list":
            f = in_dir(self.fresh("l", ".txt"))
            els = []
            for _ in range(rng.randint(1, 2)):
                nm = self.fresh("p", ".txt")
                els.append({"rel": nm, "target": in_dir(nm)})
            node = {"k": "list", "key": "lst", "ref": ref_of(os.path.basename(f), True), "file": f, "els": els, "yaml": rng.random() < 0.5,
                    "dir": wdir, "fdir": fdir}
        else:
            f = in_dir(self.fresh("c", ".yaml"))
            items = []
            for key in rng.sample(["pa", "pb", "pd"], rng.randint(1, 2)):
                nm = self.fresh("d") if key == "pd" else self.fresh("p", ".txt")
                items.append({"k": "path", "key": self.fresh("k") if kind == "dct" else key, "rel": nm, "target": in_dir(nm),
                              "kind": "file" if kind == "dct" or key != "pd" else "dir", "dir": fdir})
            key = kind if kind in ("inner", "dct") else "cfg"
            node = {"k": "sub", "key": key, "ref": ref_of(os.path.basename(f), kind == "dcf" or rng.random() < 0.3), "file": f, "items": items,
                    "dir": wdir, "fdir": fdir}
        if shape == "wrongdir":
            node["lexdecoy"] = lex_dir
        entry = kind if kind in ("parse_path", "dcf") else "args"
        top = [node]
        if entry == "args" and rng.random() < 0.5:
            extra = self.path_node("pc", wdir)
            top.insert(rng.randint(0, 1), extra)
        return {"id": self.pid, "wdir": wdir, "entry": entry, "top": top, "dirlinks": True, "dotdot": shape}

    def obj_node(self, key, f, d, items, dirmode):
        """a Path OBJECT for file (or directory) f in directory d: created from a spelling relative to a remembered
        directory `rem` - mostly the very directory the file sits in - either with cwd=rem or while the process was in rem"""
        rng = self.rng
        r = rng.random()
        if r < 0.65 and not dirmode:
            rem, ref = d, os.path.basename(f)                      # the file sits directly in the remembered directory
        elif r < 0.65:
            rem, ref = f, "."                                      # the directory itself was the working directory
        else:
            rem = rng.choice(DIRS)
            ref = self.spell(rem, f, detour=False)
        return {"k": "obj", "key": key, "ref": ref, "rem": rem, "create": rng.choice(["cwd", "chdir"]), "dirmode": dirmode,
                "file": f, "items": items, "fdir": f if dirmode else d}

    def ctx_program(self, wdir, depth):
        """with obj.relative_path_context(): parser.parse_args(argv) - every argv item belongs to the object's directory"""
        rng = self.rng
        d = rng.choice(DIRS)
        dirmode = rng.random() < 0.4
        f = d if dirmode else d + "/" + self.fresh("ctx", ".txt")
        pool = list(LEVEL_KEYS)
        items = self.level(0, d, pool, depth - 1)
        if rng.random() < 0.5:
            cd = rng.choice(DIRS)
            cf = cd + "/" + self.fresh("c", ".yaml")
            citems = self.level(0, cd, pool, depth - 1) or [self.path_node("pa", cd)]
            items.insert(rng.randint(0, len(items)), {"k": "sub", "key": "cfg", "ref": self.spell(d, cf), "file": cf, "items": citems, "dir": d, "fdir": cd})
        if not items:
            items = [self.path_node("pa", d)]
        return {"id": self.pid, "wdir": wdir, "entry": "ctx", "top": [self.obj_node("ctx", f, d, items, dirmode)]}


def add_links(rng, prog, prob=0.3):
    """turn some config / list / context files into symlinks to files kept in another directory"""
    for n in all_nodes(prog["top"]):
        if "file" in n and not n.get("dirmode") and rng.random() < prob:
            fdir = os.path.dirname(n["file"])
            others = [d for d in DIRS if d != fdir]
            n["link"] = rng.choice(others)
            n["decoy"] = rng.random() < 0.6


def all_nodes(nodes):
    for n in nodes:
        yield n
        if n["k"] in ("sub", "obj"):
            yield from all_nodes(n["items"])


def dedupe_keys(prog):
    """one value per namespace position: drop later nodes that reuse a key at the same position"""
    def walk(nodes, seen):
        out = []
        for n in nodes:
            if n["key"] not in ("cfg", "ctx"):
                if n["key"] in seen:
                    continue
                seen.add(n["key"])
            if n["k"] in ("sub", "obj") and n["key"] in ("cfg", "ctx"):
                n["items"] = walk(n["items"], seen)       # level-0 config / context shares the top-level positions
            elif n["k"] == "sub":
                n["items"] = walk(n["items"], set())
            out.append(n)
        return out
    prog["top"] = walk(prog["top"], set())
    return prog


def inject_failure(rng, prog):
    nodes = list(all_nodes(prog["top"]))
    if not nodes:
        return None
    n = rng.choice(nodes)
    if n["k"] == "path":
        if n["kind"] == "file":
            kinds = ["missing", "isdir"]
            if not n["rel"].startswith("/") and n["dir"] != prog["wdir"]:
                kinds += ["wrongdir", "wrongdir"]
        elif n["kind"] == "new":
            kinds = ["noparent"]
        else:
            kinds = ["missing", "isfile"]
    elif n["k"] == "pathlist":
        kinds = ["el-missing"]
    elif n["k"] == "list":
        kinds = ["missing", "el-missing", "unreadable"]
    elif n["k"] == "obj":
        if n["key"] == "ctx":
            return None                                            # the context object itself always exists
        kinds = ["badyaml", "unknownkey"]                          # the object is created by the harness: the file must exist
    else:
        kinds = ["missing", "unreadable", "badyaml"]
        if n["key"] != "dct":
            kinds.append("unknownkey")
        if prog["entry"] == "dcf" and n is prog["top"][0]:
            kinds = ["badyaml", "unknownkey"]
    if prog["entry"] == "apply_config_obj":
        # ActionConfigFile.apply_config is called outside a parse: unknown keys are only rejected by the final validation of parse_*
        kinds = [k for k in kinds if k != "unknownkey"]
    n["fail"] = rng.choice(kinds)
    if n["fail"] == "el-missing":
        n["fail_el"] = rng.randrange(len(n["els"]))
    return n["fail"]


def norm_join(base, rel):
    return os.path.normpath(rel if rel.startswith("/") else base + "/" + rel)


def list_stable(base, ref, prog=None):
    """does the spelling name the same file when resolved again from inside the file's directory?  (kernel resolution when
    the program has directory links: the second resolution starts from the PHYSICAL directory of the file)"""
    if prog is None or not prog.get("dirlinks"):
        first = norm_join(base, ref)
        return norm_join(os.path.dirname(first), ref) == first
    a = ref if ref.startswith("/") else base + "/" + ref
    d1 = kresolve(prog, os.path.dirname(a))
    a2 = ref if ref.startswith("/") else d1 + "/" + ref
    return kresolve(prog, os.path.dirname(a2)) == d1 and os.path.basename(a2) == os.path.basename(a)


def model_items(prog, nodes=None):
    base = "/FIX/g%d" % prog["id"]
    out = []
    for n in (exec_top(prog) if nodes is None else nodes):
        if n.get("fail"):
            out.append({"fail": True})
        elif n["k"] == "path":
            out.append({"path": n["rel"]})
        elif n["k"] == "pathlist":
            out.extend({"path": e["rel"]} for e in n["els"])
        elif n["k"] == "list":
            if n["yaml"]:
                out.append({"sub": n["ref"], "items": [{"path": e["rel"]} for e in n["els"]]})
            else:
                out.append({"list": n["ref"], "rels": [e["rel"] for e in n["els"]]})
        elif n["k"] == "obj":
            if prog["entry"] == "dcf_obj":
                # default_config_files keeps os.fspath(obj): an absolute string, resolved again at parse time
                out.append({"sub": obj_abs(prog, n), "items": model_items(prog, n["items"])})
            else:
                out.append({"obj": n["ref"], "rem": base + "/" + n["rem"], "dirmode": n["dirmode"], "items": model_items(prog, n["items"])})
        else:
            out.append({"sub": n["ref"], "items": model_items(prog, n["items"])})
    return out


def exec_top(prog):
    """top-level nodes in the order the library applies them: default config file, environment, command line"""
    top = prog["top"]
    head = top[:1] if prog["entry"] in ("dcf", "dcf_obj") else []
    rest = top[len(head):]
    return head + [n for n in rest if n.get("env")] + [n for n in rest if not n.get("env")]


def obj_abs(prog, n):
    base = "/FIX/g%d" % prog["id"]
    return n["ref"] if n["ref"].startswith("/") else base + "/" + n["rem"] + "/" + n["ref"]


def expectation(prog):
    """the generator's static knowledge, in execution order (aligned with the model's trace when nothing fails):
    returns (ok, seq, unstable list present); seq = [(position, group, triple, observable)].  A namespace position
    assigned several times (two config files, environment, command line) finally holds the LAST assignment, resolved
    against ITS source's directory: `final_of(seq)`."""
    base = "/FIX/g%d" % prog["id"]
    seq = []
    flags = {"fail": False, "unstable": False, "g": 0, "lexbad": False}

    def absdir(d):
        return base + "/" + d if d else base

    def triple(rel, d):
        b = absdir(d)
        return (rel, rel if rel.startswith("/") else b + "/" + rel, b)

    def group():
        flags["g"] += 1
        return flags["g"]

    def walk(nodes, prefix, top=False):
        for n in nodes:
            if n.get("fail"):
                flags["fail"] = True
            k = n["k"]
            if k == "path":
                seq.append((prefix + n["key"], group(), triple(n["rel"], n["dir"]), True))
            elif k == "pathlist":
                g = group()
                for e in n["els"]:
                    seq.append((prefix + n["key"], g, triple(e["rel"], n["dir"]), True))
            elif k == "list":
                if not n["yaml"] and not n.get("fail") and not list_stable(absdir(n["dir"]), n["ref"], prog):
                    flags["unstable"] = True
                if lex_bad(prog, absdir(n["dir"]), n["ref"]):
                    flags["lexbad"] = True
                if n["yaml"]:
                    seq.append((prefix + n["key"] + "/ref", group(), triple(n["ref"], n["dir"]), False))   # modelled as a sub; no record kept
                g = group()
                for e in n["els"]:
                    seq.append((prefix + n["key"], g, triple(e["rel"], n["fdir"]), True))
            elif k == "obj":
                a = obj_abs(prog, n)
                if lex_bad(prog, "/", a if not n["dirmode"] else a + "/x"):
                    flags["lexbad"] = True
                if prog["entry"] == "dcf_obj":
                    seq.append(("__default_config__", group(), (a, a, absdir(prog["wdir"])), True))
                elif prog["entry"] == "apply_config_obj":
                    seq.append(("cfg/%d" % group(), group(), (n["ref"], a, absdir(n["rem"])), True))
                else:
                    seq.append(("obj", group(), (n["ref"], a, absdir(n["rem"])), False))   # parse_path / relative_path_context keep no record
                walk(n["items"], prefix)
            elif n["key"] == "cfg":
                if lex_bad(prog, absdir(n["dir"]), n["ref"]):
                    flags["lexbad"] = True
                # parse_path does not record the file it was given; --cfg accumulates every file
                seq.append(("cfg/%d" % group(), group(), triple(n["ref"], n["dir"]), not (top and prog["entry"] == "parse_path")))
                walk(n["items"], prefix)
            else:
                if lex_bad(prog, absdir(n["dir"]), n["ref"]):
                    flags["lexbad"] = True
                seq.append((prefix + n["key"] + ".__path__", group(), triple(n["ref"], n["dir"]), True))
                walk(n["items"], prefix + n["key"] + ".")

    walk(exec_top(prog), "", top=True)
    prog["_lexbad"] = flags["lexbad"]
    return (not flags["fail"]), seq, flags["unstable"]


def final_of(seq, entries=None):
    """the observable values a namespace finally holds: for every position the entries of its last assignment"""
    last = {}
    for pos, g, _, _ in seq:
        last[pos] = g
    out = set()
    for i, (pos, g, t, obs) in enumerate(seq):
        if obs and last[pos] == g:
            out.add(t if entries is None else entries[i])
    return out


def yaml_str(s):
    return json.dumps(s)


def materialise(prog, root):
    """create directories, targets, config files of one program below root/g<id> (run in the child)"""
    base = os.path.join(root, "g%d" % prog["id"])

    def real(p):
        return p.replace("/FIX", root, 1) if p.startswith("/FIX") else p

    for d in DIRS:
        os.makedirs(os.path.join(base, d), exist_ok=True)
    if prog.get("dirlinks"):
        for lp, td in LINKS:
            os.symlink(os.path.relpath(os.path.join(base, td), os.path.dirname(os.path.join(base, lp))), os.path.join(base, lp))

    def touch(p, text="x\n"):
        with open(p, "w") as f:
            f.write(text)

    def lex_decoys(n):
        """same-named entries in the directory os.path.abspath makes of `<link>/..` (shape "wrongdir")"""
        if "lexdecoy" not in n:
            return
        for c in (n.get("items") or []) + [{"rel": e["rel"], "kind": "file"} for e in n.get("els", [])]:
            q = os.path.join(base, n["lexdecoy"], c["rel"])
            if not os.path.lexists(q):
                if c.get("kind") == "dir":
                    os.mkdir(q)
                else:
                    touch(q, "decoy\n")

    def write_file(n, text):
        """the config / list / context file of node n; when n["link"] names a directory the file is a SYMLINK to a file
        kept there: the directory relative paths inside belong to is the one the file is NAMED in, not its target's"""
        p = os.path.join(base, n["file"])
        if n.get("link"):
            t = os.path.join(base, n["link"], "t_" + os.path.basename(n["file"]))
            touch(t, text)
            os.symlink(os.path.relpath(t, os.path.dirname(p)), p)
        else:
            touch(p, text)
        return p

    def decoys(n):
        """same-named files next to the link target: resolving against the target's directory goes unnoticed by the file system"""
        if not n.get("link") or not n.get("decoy"):
            return
        for c in n.get("items", []):
            if c["k"] != "path" or c.get("fail") or c["kind"] == "new" or c["rel"].startswith("/") or c["key"] == prog.get("dup"):
                continue
            q = os.path.normpath(os.path.join(base, n["link"], c["rel"]))
            if q.startswith(base + "/") and not os.path.lexists(q) and os.path.isdir(os.path.dirname(q)):
                if c["kind"] == "dir":
                    os.mkdir(q)
                else:
                    touch(q, "decoy\n")

    def make_target(t, kind, fail, rel, cfg_dir):
        p = os.path.join(base, t)
        if fail == "missing" or fail == "el-missing":
            return
        if fail == "wrongdir":
            # exists relative to the process working directory only
            q = os.path.normpath(os.path.join(base, prog["wdir"], rel))
            if os.path.realpath(q) != os.path.realpath(p) and q.startswith(base + "/"):
                os.makedirs(os.path.dirname(q), exist_ok=True)
                touch(q)
            return
        if kind == "file":
            if fail == "isdir":
                os.mkdir(p)
            else:
                touch(p)
        elif kind == "dir":
            if fail == "isfile":
                touch(p)
            else:
                os.mkdir(p)
        # kind "new": nothing to create

    def value_of(n):
        if n["k"] == "path":
            rel = n["rel"]
            if n.get("fail") == "noparent":
                rel = os.path.dirname(rel) + "/nodir/" + os.path.basename(rel) if "/" in rel else "nodir/" + rel
                n["rel_written"] = rel
            return yaml_str(real(rel))
        if n["k"] == "pathlist":
            return "[" + ", ".join(yaml_str(real(e["rel"])) for e in n["els"]) + "]"
        return yaml_str(real(n["ref"]))

    def write_nodes(nodes):
        for n in nodes:
            fail = n.get("fail")
            lex_decoys(n)
            if n["k"] == "path":
                make_target(n["target"], n["kind"], fail, n["rel"], n["dir"])
            elif n["k"] in ("pathlist", "list"):
                for i, e in enumerate(n["els"]):
                    make_target(e["target"], "file", "missing" if fail == "el-missing" and i == n.get("fail_el") else None, e["rel"], n["dir"])
                if n["k"] == "list" and fail != "missing":
                    if n["yaml"]:
                        p = write_file(n, "".join("- %s\n" % yaml_str(real(e["rel"])) for e in n["els"]))
                    else:
                        p = write_file(n, "".join(real(e["rel"]) + "\n" for e in n["els"]))
                    if fail == "unreadable":
                        os.chmod(p, 0)
            else:
                write_nodes(n["items"])
                decoys(n)
                if n["k"] == "obj" and n["key"] == "ctx":
                    if not n["dirmode"]:
                        write_file(n, "x\n")
                    continue
                if fail == "missing":
                    continue
                if fail == "badyaml":
                    write_file(n, "{\n")
                    continue
                text = "".join("%s: %s\n" % (c["key"], value_of(c)) for c in n["items"])
                if fail == "unknownkey":
                    text += "zz_unknown: 1\n"
                p = write_file(n, text or "{}\n")
                if fail == "unreadable":
                    os.chmod(p, 0)

    write_nodes(prog["top"])
    argv = []
    kw = {}
    call = ("parse_args", None)
    top = prog["top"]
    def objspec(n):
        return {"ref": real(n["ref"]), "rem": os.path.join(base, n["rem"]), "create": n["create"], "mode": "dr" if n["dirmode"] else "fr"}

    if prog["entry"] == "parse_path":
        call = ("parse_path", real(top[0]["ref"]))
        top = []
    elif prog["entry"] in ("parse_path_obj", "apply_config_obj"):
        call = (prog["entry"], objspec(top[0]))
        top = []
    elif prog["entry"] == "ctx":
        call = ("ctx", objspec(top[0]))
        top = top[0]["items"]
    elif prog["entry"] == "dcf_obj":
        kw["default_config_files"] = [objspec(top[0])]
        top = top[1:]
    elif prog["entry"] == "dcf":
        kw["default_config_files"] = [real(top[0]["ref"])]
        top = top[1:]
    env = {}
    for n in top:
        if n["k"] == "pathlist":
            v = "[" + ", ".join(yaml_str(real(e["rel"])) for e in n["els"]) + "]"
        elif n["k"] == "path":
            v = json.loads(value_of(n))
        else:
            v = real(n["ref"])
        if n.get("env"):
            env["C19X_" + n["key"].upper()] = v
        else:
            argv += ["--" + n["key"], v]
    if env:
        kw["env_prefix"] = "C19X"
        kw["default_env"] = True
    return os.path.join(base, prog["wdir"]), argv, kw, call, env


def flatten_paths(cfg):
    from jsonargparse import Namespace, Path

    out = []

    def rec(v):
        if isinstance(v, Path):
            out.append([v.relative, v.absolute, v.cwd])
        elif isinstance(v, Namespace):
            for x in vars(v).values():
                rec(x)
        elif isinstance(v, dict):
            for x in v.values():
                rec(x)
        elif isinstance(v, (list, tuple)):
            for x in v:
                rec(x)

    rec(cfg)
    return out


def measure_fs(root, base):
    """the kernel's directory automaton of one program's subtree, measured with os.path.realpath: names[k] = canonical physical
    name of directory k (0 = "/", 1 = the scratch root), edges = (from, component, to) for every entry that leads to a
    directory (sub-directories, symbolic links to directories, `..`)"""
    phys = ["/", root, base]
    for cur, dirs, _files in os.walk(base):
        for d in sorted(dirs):
            q = os.path.join(cur, d)
            if not os.path.islink(q):
                phys.append(q)
    idx = {q: i for i, q in enumerate(phys)}
    edges = [[0, "..", 0], [0, os.path.basename(root), 1], [1, "..", 0], [1, os.path.basename(base), 2]]
    for q in phys[2:]:
        par = os.path.realpath(os.path.join(q, ".."))
        if par in idx:
            edges.append([idx[q], "..", idx[par]])
        for e in sorted(os.listdir(q)):
            t = os.path.realpath(os.path.join(q, e))
            if os.path.isdir(t) and t in idx:
                edges.append([idx[q], e, idx[t]])
    return {"names": phys, "edges": edges}


def load_child(root, progs):
    import jsonargparse._util as U
    from jsonargparse import ArgumentError

    from jsonargparse import ActionConfigFile, Namespace, Path
    from jsonargparse.typing import path_type

    def make_obj(spec, W):
        """the Path object of the program: (a) explicit cwd=, or (b) created while the process was in the remembered directory"""
        if spec["create"] == "cwd":
            return Path(spec["ref"], spec["mode"], cwd=spec["rem"])
        os.chdir(spec["rem"])
        try:
            return path_type(spec["mode"])(spec["ref"])
        finally:
            os.chdir(W)

    out = []
    for prog in progs:
        W, argv, kw, call, env = materialise(prog, root)
        fs_table = measure_fs(root, os.path.join(root, "g%d" % prog["id"])) if prog.get("dirlinks") else None
        os.chdir(W)
        res = {}
        for k in [k for k in os.environ if k.startswith("C19X_")]:
            del os.environ[k]
        os.environ.update(env)
        inside = None
        obj = make_obj(call[1], W) if call[0] in ("parse_path_obj", "apply_config_obj", "ctx") else None
        if kw.get("default_config_files") and isinstance(kw["default_config_files"][0], dict):
            kw["default_config_files"] = [make_obj(kw["default_config_files"][0], W)]
        if os.getcwd() != W:
            raise RuntimeError("harness: not back in the working directory")
        try:
            parser = build_parser(3, **kw)
            if call[0] == "parse_path":
                cfg = parser.parse_path(call[1])
            elif call[0] == "parse_path_obj":
                cfg = parser.parse_path(obj)
            elif call[0] == "apply_config_obj":
                cfg = Namespace()
                ActionConfigFile.apply_config(parser, cfg, "cfg", obj)
            elif call[0] == "ctx":
                with obj.relative_path_context() as d:
                    inside = [d, os.getcwd()]
                    cfg = parser.parse_args(argv)
            else:
                cfg = parser.parse_args(argv)
            res = {"ok": True, "paths": flatten_paths(cfg)}
        except ArgumentError as ex:
            res = {"ok": False, "exc": "ArgumentError", "msg": str(ex)[-300:]}
        except BaseException as ex:  # noqa: BLE001
            res = {"ok": False, "exc": type(ex).__name__, "msg": str(ex)[-300:]}
        res["cwd_after"] = os.getcwd()
        res["cwd_before"] = W
        res["ctx_inside"] = inside
        cpd = U.current_path_dir.get()
        res["cpd_after"] = cpd
        if cpd is not None:
            U.current_path_dir.set(None)
        os.chdir(root)
        res = canon_paths(res, root)
        if fs_table:
            # the edge from "/" to the scratch root carries the root's real name; canonically the root is /FIX
            fs_table["edges"][1][1] = "FIX"
            res["fs"] = {"names": ["/FIX" + q[len(root):] if q.startswith(root) else q for q in fs_table["names"]], "edges": fs_table["edges"]}
        out.append(res)
    return out


def judge_load(ctx, prog, real, model):
    """returns (correspondence problem | None, oracle problem | None, known finding id | None)"""
    exp_ok, seq, unstable = expectation(prog)
    triples = final_of(seq)
    W = "/FIX/g%d/%s" % (prog["id"], prog["wdir"])
    corr = None
    if model is not None:
        if model["ok"] != real["ok"]:
            corr = "model says %s, parse %s (%s)" % ("ok" if model["ok"] else "fail", "succeeds" if real["ok"] else "fails", real.get("exc"))
        elif model["cwd"] != real["cwd_after"] or model["cpd"] != real["cpd_after"]:
            corr = "state after: model cwd=%s cpd=%s, real cwd=%s cpd=%s" % (model["cwd"], model["cpd"], real["cwd_after"], real["cpd_after"])
        elif real["ok"] and len(model["trace"]) != len(seq):
            corr = "model trace has %d entries, the program %d" % (len(model["trace"]), len(seq))
        elif real["ok"]:
            # the namespace holds the last assignment of every position: the model resolves each assignment on its own
            mt = final_of(seq, [(t["rel"], t["abs"], t["base"]) for t in model["trace"]])
            rt = {tuple(t) for t in real["paths"]}
            if mt != rt:
                corr = "resolved paths differ: only model %s, only real %s" % (sorted(mt - rt)[:3], sorted(rt - mt)[:3])
    orc, known = None, None
    if model is not None and "exist" in model and exp_ok and model["exist"] == bool(unstable):
        # the harness's reading of "list files are stable" (kresolve) and the model's existItemsF disagree
        corr = corr or "existItemsF=%s but the harness finds unstable=%s" % (model["exist"], unstable)
    if real["cwd_after"] != W:
        orc = "working directory after the call is %s, was %s" % (real["cwd_after"], W)
    elif real["cpd_after"] is not None:
        orc = "current_path_dir after the call is %r" % (real["cpd_after"],)
    elif prog["entry"] == "ctx" and real.get("ctx_inside") and real["ctx_inside"][1] != "/FIX/g%d/%s" % (prog["id"], prog["top"][0]["fdir"]):
        orc = "inside relative_path_context() of a Path for %s the working directory is %s" % ("/FIX/g%d/%s" % (prog["id"], prog["top"][0]["file"]), real["ctx_inside"][1])
    elif real["ok"] and not exp_ok:
        orc = "parse succeeds although the program contains a failing item (%s)" % ", ".join(sorted({n["fail"] for n in all_nodes(prog["top"]) if n.get("fail")}))
    elif not real["ok"] and exp_ok:
        if unstable:
            known = F_LIST
        else:
            orc = "parse fails (%s: %s) although every path exists relative to its config file" % (real.get("exc"), " ".join(real.get("msg", "").split())[-200:])
    elif real["ok"]:
        rt = {tuple(t) for t in real["paths"]}
        if rt != triples:
            orc = "path values are not resolved against the directory of their (last) source: unexpected %s, missing %s" % (sorted(rt - triples)[:3], sorted(triples - rt)[:3])
    return corr, orc, known


def run_programs(ctx, root, progs):
    reals = in_child(load_child, root, progs)
    lines = []
    for p, r in zip(progs, reals):
        W = "/FIX/g%d/%s" % (p["id"], p["wdir"])
        if p.get("dirlinks"):
            # the file-system model: the kernel's automaton as measured in the child
            if W not in r["fs"]["names"]:
                raise MachineryError("measured file system has no directory " + W)
            lines.append({"op": "runfs", "names": r["fs"]["names"], "edges": r["fs"]["edges"], "cwd": r["fs"]["names"].index(W), "cpd": None,
                          "items": model_items(p)})
        else:
            lines.append({"op": "run", "cwd": W, "cpd": None, "items": model_items(p)})
    models = [None] * len(progs)
    try:
        models = ctx.driver("PathMode", lines)
    except MachineryError as ex:
        if ctx.lean_ok:
            raise
        ctx.tie_break("correspondence E6 not runnable (model does not build)", str(ex))
    return reals, models


def shrink_program(ctx, root_maker, prog, still_bad, budget=40):
    """greedy removal of nodes while the problem persists"""
    import copy

    cur = copy.deepcopy(prog)
    trials = 0
    changed = True
    while changed and trials < budget:
        changed = False
        paths = []

        def collect(nodes, pre):
            for i, n in enumerate(nodes):
                paths.append(pre + [i])
                if n["k"] in ("sub", "obj"):
                    collect(n["items"], pre + [i])

        collect(cur["top"], [])
        for pth in sorted(paths, key=len):
            cand = copy.deepcopy(cur)
            nodes = cand["top"]
            for i in pth[:-1]:
                nodes = nodes[i]["items"]
            if len(pth) == 1 and cand["entry"] != "args" and pth[0] == 0:
                continue                                           # the entry point's own config / context object stays
            del nodes[pth[-1]]
            trials += 1
            if still_bad(cand):
                cur = cand
                changed = True
                break
            if trials >= budget:
                break
    return cur


def load_stage(ctx: Ctx, nprog):
    rng = ctx.rng
    from ..lib import corpus as corpus_mod

    progs = []
    for c in corpus_mod.load(ctx.prop):
        if c.get("kind") == "load":
            progs.append(c["prog"])
    ncorpus = len(progs)
    for i in range(nprog):
        r = rng.random()
        g = Gen(rng, 1000 + i, links=r < 0.3)
        if r < 0.04:
            progs.append(g.dotdot_program())
            continue
        p = dedupe_keys(g.program())
        if g.links:
            p["dirlinks"] = True
        failed = False
        if p["entry"] in ("args", "dcf") and rng.random() < 0.4:
            failed = g.add_duplicates(p)
        if rng.random() < 0.5:
            add_links(rng, p)
        if not failed and rng.random() < 0.3:
            inject_failure(rng, p)
        progs.append(p)
    for i, p in enumerate(progs):
        p["id"] = i
        rebase(p, i)
    root = make_root()
    reals, models = run_programs(ctx, root, progs)
    ncorr = norc = 0
    for idx, (p, real, model) in enumerate(zip(progs, reals, models)):
        ctx.count()
        nodes = list(all_nodes(p["top"]))
        depth = prog_depth(p["top"])
        ctx.hist("load_entry", p["entry"])
        ctx.hist("load_dir_links", "link/.. (%s)" % p["dotdot"] if p.get("dotdot") else "links on the way" if p.get("dirlinks") and any(
            any(("/" + lp + "/") in ("/" + str(n.get(k, "")) + "/") or str(n.get(k, "")).startswith(lp + "/") for lp, _ in LINKS) for n in nodes for k in ("ref", "rel")) else
            "links present, unused" if p.get("dirlinks") else "no links")
        if p.get("dup"):
            ctx.hist("load_duplicate_key", p["dup"])
        ctx.hist("load_symlinked_files", sum(1 for n in nodes if n.get("link")))
        ctx.hist("load_depth", depth)
        ctx.hist("load_outcome", "ok" if real["ok"] else "fail:" + str(real.get("exc")))
        for n in nodes:
            if n.get("fail"):
                ctx.hist("load_fail_kind", n["k"] + ":" + n["fail"])
        if depth >= 1 and len(nodes) >= 2:
            ctx.nontrivial("load|" + json.dumps(model_items(p), sort_keys=True) + "|" + p["wdir"] + "|" + p["entry"])
        corr, orc, known = judge_load(ctx, p, real, model)
        if known and ctx.is_open(known):
            ctx.known(known, "a List[Path] argument rejects a line-per-path list file named by a relative spelling with a directory part (e.g. %s), the absolute spelling is accepted" % next((n["ref"] for n in nodes if n["k"] == "list" and not n["yaml"] and not list_stable("/FIX/g%d/%s" % (p["id"], n["dir"]), n["ref"], p)), "?"))
        elif known:
            orc = "parse fails (%s) although every path exists relative to its config file" % " ".join(real.get("msg", "").split())[-200:]
        if corr:
            ncorr += 1
            if ncorr <= 1:
                def still(c, want="corr"):
                    r2, m2 = run_programs(ctx, make_root(), [c])
                    return judge_load(ctx, c, r2[0], m2[0])[0] is not None
                small = shrink_program(ctx, make_root, p, still, budget=20)
                r2, m2 = run_programs(ctx, make_root(), [small])
                ctx.tie_break("correspondence E6 (runItems vs parse_args/parse_path with nested config files) disagrees",
                              json.dumps({"problem": judge_load(ctx, small, r2[0], m2[0])[0], "prog": small, "real": r2[0], "model": m2[0]})[:1900])
        if orc:
            norc += 1
            if norc > 4:
                continue

            def still_o(c):
                r2 = in_child(load_child, make_root(), [c])
                return judge_load(ctx, c, r2[0], None)[1] is not None
            small = shrink_program(ctx, make_root, p, still_o, budget=30) if norc <= 2 else p
            r2 = in_child(load_child, make_root(), [small])
            _, o2, _ = judge_load(ctx, small, r2[0], None)
            ctx.violation("nested config files: " + (o2 or orc), {"kind": "load", "prog": small, "real": r2[0], "origin": "corpus" if idx < ncorpus else "generated"})
    ctx.extra["load_programs"] = len(progs)
    ctx.extra["correspondence_disagreements_load"] = ncorr
    for p in progs[ncorpus:ncorpus + 2]:
        ctx.sample({"wdir": p["wdir"], "entry": p["entry"], "items": model_items(p)})


def prog_depth(nodes):
    d = 0
    for n in nodes:
        if n["k"] in ("sub", "obj"):
            d = max(d, 1 + prog_depth(n["items"]))
        elif n["k"] == "list":
            d = max(d, 1)
    return d


def rebase(prog, new_id):
    """rewrite the /FIX/g<old> prefix of every spelling to /FIX/g<new_id>"""
    pat = re.compile(r"^/FIX/g\d+(?=/|$)")

    def fix(s):
        return pat.sub("/FIX/g%d" % new_id, s)

    for n in all_nodes(prog["top"]):
        for k in ("rel", "ref"):
            if k in n:
                n[k] = fix(n[k])
        for e in n.get("els", []):
            e["rel"] = fix(e["rel"])


def run(ctx: Ctx):
    repo_python_path()
    ctx.rule = ("default stage: full grid (Path default or none) x (same / other spelling) x (mode satisfied here or not) x (Path_fr / Optional). path stage: every valid mode string of <=3 (thorough <=4) flags over the alphabet probed from Path._check_mode x fixture entries "
                "(path kind x spelling x working directory), real Path(p, mode) under uid 65534 vs Lean checkPath on independently taken facts vs the "
                "docstring oracle; non-trivial = (cwd, entry, flag multiset) whose outcome is a rejection or an acceptance of an existing path. "
                "load stage: generated programs of nested config files; non-trivial = program with >=1 config level and >=2 nodes, distinct by "
                "(model items, cwd, entry point)")
    ctx.assumptions = [
        "the file system does not change between two probes of one Path() call (facts are one snapshot)",
        "os.stat/os.access/os.path.realpath/expanduser of the running Python are the oracle of the file system",
        "URL/fsspec paths, Windows and skip_check are outside; flags u and s only permit",
        "programs without prog['dirlinks'] (string model): DIRECTORIES on the way to config files are not symlinks; programs with it (file-system "
        "model): three directory symlinks per tree, spellings go through them, the kernel's automaton is measured with os.path.realpath; config, "
        "list and context FILES may be symlinks in both: their directory is the one they are named in (dirname of .absolute), never the target's",
        "list files: nothing else lives where the second resolution of a relative spelling points",
        "path-typed arguments have no Path-object default (the `val == default` shortcut of adapt_typehints is the open finding C19-default-same-spelling)",
    ]
    ctx.lean_build(extractors=["path_flags"])
    warm_up()
    from ..extractors.path_flags import probe_check_mode
    from jsonargparse import Path

    alphabet = "".join(probe_check_mode(Path._check_mode, "fdrwxcusFDRWX")[0])
    corpus_paths(ctx)
    path_stage(ctx, alphabet, ctx.budget(3, 4))
    load_stage(ctx, ctx.budget(400, 5000) * (2 if ctx.search_boost > 1 else 1))
    default_stage(ctx)
    ctx.replay_fixed_demos()
    replay_open_findings(ctx)


def corpus_paths(ctx):
    from ..lib import corpus as corpus_mod

    for c in corpus_mod.load(ctx.prop):
        if c.get("kind") != "paths":
            continue
        res = in_child(path_witnesses_child, make_root(), c["cases"])
        for w, r in zip(c["cases"], res):
            ctx.count()
            if r["deviates"]:
                fid = finding_of(canon_mode(w["mode"]), r["facts"], r["real"] == "ok") if not r["real"].startswith(("exc:", "pe?")) else None
                if fid and ctx.is_open(fid):
                    ctx.known(fid, KNOWN_TEXT[fid] % (w["mode"], w["label"]))
                else:
                    ctx.violation("Path(%r, %r) gives %s; every flag satisfied (docstring oracle): %s" % (r["spelling"], w["mode"], r["real"], r["want_ok"]),
                                  dict(w, kind="path", real=r["real"], facts=r["facts"], origin="corpus"))


def path_witnesses_child(root, cases):
    os.environ["HOME"] = os.path.join(root, "home")
    names = build_kinds(root)
    return [path_witness_eval(root, names, w) for w in cases]


def replay_open_findings(ctx):
    for f in ctx.open_findings():
        w = f["witness"]
        if w.get("kind") == "path":
            root = make_root()
            r = in_child(path_witness_child, root, w)
            ctx.count()
            if r["deviates"]:
                ctx.known(f["id"], f["description"])
            else:
                ctx.stale_findings.append(f["id"])
        elif w.get("kind") == "default":
            r = in_child(default_witness_child, make_root(), w)
            ctx.count()
            if r["deviates"]:
                ctx.known(f["id"], f["description"][:260])
            else:
                ctx.stale_findings.append(f["id"])
        elif w.get("kind") == "load":
            import copy

            prog = copy.deepcopy(w["prog"])
            reals, models = run_programs(ctx, make_root(), [prog])
            _, orc, known = judge_load(ctx, prog, reals[0], models[0])
            ctx.count()
            if known or orc:
                ctx.known(f["id"], f["description"])
            else:
                ctx.stale_findings.append(f["id"])


def default_grid_child(root, cases):
    """a path-typed argument with / without a Path default, given the default's spelling or another one, from a directory
    where the file exists or not: what comes back (a Path, the plain str, a rejection)"""
    from typing import Optional

    from jsonargparse import ArgumentParser, Path
    from jsonargparse.typing import Path_fr

    os.makedirs(os.path.join(root, "a"))
    os.makedirs(os.path.join(root, "w"))
    out = []
    for c in cases:
        for nm in {c["v"], c["dspell"]}:
            with open(os.path.join(root, "a", nm), "w") as f:
                f.write("x\n")
            q = os.path.join(root, "w", nm)
            if os.path.exists(q):
                os.remove(q)
        if c["sat"]:
            with open(os.path.join(root, "w", c["v"]), "w") as f:
                f.write("x\n")
        os.chdir(os.path.join(root, "a"))
        default = Path_fr(c["dspell"]) if c["default"] else None
        os.chdir(os.path.join(root, "w"))
        parser = ArgumentParser(exit_on_error=False)
        parser.add_argument("--file", type=Optional[Path_fr] if c["optional"] else Path_fr, default=default)
        try:
            v = parser.parse_args(["--file", c["v"]]).file
            out.append("path" if isinstance(v, Path) and v.absolute == os.path.join(root, "w", c["v"]) else "str" if type(v) is str else "other:" + type(v).__name__)
        except Exception:  # noqa: BLE001 - the class is the observation
            out.append("reject")
        os.chdir(root)
    return out


def default_stage(ctx):
    """C19-default-same-spelling, exact: model `checkTypePath` vs the real parse on the full grid; a deviation from
    "Path iff the mode is satisfied here" is the open finding exactly when the string equals the default's spelling"""
    cases = [{"default": d, "optional": o, "sat": sat, "v": v, "dspell": "data1.txt"}
             for d in (False, True) for o in (False, True) for sat in (False, True) for v in ("data1.txt", "other2.txt")]
    reals = in_child(default_grid_child, make_root(), cases)
    model = None
    try:
        model = ctx.driver("PathMode", [{"op": "checktype", "sat": c["sat"], "v": c["v"], "default": c["dspell"] if c["default"] else None} for c in cases])
    except MachineryError as ex:
        if ctx.lean_ok:
            raise
        ctx.tie_break("correspondence E6 not runnable (model does not build)", str(ex))
    for i, (c, r) in enumerate(zip(cases, reals)):
        ctx.count()
        ctx.hist("default_grid", "%s|%s|%s" % ("Path default" if c["default"] else "no default", "same spelling" if c["v"] == c["dspell"] else "other spelling", "satisfied" if c["sat"] else "not satisfied"))
        if model is not None and model[i]["r"] != r:
            ctx.tie_break("correspondence E6 (checkTypePath vs parse_args of a path-typed argument with a default) disagrees", json.dumps({"case": c, "real": r, "model": model[i]["r"]}))
        want = "path" if c["sat"] else "reject"
        if r != want:
            if c["default"] and c["v"] == c["dspell"] and not c["sat"] and r == "str" and ctx.is_open("C19-default-same-spelling"):
                ctx.known("C19-default-same-spelling", "a path-typed argument whose default is Path(%r) returns the plain str %r from a directory where it does not satisfy the mode" % (c["dspell"], c["v"]))
            else:
                ctx.violation("--file %s (type %s, default %s) from a directory where the file %s gives %s" % (
                    c["v"], "Optional[Path_fr]" if c["optional"] else "Path_fr", "Path_fr(%r) created elsewhere" % c["dspell"] if c["default"] else "None",
                    "exists" if c["sat"] else "is missing", r), {"kind": "defaultgrid", "case": c, "real": r})


def default_witness_child(root, w):
    """default = Path_fr(spelling) created in one directory, the same spelling given from a directory where the file is missing"""
    from typing import Optional

    from jsonargparse import ArgumentParser, Path
    from jsonargparse.typing import Path_fr

    for d in (w["default_dir"], w["wdir"]):
        os.makedirs(os.path.join(root, d))
    with open(os.path.join(root, w["default_dir"], w["spelling"]), "w") as f:
        f.write("x\n")
    os.chdir(os.path.join(root, w["default_dir"]))
    default = Path_fr(w["spelling"])
    os.chdir(os.path.join(root, w["wdir"]))
    out = []
    for tp in (Path_fr, Optional[Path_fr]):
        parser = ArgumentParser(exit_on_error=False)
        parser.add_argument("--file", type=tp, default=default)
        try:
            v = parser.parse_args(["--file", w["spelling"]]).file
            out.append("accepted as " + type(v).__name__ if not isinstance(v, Path) else "accepted as Path at " + v.absolute.replace(root, "/FIX"))
        except Exception as ex:  # noqa: BLE001
            out.append("rejected: " + type(ex).__name__)
    return {"outcomes": out, "deviates": any(not o.startswith("rejected") for o in out)}


def path_witness_child(root, w):
    """re-evaluate one (entry, cwd, mode) of the path fixture; deviates = real outcome differs from the docstring oracle"""
    from jsonargparse import Path

    os.environ["HOME"] = os.path.join(root, "home")
    names = build_kinds(root)
    return path_witness_eval(root, names, w)


def path_witness_eval(root, names, w):
    from jsonargparse import Path

    sps = dict(spellings(root, names))
    if w["label"] not in sps:
        return {"real": "?", "want_ok": None, "facts": {}, "spelling": w["label"], "deviates": True}
    sp = sps[w["label"]]
    cwd = os.path.join(root, "w1") if w["cwd"] == "w1" else os.path.join(root, "w2", "sub")
    os.chdir(cwd)
    expanded = re.sub("^file:///?", "/", os.path.expanduser(sp))
    absolute = expanded if expanded.startswith("/") else os.path.join(cwd, expanded)
    facts = take_facts(absolute)
    try:
        Path(sp, w["mode"])
        real = "ok"
    except Exception as ex:  # noqa: BLE001
        real = classify_error(ex, w["mode"])
    want = sat_doc(w["mode"], facts, sp)
    return {"real": real, "want_ok": want, "facts": facts, "spelling": sp.replace(root, "/FIX"),
            "deviates": real.startswith("exc:") or real.startswith("pe?") or ((real == "ok") != want)}


def replay(ctx: Ctx, body):
    repo_python_path()
    warm_up()
    rp = body["replay"]
    if rp.get("kind") == "path":
        r = in_child(path_witness_child, make_root(), rp)
        print("Path(%r, %r) in %s -> %s; every flag satisfied (docstring oracle): %s" % (r["spelling"], rp["mode"], rp["cwd"], r["real"], r["want_ok"]))
        print("facts:", r["facts"])
        return 1 if r["deviates"] else 0
    if rp.get("kind") == "load":
        import copy

        prog = copy.deepcopy(rp["prog"])
        ctx.lean_ok = True
        try:
            reals, models = run_programs(ctx, make_root(), [prog])
        except MachineryError:
            reals, models = in_child(load_child, make_root(), [prog]), [None]
        corr, orc, known = judge_load(ctx, prog, reals[0], models[0])
        print("program:", json.dumps({"wdir": prog["wdir"], "entry": prog["entry"], "items": model_items(prog)}))
        print("real:", json.dumps(reals[0]))
        print("model:", json.dumps(models[0]))
        print("oracle:", orc or known or "agrees", "| correspondence:", corr or "agrees")
        return 1 if (orc or known) else 0
    if rp.get("kind") == "default":
        r = in_child(default_witness_child, make_root(), rp)
        print(r)
        return 1 if r["deviates"] else 0
    if rp.get("kind") == "defaultgrid":
        r = in_child(default_grid_child, make_root(), [rp["case"]])
        print("case:", rp["case"], "->", r[0])
        return 1 if r[0] != ("path" if rp["case"]["sat"] else "reject") else 0
    if rp.get("kind") == "mode":
        from jsonargparse import Path

        try:
            Path._check_mode(rp["mode"])
            now = True
        except ValueError:
            now = False
        print("_check_mode(%r) valid=%s" % (rp["mode"], now))
        return 1 if now == rp["real_valid"] else 0
    if rp.get("kind") == "demo":
        import subprocess

        from ..lib.common import REPO, VERIF

        p = subprocess.run(["/venv/bin/python", os.path.join(VERIF, rp["demo"])], env=dict(os.environ, PYTHONPATH=REPO))
        return 1 if p.returncode != 0 else 0
    print("tie broken without a concrete input:", json.dumps(rp)[:2000])
    return 1

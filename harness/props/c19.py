"""C19 — Path types accept exactly what the mode says; relative paths follow the config.

Pipeline
 (1) regenerate Gen/PathFlags (rules of Path._check_mode, the flag tests of Path.__init__ in source
     order) and build Props/C19 (accept_iff partial + refutation witnesses, no OS error escapes,
     abs/rel, rel_to_cfg, cwd_restored);
 (2) path stage, in a forked child that dropped privileges to uid/gid 65534 (the sandbox runs as
     root, for which os.access is vacuous): EVERY mode string of <= 3 (thorough: <= 4) flags x a
     fixture of path kinds x spellings x 2 working directories.  `Path(p, mode)` outcome
     (ok / PathError message class / other exception) is compared with the Lean model
     (`checkPath` on facts taken independently with os.stat/os.access/os.path.realpath) and with an
     oracle `sat_doc` written from the class docstring flag by flag;
 (3) load stage, same kind of child: generated programs of 1-3 levels of config files in different
     directories referencing each other and path values relatively (ActionConfigFile, nested
     ActionParser = _ActionConfigLoad, List[Path_fr]/Dict[str, Path_fr] with enable_path =
     ActionTypeHint._check_type, parse_path, default_config_files), including failing ones;
     `.relative/.absolute/.cwd` of every parsed path value, os.getcwd() and current_path_dir after
     the call are compared with the model's `runItems` and with the static expectation of the generator;
 (4) replay of the repaired defect F16 and of the open findings.
"""
from __future__ import annotations

import atexit
import itertools
import json
import os
import re
import shutil
import socket
import stat
import sys
import tempfile
import traceback

from ..lib.common import Ctx, MachineryError, repo_python_path

MANIFEST = {
    "engine": "E6-PathMode",
    "technique": "Lean 4 decision-table proof over a source-order transcription of Path.__init__ + bracket model of change_to_path_dir; "
                 "regenerated flag table; exhaustive differential correspondence under an unprivileged uid",
    "text": "Theorems in lean/Jap/Props/C19.lean prove, for all modes and all well-formed file-system snapshots, that the model of Path.__init__ "
            "accepts iff every flag of the mode is satisfied as the class docstring describes it, away from two guarded classes (an existing FIFO under "
            "'fc'; 'cc' below a non-directory: open known findings, refutation witnesses proved), that every rejection is one of the fifteen PathError "
            "raises (no OSError escapes), the absolute/relative bookkeeping, and for all nested load programs, failing ones included, that every path "
            "value is resolved against the directory of its innermost enclosing config file and that cwd and current_path_dir are restored. The model is "
            "tied to the code by regenerating the rules of _check_mode and the flag tests of __init__ into Gen/PathFlags and by an exhaustive comparison "
            "of Path(p, mode) over every mode string of <=3 (thorough <=4) flags x a fixture of path kinds x working directories, run under uid 65534, "
            "and by generated nested config-file programs run through parse_args/parse_path.",
    "level_note": "Trusted: Lean kernel; axioms propext/Quot.sound/Classical.choice only; the extractor; the correspondence harness; os.path.expanduser/"
                  "realpath/stat/access as the oracle of the file system; one consistent snapshot of the file system per constructor call (no races). "
                  "Outside: URL and fsspec paths (flags u/s only permit), Windows, skip_check, symlinked config directories.",
}

NOBODY = 65534
F_FIFO = "C19-fifo-under-c"
F_THROUGH = "C19-cc-through-file"

# ---------------------------------------------------------------- child processes


def in_child(fn, *args, drop=True):
    """run fn(*args) in a forked child (optionally as uid/gid 65534), return its JSON-able result"""
    sys.stdout.flush()
    sys.stderr.flush()
    r, w = os.pipe()
    pid = os.fork()
    if pid == 0:
        try:
            os.close(r)
            if drop and os.getuid() == 0:
                os.setgroups([])
                os.setgid(NOBODY)
                os.setuid(NOBODY)
            out = {"result": fn(*args)}
        except BaseException:  # noqa: BLE001
            out = {"child_error": traceback.format_exc()}
        try:
            data = json.dumps(out).encode("utf-8", "surrogatepass")
            with os.fdopen(w, "wb") as f:
                f.write(data)
        finally:
            os._exit(0)
    os.close(w)
    with os.fdopen(r, "rb") as f:
        data = f.read()
    os.waitpid(pid, 0)
    if not data:
        raise MachineryError("child process died without a result")
    out = json.loads(data.decode("utf-8", "surrogatepass"))
    if "child_error" in out:
        raise MachineryError("child process failed: " + out["child_error"][-3000:])
    return out["result"]


_ROOTS = []


def _cleanup():
    for r in _ROOTS:
        shutil.rmtree(r, ignore_errors=True)


atexit.register(_cleanup)


def make_root():
    """world-traversable scratch directory owned by the unprivileged user"""
    root = os.path.realpath(tempfile.mkdtemp(dir="/tmp", prefix="c19-"))
    os.chmod(root, 0o755)
    if os.getuid() == 0:
        os.chown(root, NOBODY, NOBODY)
    _ROOTS.append(root)
    return root


def warm_up():
    """load every lazily imported module while the interpreter's directories are still readable"""
    from typing import Dict, List, Optional  # noqa: F401

    import jsonargparse
    import jsonargparse.typing
    from jsonargparse import ActionConfigFile, ActionParser, ArgumentParser
    from jsonargparse.typing import Path_fr

    d = tempfile.mkdtemp(dir="/tmp", prefix="c19w-")
    _ROOTS.append(d)
    try:
        with open(os.path.join(d, "t.txt"), "w") as f:
            f.write("x\n")
        with open(os.path.join(d, "l.txt"), "w") as f:
            f.write("t.txt\n")
        with open(os.path.join(d, "i.yaml"), "w") as f:
            f.write("pa: t.txt\n")
        with open(os.path.join(d, "c.yaml"), "w") as f:
            f.write("pa: t.txt\nlst: l.txt\ndct: {k: t.txt}\ninner: i.yaml\n")
        for kw in ({}, {"default_config_files": [os.path.join(d, "c.yaml")]}):
            p = build_parser(3, **kw)
            p.parse_args(["--cfg", os.path.join(d, "c.yaml")])
            p.parse_path(os.path.join(d, "c.yaml"))
            try:
                p.parse_args(["--cfg", os.path.join(d, "nope.yaml")])
            except jsonargparse.ArgumentError:
                pass
            try:
                p.parse_args(["--pa", os.path.join(d, "nope.txt")])
            except jsonargparse.ArgumentError:
                pass
        for m in ("fr", "F", "dcc", "fc"):
            try:
                jsonargparse.Path(os.path.join(d, "nope", "x"), m)
            except TypeError:
                pass
    finally:
        shutil.rmtree(d, ignore_errors=True)


# ---------------------------------------------------------------- modes


def all_mode_strings(alphabet, n):
    for k in range(0, n + 1):
        for tup in itertools.product(alphabet, repeat=k):
            yield "".join(tup)


def canon_mode(m):
    return "".join(sorted(m))


# ---------------------------------------------------------------- fixture of path kinds

PE_CLASSES = [
    ("is not creatable since parent directory does not exist", "pe1"),
    ("is not creatable since parent directory not writeable", "pe2"),
    ("is not creatable since path already exists", "pe3/4"),
    ("does not exist", "pe5"),
    ("Path is not a directory", "pe6"),
    ("Path is not a file", "pe7"),
    ("is not readable", "pe8"),
    ("is not writeable", "pe9"),
    ("is not executable", "pe10"),
    ("Path is a directory", "pe11"),
    ("Path is a file", "pe12"),
    ("is readable", "pe13"),
    ("is writeable", "pe14"),
    ("is executable", "pe15"),
]
MODEL_CLASS = {"pe3": "pe3/4", "pe4": "pe3/4"}
# kinds whose message starts with "Directory"/"File" according to 'd' in mode
PTYPE_KINDS = {"pe1", "pe2", "pe3/4", "pe5", "pe8", "pe9", "pe10", "pe13", "pe14", "pe15"}


def classify_error(ex, mode):
    """PathError message -> class; anything else -> exc:<type>"""
    from jsonargparse._util import PathError

    if not isinstance(ex, PathError):
        return "exc:" + type(ex).__name__
    head = str(ex).split(": ")[0]
    for text, cls in PE_CLASSES:
        if head.endswith(text):
            if cls in PTYPE_KINDS:
                want = ("Directory " if "d" in mode else "File ") + text
                if head != want:
                    return "pe?:" + head[:60]
            return cls
    return "pe?:" + head[:60]


def build_kinds(root):
    """create the fixture below root (as the unprivileged user); returns names of the entries below root/k"""
    K = os.path.join(root, "k")
    os.makedirs(os.path.join(root, "w1"))
    os.makedirs(os.path.join(root, "w2", "sub"))
    os.makedirs(os.path.join(root, "home"))
    os.mkdir(K)

    def touch(p, mode=0o644, text="x\n"):
        with open(p, "w") as f:
            f.write(text)
        os.chmod(p, mode)

    touch(os.path.join(root, "home", "hfile"))
    touch(os.path.join(K, "file"))
    os.mkdir(os.path.join(K, "dir"))
    touch(os.path.join(K, "dir", "inside"))
    os.mkfifo(os.path.join(K, "fifo"), 0o644)
    os.chmod(os.path.join(K, "fifo"), 0o644)
    s = socket.socket(socket.AF_UNIX)
    s.bind(os.path.join(K, "sock"))
    s.close()
    os.symlink("file", os.path.join(K, "ln_file"))
    os.symlink("dir", os.path.join(K, "ln_dir"))
    os.symlink("nothing", os.path.join(K, "dangling"))
    os.symlink("fifo", os.path.join(K, "ln_fifo"))
    os.mkdir(os.path.join(K, "ro"))
    os.symlink("ro/newfile", os.path.join(K, "ln_ro"))      # dangling into a read-only directory
    os.symlink("nodir2/newfile", os.path.join(K, "ln_nodir"))  # dangling, target's parent missing
    touch(os.path.join(K, "f_r0"), 0o200)
    touch(os.path.join(K, "f_w0"), 0o400)
    touch(os.path.join(K, "f_x1"), 0o755)
    touch(os.path.join(K, "f_000"), 0o000)
    touch(os.path.join(K, "f_wx"), 0o300)
    for name, mode in (("d_r0", 0o300), ("d_w0", 0o500), ("d_x0", 0o600), ("d_000", 0o000), ("d_rx", 0o500)):
        d = os.path.join(K, name)
        os.mkdir(d)
        touch(os.path.join(d, "inside"))
        os.mkdir(os.path.join(d, "subdir"))
    names = [
        "file", "dir", "fifo", "sock", "ln_file", "ln_dir", "ln_fifo", "dangling", "ln_ro", "ln_nodir",
        "missing", "nodir/missing", "nodir/a/b/missing", "file/below", "file/a/below", "fifo/below", "ln_file/below",
        "dir/inside", "dir/missing", "dir/nodir/missing", "ln_dir/inside", "ln_dir/missing",
        "f_r0", "f_w0", "f_x1", "f_000", "f_wx",
        "d_r0", "d_w0", "d_x0", "d_000",
        "d_w0/inside", "d_w0/missing", "d_w0/nodir/missing", "d_w0/subdir",
        "d_x0/inside", "d_x0/missing", "d_x0/subdir/missing", "d_x0/nodir/missing",
        "d_r0/inside", "d_r0/missing",
        "d_000/inside", "d_000/nodir/missing",
        "ro/missing", "ro/nodir/missing",
        "dir/", "file/", "dir/.", "dir/..", "dir/../file", "missing/",
    ]
    # permissions last (the entries above had to be created first)
    os.chmod(os.path.join(K, "ro"), 0o555)
    for name, mode in (("d_r0", 0o300), ("d_w0", 0o500), ("d_x0", 0o600), ("d_000", 0o000)):
        os.chmod(os.path.join(K, name), mode)
    return names


def spellings(root, names, quick_subset=None):
    """[(label, spelling)]: absolute, relative from w1, relative from w2/sub, and the special ones"""
    K = os.path.join(root, "k")
    out = []
    for n in names:
        out.append(("abs:" + n, os.path.join(K, n)))
        out.append(("rel1:" + n, "../k/" + n))
        out.append(("rel2:" + n, "../../k/" + n))
    out += [
        ("dot", "."), ("dotdot", ".."), ("empty", ""), ("stdio", "-"), ("tilde", "~"), ("tilde-file", "~/hfile"), ("tilde-missing", "~/nope/x"),
        ("scheme:file", "file://" + os.path.join(K, "file")), ("scheme:dir", "file://" + os.path.join(K, "dir").lstrip("/")),
        ("rel-missing", "nope"), ("rel-deep-missing", "nope/a/b"), ("sub", "sub"), ("sub-missing", "sub/x/y"),
        ("dash-file", "./-"), ("root", "/"), ("root-missing", "/c19-nonexistent/x"),
    ]
    return out


def take_facts(p):
    """what the process can see of absolute path p; independent of jsonargparse (os.stat, os.access, realpath)"""
    try:
        st = os.stat(p)
        stat_ok = True
    except OSError:
        st = None
        stat_ok = False
    f = {
        "ex": os.access(p, os.F_OK),
        "statOk": stat_ok,
        "isDir": bool(st and stat.S_ISDIR(st.st_mode)),
        "isFile": bool(st and stat.S_ISREG(st.st_mode)),
        "isFifo": bool(st and stat.S_ISFIFO(st.st_mode)),
        "r": os.access(p, os.R_OK),
        "w": os.access(p, os.W_OK),
        "x": os.access(p, os.X_OK),
    }
    # ancestors of the resolved location: parent, grand-parent, ...
    chain = []
    q = os.path.dirname(os.path.realpath(p))
    while True:
        chain.append(q)
        nq = os.path.dirname(q)
        if nq == q:
            break
        q = nq

    def is_dir(q):
        try:
            return stat.S_ISDIR(os.stat(q).st_mode)
        except OSError:
            return False

    def exists(q):
        try:
            os.stat(q)
            return True
        except OSError:
            return os.path.islink(q)

    par = chain[0]
    f["parDir"] = is_dir(par)
    f["parW"] = os.access(par, os.W_OK)
    anc = next((q for q in chain if is_dir(q)), None)
    f["ancDir"] = anc is not None
    f["ancW"] = bool(anc) and os.access(anc, os.W_OK)
    near = next((q for q in chain if exists(q)), None)
    f["nearDir"] = bool(near) and is_dir(near)
    f["nearW"] = bool(near) and os.access(near, os.W_OK)
    return f


def path_child(root, modes, want_perms):
    """runs as the unprivileged user: build the fixture, evaluate Path(p, mode) for every spelling x cwd x mode"""
    from jsonargparse import Path

    os.environ["HOME"] = os.path.join(root, "home")
    names = build_kinds(root)
    sps = spellings(root, names)
    canon = {}
    for m in modes:
        canon.setdefault(canon_mode(m), []).append(m)
    cwds = [("w1", os.path.join(root, "w1")), ("w2", os.path.join(root, "w2", "sub"))]
    out = {"uid": os.getuid(), "entries": [], "book": [], "perm": []}
    for cwd_label, cwd in cwds:
        os.chdir(cwd)
        for label, sp in sps:
            expanded = os.path.expanduser(sp)
            expanded_l = re.sub("^file:///?", "/", expanded)
            absolute = expanded_l if expanded_l.startswith("/") else os.path.join(os.getcwd(), expanded_l)
            facts = take_facts(absolute)
            res = {}
            for cm, perms in canon.items():
                first = None
                for m in (perms if want_perms else perms[:1]):
                    try:
                        p = Path(sp, m)
                        o = "ok"
                        if p.relative != sp or p.absolute != absolute or p.cwd != cwd or str(p) != sp or p() != absolute \
                                or p(absolute=False) != sp or os.fspath(p) != absolute or p.mode != m:
                            if len(out["book"]) < 20:
                                out["book"].append({"cwd": cwd_label, "label": label, "spelling": sp, "mode": m, "relative": p.relative,
                                                    "absolute": p.absolute, "pcwd": p.cwd, "want_absolute": absolute})
                    except Exception as ex:  # noqa: BLE001 - the class is the observation
                        o = classify_error(ex, m)
                    if first is None:
                        first = o
                    elif o != first and len(out["perm"]) < 20:
                        out["perm"].append({"cwd": cwd_label, "label": label, "modes": [perms[0], m], "outcomes": [first, o]})
                res[cm] = first
            if os.getcwd() != cwd:
                raise RuntimeError("Path() changed the working directory")
            out["entries"].append({"cwd": cwd_label, "label": label, "spelling": sp, "expanded": expanded, "absolute": absolute,
                                   "facts": facts, "res": res})
    return out


# ---------------------------------------------------------------- the docstring oracle


def sat_doc(mode, f, spelling=None):
    """Does the file system satisfy every flag of `mode`?  Written from the docstring of class Path:
    f=file, d=directory (the path exists - unless it may be created - and is of that kind; a FIFO counts as a
    file), r/w/x = readable/writeable/executable, upper case = not; c once: the parent directory must exist and be
    writeable; c twice: the parent need not exist but should be allowed to create = the nearest existing ancestor is
    a writeable directory; u/s permit URLs, they demand nothing.  "-" is standard input/output, always accepted."""
    if spelling == "-":
        return True
    c = mode.count("c")
    for fl in set(mode):
        if fl == "f":
            ok = (f["ex"] or c > 0) and (not f["ex"] or f["isFile"] or f["isFifo"])
        elif fl == "d":
            ok = (f["ex"] or c > 0) and (not f["ex"] or f["isDir"])
        elif fl == "c":
            ok = (f["parDir"] and f["parW"]) if c == 1 else (f["nearDir"] and f["nearW"])
        elif fl in "rwx":
            ok = f[fl]
        elif fl in "RWX":
            ok = not f[fl.lower()]
        elif fl == "F":
            ok = not (f["isFile"] or f["isFifo"])
        elif fl == "D":
            ok = not f["isDir"]
        elif fl in "us":
            ok = True
        else:
            raise MachineryError("flag outside the docstring: %r" % fl)
        if not ok:
            return False
    return True


def finding_of(mode, f, real_ok):
    """signature match of the two open findings (row 17)"""
    c = mode.count("c")
    if real_ok and c == 2 and not f["parDir"] and not f["nearDir"]:
        return F_THROUGH
    if not real_ok and c > 0 and "f" in mode and f["isFifo"]:
        return F_FIFO
    return None


def canon_paths(obj, root):
    """replace the scratch root in every string (replays and samples must not depend on temp names)"""
    if isinstance(obj, str):
        return obj.replace(root, "/FIX")
    if isinstance(obj, list):
        return [canon_paths(x, root) for x in obj]
    if isinstance(obj, dict):
        return {k: canon_paths(v, root) for k, v in obj.items()}
    return obj


def facts_key(f):
    return "".join("1" if f[k] else "0" for k in ("ex", "statOk", "isDir", "isFile", "isFifo", "r", "w", "x", "parDir", "parW", "ancDir", "ancW", "nearDir", "nearW"))


def path_stage(ctx: Ctx, alphabet, nflags):
    modes_all = list(all_mode_strings(alphabet, nflags))
    from jsonargparse import Path

    def valid(m):
        try:
            Path._check_mode(m)
            return True
        except ValueError:
            return False

    real_valid = {m: valid(m) for m in modes_all}
    # also strings with characters outside the alphabet / too many repetitions
    extra = ["z", "fz", "ccc", "fccc", "ff", "rr", "fd", "df", "du", "ds", "fF", "dD", "-", " ", "fr ", "C", "U", "S"]
    for m in extra:
        real_valid.setdefault(m, valid(m))
    # --- checkMode correspondence
    mlist = sorted(real_valid)
    model_valid = None
    try:
        model_valid = ctx.driver("PathMode", [{"op": "checkMode", "modes": mlist}])[0]["r"]
    except MachineryError as ex:
        if ctx.lean_ok:
            raise
        ctx.tie_break("correspondence E6 not runnable (model does not build)", str(ex))
    ctx.count(len(mlist))
    if model_valid is not None:
        bad = [m for m, b in zip(mlist, model_valid) if b != real_valid[m]]
        if bad:
            bad.sort(key=len)
            ctx.tie_break("correspondence E6 (checkMode vs Path._check_mode) disagrees", json.dumps({"mode": bad[0], "real_valid": real_valid[bad[0]]}))
    # the property's side of _check_mode: a mode is valid iff it is a string over the documented flags [fdrwxcusFDRWX]
    # with no repetition except cc and without f+d, u+d, s+d (documented: "Both modes ... not possible")
    doc_alpha = "fdrwxcusFDRWX"
    for m in mlist:
        want = all(ch in doc_alpha for ch in m) and all(m.count(ch) <= (2 if ch == "c" else 1) for ch in set(m)) \
            and not ("d" in m and ("f" in m or "u" in m or "s" in m))
        if want != real_valid[m]:
            ctx.violation("Path._check_mode(%r) %s a mode that the documented flag rules %s" % (m, "accepts" if real_valid[m] else "rejects", "reject" if real_valid[m] else "accept"),
                          {"kind": "mode", "mode": m, "real_valid": real_valid[m]})
            break
    modes = [m for m in modes_all if real_valid[m]]
    ctx.extra["mode_strings"] = {"max_flags": nflags, "strings": len(modes_all), "valid": len(modes), "multisets": len({canon_mode(m) for m in modes})}

    # --- the fixture, in the unprivileged child
    root = make_root()
    data = in_child(path_child, root, modes, True)
    if os.getuid() == 0 and data["uid"] != NOBODY:
        raise MachineryError("child did not drop privileges")
    entries = data["entries"]
    ctx.extra["fixture_entries"] = len(entries)
    ctx.extra["uid_of_child"] = data["uid"]
    # --- model on the distinct fact vectors
    groups = {}
    for e in entries:
        key = (facts_key(e["facts"]), e["spelling"] == "-")
        groups.setdefault(key, []).append(e)
    cmodes = sorted({canon_mode(m) for m in modes})
    lines = []
    keys = sorted(groups)
    for key in keys:
        e = groups[key][0]
        line = {"op": "checkPath", "facts": e["facts"], "modes": cmodes}
        if key[1]:
            line["path"] = "-"
        lines.append(line)
    # bookkeeping through the model
    for e in entries:
        lines.append({"op": "mk", "path": e["spelling"], "expanded": e["expanded"], "cwd": os.path.join(root, "w1") if e["cwd"] == "w1" else os.path.join(root, "w2", "sub")})
    model = None
    try:
        model = ctx.driver("PathMode", lines)
    except MachineryError as ex:
        if ctx.lean_ok:
            raise
        ctx.tie_break("correspondence E6 not runnable (model does not build)", str(ex))
    # --- judge
    nperm = sum(len(list(itertools.permutations(cm))) for cm in cmodes)
    corr_bad, sat_bad, viol = [], [], []
    for gi, key in enumerate(keys):
        mres = model[gi] if model is not None else None
        e0 = groups[key][0]
        if mres is not None and not mres["wf"]:
            ctx.tie_break("facts measured on the real file system violate Facts.wf", json.dumps(canon_paths({"entry": e0["label"], "cwd": e0["cwd"], "facts": e0["facts"]}, root)))
        for e in groups[key]:
            ctx.hist("entry_kind", kind_of(e["facts"]))
            for mi, cm in enumerate(cmodes):
                real = e["res"][cm]
                ctx.count()
                want_ok = sat_doc(cm, e["facts"], e["spelling"])
                if mres is not None:
                    mo = mres["r"][mi]
                    mo = MODEL_CLASS.get(mo, mo)
                    if mo != real:
                        corr_bad.append((len(cm), e, cm, real, mo))
                    if e["spelling"] != "-" and mres["sat"][mi] != want_ok:
                        sat_bad.append((len(cm), e, cm, want_ok, mres["sat"][mi]))
                real_ok = real == "ok"
                if real.startswith("exc:") or real.startswith("pe?"):
                    viol.append((len(cm), e, cm, real, "Path(%r, %r) raised %s instead of accepting or raising the documented PathError"))
                elif real_ok != want_ok:
                    fid = finding_of(cm, e["facts"], real_ok)
                    if fid and ctx.is_open(fid):
                        ctx.known(fid, KNOWN_TEXT[fid] % (cm, e["label"]))
                    else:
                        viol.append((len(cm), e, cm, real, "Path(%r, %r) gives %s but the file system " + ("does not satisfy" if real_ok else "satisfies") + " every flag of the mode"))
                if real_ok and e["facts"]["ex"]:
                    ctx.nontrivial("%s|%s|%s" % (e["cwd"], e["label"], cm))
                elif not real_ok:
                    ctx.nontrivial("%s|%s|%s" % (e["cwd"], e["label"], cm))
    ctx.evaluations += (nperm - len(cmodes)) * len(entries)  # the permutations of every multiset were run on the real side too
    for b in data["book"][:3]:
        viol.append((len(b["mode"]), {"label": b["label"], "cwd": b["cwd"], "spelling": b["spelling"], "facts": {}}, b["mode"], "ok",
                     "Path(%r, %r): %s but relative/absolute/cwd are " + json.dumps(canon_paths({k: b[k] for k in ("relative", "absolute", "pcwd", "want_absolute")}, root))))
    for b in data["perm"][:3]:
        viol.append((len(b["modes"][1]), {"label": b["label"], "cwd": b["cwd"], "spelling": b["label"], "facts": {}}, b["modes"][1], b["outcomes"][1],
                     "Path(%r, %r) gives %s but the same flags in the order " + repr(b["modes"][0]) + " give " + b["outcomes"][0]))
    # bookkeeping through the model
    if model is not None:
        for e, mk in zip(entries, model[len(keys):]):
            ctx.count()
            if mk["relative"] != e["spelling"] or mk["absolute"] != e["absolute"]:
                corr_bad.append((0, e, "", e["absolute"], mk["absolute"]))
    corr_bad.sort(key=lambda t: (t[0], t[1]["label"]))
    for _, e, cm, real, mo in corr_bad[:3]:
        ctx.tie_break("correspondence E6 (checkPath/mkPath vs jsonargparse.Path) disagrees",
                      json.dumps(canon_paths({"entry": e["label"], "cwd": e["cwd"], "spelling": e["spelling"], "mode": cm, "real": real, "model": mo, "facts": e["facts"]}, root)))
    sat_bad.sort(key=lambda t: (t[0], t[1]["label"]))
    for _, e, cm, py, lean in sat_bad[:2]:
        ctx.tie_break("the harness oracle sat_doc and the Lean predicate SatDoc disagree",
                      json.dumps(canon_paths({"entry": e["label"], "mode": cm, "python": py, "lean": lean, "facts": e["facts"]}, root)))
    viol.sort(key=lambda t: (t[0], t[1]["label"]))
    seen = set()
    for _, e, cm, real, text in viol:
        sig = (text, cm)
        if sig in seen and len(seen) >= 3:
            continue
        seen.add(sig)
        ctx.violation(text % (canon_paths(e["spelling"], root), cm, real),
                      {"kind": "path", "label": e["label"], "cwd": e["cwd"], "mode": cm, "real": real, "facts": e.get("facts")})
        if len(seen) >= 4:
            break
    ctx.extra["correspondence_disagreements_path"] = len(corr_bad)
    ctx.extra["distinct_fact_vectors"] = len(keys)
    for e in entries[:2]:
        ctx.sample(canon_paths({"cwd": e["cwd"], "spelling": e["spelling"], "facts": facts_key(e["facts"]), "outcomes": dict(list(e["res"].items())[:6])}, root))
    return bool(viol)


KNOWN_TEXT = {
    F_FIFO: "an existing FIFO passes mode 'f' but is rejected as 'path already exists' as soon as 'c' is added (mode %r on %s)",
    F_THROUGH: "mode with 'cc' accepts a path below a non-directory: the ancestor search skips existing non-directories (mode %r on %s)",
}


def kind_of(f):
    if f["isDir"]:
        k = "dir"
    elif f["isFile"]:
        k = "file"
    elif f["isFifo"]:
        k = "fifo"
    elif f["ex"]:
        k = "other"
    elif f["parDir"]:
        k = "missing"
    elif f["nearDir"]:
        k = "missing-noparent"
    else:
        k = "below-nondir"
    if f["ex"]:
        k += ":" + "".join(c if f[c] else "-" for c in "rwx")
    else:
        k += ":" + ("pw" if (f["parW"] if f["parDir"] else f["ancW"]) else "p-")
    return k


# ---------------------------------------------------------------- parsers for the load stage


def build_parser(levels, **kw):
    """nested parsers: level 0 has --cfg (ActionConfigFile); every level has path-typed arguments,
    a list and a dict of paths loadable from a file, and `inner` = the next level (ActionParser -> _ActionConfigLoad)"""
    from typing import Dict, List, Optional

    from jsonargparse import ActionConfigFile, ActionParser, ArgumentParser
    from jsonargparse.typing import Path_fc, Path_fr, path_type

    Path_dr = path_type("dr")

    def level(k):
        p = ArgumentParser(exit_on_error=False, **(kw if k == 0 else {}))
        if k == 0:
            p.add_argument("--cfg", action=ActionConfigFile)
        p.add_argument("--pa", type=Path_fr)
        p.add_argument("--pb", type=Optional[Path_fr])
        p.add_argument("--pc", type=Path_fc)
        p.add_argument("--pd", type=Optional[Path_dr])
        p.add_argument("--pl", type=List[Path_fr])
        p.add_argument("--lst", type=List[Path_fr], enable_path=True)
        p.add_argument("--dct", type=Dict[str, Path_fr], enable_path=True)
        if k < levels:
            p.add_argument("--inner", action=ActionParser(parser=level(k + 1)))
        return p

    return level(0)


def run(ctx: Ctx):
    repo_python_path()
    ctx.rule = "TODO"
    ctx.lean_build(extractors=["path_flags"])
    warm_up()
    from jsonargparse import Path

    alphabet = "fdrwxcusFDRWX"
    path_stage(ctx, alphabet, ctx.budget(3, 4))


def replay(ctx: Ctx, body):
    repo_python_path()
    return 0

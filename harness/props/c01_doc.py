"""C01, whole documents: the block-style emitter / loader model (lean/Jap/Core/YamlDoc.lean) against the live
`yaml_dump` / `yaml_load`, and the document round trip evaluated on the real code (yaml, json, json_indented).

 a. emitDoc(v) (model)  ==  yaml_dump(v) (real)          whenever the model is defined
 b. loadDoc(text) (model)  ==  yaml_load(text) (real)    on the emitted texts (the theorem says: defined, = v)
 c. the same on perturbed layouts (indentation shifted, lines dropped / swapped / duplicated, `key:` without a value,
    extra `- `): whenever the model reads a value the live loader reads the same value
 d. oracle, independent of the model: loaders['yaml'](dumpers[f](v)) == v for f in yaml / json / json_indented on every
    generated document, including those outside the model (multi-line and folded strings, complex keys)
"""
from __future__ import annotations

import io
import json
import math

from . import c01_e2e as E

TAGS5 = ["str", "null", "bool", "int", "float"]


class Real:
    """the live classes captured by the extractor"""

    def __init__(self, m):
        import yaml

        self.yaml = yaml
        self.m = m
        self.Dumper = m["cap"]["Dumper"]
        self.Loader = m["cap"]["Loader"]
        self.rep = self.Dumper(io.StringIO(), **m["cap"].get("yaml_kwargs", {}))
        self.con = self.Loader("")

    def scalar_of(self, x):
        """(tag code, text) the live representer writes for a Python scalar"""
        self.rep.represented_objects = {}
        self.rep.alias_key = None
        node = self.rep.represent_data(x)
        self.rep.represented_objects = {}
        self.rep.object_keeper = []
        if not isinstance(node, self.yaml.nodes.ScalarNode):
            raise TypeError("not a scalar: %r" % (x,))
        tag = node.tag[len("tag:yaml.org,2002:"):] if node.tag.startswith("tag:yaml.org,2002:") else node.tag
        code = self.m["tags"].index(tag) if tag in self.m["tags"] else 99
        return code, node.value

    def construct(self, code, text):
        """the Python value the live constructor builds for a scalar node (tag, text)"""
        tags = self.m["tags"]
        if code >= len(tags):
            return ("<other-tag>", code)
        if code == 0:
            return text
        node = self.yaml.nodes.ScalarNode("tag:yaml.org,2002:" + tags[code], text)
        try:
            return self.con.construct_object(node, deep=True)
        except Exception as ex:  # noqa: BLE001  (0x_ and friends: resolved as a number, not constructible)
            return ("<unconstructible>", type(ex).__name__)


def codes(s):
    return [ord(ch) for ch in s]


def to_model(real, v):
    if isinstance(v, dict):
        return {"dict": [[list(_sc(real, k)), to_model(real, x)] for k, x in v.items()]}
    if isinstance(v, list):
        return {"list": [to_model(real, x) for x in v]}
    return {"sc": list(_sc(real, v))}


def _sc(real, x):
    code, text = real.scalar_of(x)
    return code, codes(text)


def from_model(real, j):
    """model value -> Python value through the live constructors (tag/text -> object is outside the model)"""
    if "sc" in j:
        code, cs = j["sc"]
        return real.construct(code, "".join(chr(c) for c in cs))
    if "list" in j:
        return [from_model(real, x) for x in j["list"]]
    out = {}
    for k, x in j["dict"]:
        kk = real.construct(k[0], "".join(chr(c) for c in k[1]))
        try:
            out[kk] = from_model(real, x)
        except TypeError:
            out[repr(kk)] = from_model(real, x)
    return out


def lean_ok(v):
    if isinstance(v, dict):
        return all(lean_ok(k) and lean_ok(x) for k, x in v.items())
    if isinstance(v, list):
        return all(lean_ok(x) for x in v)
    if isinstance(v, str):
        return all(not (0xD800 <= ord(ch) <= 0xDFFF) for ch in v)
    return True


# ---------------------------------------------------------------- generator
KEY_WORDS = ["a", "b", "key", "name", "x y", "lr", "null", "true", "1", "1e3", "0x1f", "~", "no", "k:v", "a#b", "-", "- a", "a: b", "?", "[x]",
             "{y}", "é", "it's", '"q"', "10:20", ".inf", "2001-01-01", "<<", "=", " lead", "trail ", "tab\tk", "x" * 40, "k" * 127, "k" * 128,
             "w " * 30]
MULTI = ["a\nb", "line1\nline2\n", "\n", " \n x", "a\n\nb", "tail\n", "x\r\ny", "p\u2028q", "folded " * 20, "word " * 40, "'q' " * 25, "\"dq\\\" \t" * 6,
         "a" * 100, "  two leading", "trailing  ", "#c", "a #c", "a: b", "- x", "? y", "%d", "@at", "`tick", "&anc", "*ali", "!tag", "|lit", ">fold",
         "[", "]", "{", "}", ",", "a,b", "[]", "{}", "---", "...", "--- x", "", " ", "\t", "1_000", "0b1_0", "0o17", "017", "+.inf", "1:30", "12e03",
         "1.", ".5", "-.5", "+1", "Yes", "OFF", "Null", "NULL", "nan", ".NaN", "0.", "1e+3", "१२", "１２"]


def gen_scalar(rng, sg, prof):
    r = rng.random()
    if r < 0.30:
        return sg.sample()
    if r < 0.42:
        return rng.choice(MULTI if prof.get("multi") else [s for s in MULTI if "\n" not in s and "\r" not in s and "\u2028" not in s and len(s) < 60])
    if r < 0.52:
        return rng.choice(E.INTS + [rng.randint(-10 ** 30, 10 ** 30), rng.randint(-99, 99), 10 ** 90])
    if r < 0.62:
        f = rng.choice(E.FLOATS + [rng.uniform(-1, 1) * 10 ** rng.randint(-300, 300)])
        if prof.get("nonfinite") and rng.random() < 0.15:
            f = rng.choice([math.inf, -math.inf, math.nan])
        return f
    if r < 0.70:
        return rng.choice([True, False])
    if r < 0.78:
        return None
    return "".join(rng.choice("abc xyz019-_.:#'\"") for _ in range(rng.randint(0, 12)))


def gen_key(rng, sg, prof, used, top=False):
    """top-level keys are argument names: str (jsonargparse's yaml_load post-processes top-level mappings whose values are all None)"""
    for _ in range(8):
        r = rng.random()
        if r < 0.55:
            k = rng.choice("abcdefghij") + rng.choice(["", "1", "_x", "-y"])
        elif r < 0.80:
            k = rng.choice(KEY_WORDS)
            if prof.get("long_keys") and rng.random() < 0.03:
                k = rng.choice(["k", "w ", "\xe9"]) * rng.choice([600, 1021, 1022, 1023, 1030])
        elif r < 0.92:
            k = sg.sample()
        elif prof.get("nonstr_keys") and not top:
            k = rng.choice([1, 0, -5, 2.5, True, None, 10 ** 20])
        else:
            k = "k%d" % rng.randint(0, 99)
        try:
            if k not in used and not any(k == u for u in used):   # 1 == True == 1.0 collide in a dict
                return k
        except TypeError:
            pass
    return "k%d" % len(used)


def gen_doc(rng, sg, prof, depth=0):
    """a nested dict / list of scalars; the top level is a collection"""
    maxd = prof.get("max_depth", 3)
    r = rng.random()
    if depth > 0 and (depth >= maxd or r < 0.45):
        return gen_scalar(rng, sg, prof)
    n = rng.choice([0, 1, 1, 2, 2, 3, 4]) if depth else rng.choice([1, 2, 3, 4, 5])
    if (r < 0.75 if depth == 0 else rng.random() < 0.55):
        out = {}
        for _ in range(n):
            out[gen_key(rng, sg, prof, list(out), top=depth == 0)] = gen_doc(rng, sg, prof, depth + 1)
        return out
    return [gen_doc(rng, sg, prof, depth + 1) for _ in range(n)]


def shape(v, depth=0):
    if isinstance(v, dict):
        return "dict%d" % min(len(v), 3) if depth else "top-dict"
    if isinstance(v, list):
        return "list%d" % min(len(v), 3) if depth else "top-list"
    return type(v).__name__


def walk(v, depth=0):
    yield v, depth
    if isinstance(v, dict):
        for k, x in v.items():
            yield k, depth + 1
            yield from walk(x, depth + 1)
    elif isinstance(v, list):
        for x in v:
            yield from walk(x, depth + 1)


def strs_of(v):
    return [x for x, _ in walk(v) if isinstance(x, str)]


def depth_of(v):
    return max(d for _, d in walk(v))


def all_none_dict(v):
    """jsonargparse's yaml_load hands the text back for some mappings whose values are all None"""
    return isinstance(v, dict) and bool(v) and all(x is None for x in v.values())


# ---------------------------------------------------------------- perturbations of a text
def perturb(rng, text):
    lines = text.split("\n")
    if lines and lines[-1] == "":
        lines.pop()
    if not lines:
        return text
    i = rng.randrange(len(lines))
    r = rng.random()
    if r < 0.25:
        d = rng.choice([1, 2, 2, 3, 4])
        lines[i] = " " * d + lines[i]
    elif r < 0.45:
        d = rng.choice([1, 2, 2])
        if lines[i].startswith(" " * d):
            lines[i] = lines[i][d:]
    elif r < 0.55:
        del lines[i]
    elif r < 0.65 and len(lines) > 1:
        j = rng.randrange(len(lines))
        lines[i], lines[j] = lines[j], lines[i]
    elif r < 0.75:
        lines.insert(i, lines[i])
    elif r < 0.85:
        ind = len(lines[i]) - len(lines[i].lstrip(" "))
        lines.insert(i, " " * ind + rng.choice(["z:", "- q", "z: 1", "- z:", "- - 3", "z: []", "- {}", "'q':", "? x", "# c", "z: 1 # c", "z:  2", "-  3",
                                                "z: [1]", "z: {a: 1}", "- [1, 2]", "z: &a 1", "z: !!str 1", "z: |", "z: >", "z", "- ", "-", "z:\t1"]))
    elif r < 0.93:
        # shift a whole block
        d = rng.choice([2, 2, 4, 1])
        j = min(len(lines), i + rng.randint(1, 4))
        for k in range(i, j):
            lines[k] = " " * d + lines[k]
    else:
        lines[i] = lines[i].replace(": ", ":", 1) if rng.random() < 0.5 else lines[i].replace("- ", "-", 1)
    return "\n".join(lines) + "\n"


# ---------------------------------------------------------------- the stages
def correspond_docs(ctx, m, C, rng, sg, n_docs, n_perturb, corpus_docs=()):
    """stages a, b, c.  `C` is the c01 module (driver / canon helpers).  Returns the list of disagreements."""
    from jsonargparse import _loaders_dumpers as ld

    real = Real(m)
    bad = []
    docs = [d for d in corpus_docs]
    prof = {"max_depth": 4, "nonstr_keys": True}
    while len(docs) < n_docs + len(corpus_docs):
        d = gen_doc(rng, sg, prof)
        if lean_ok(d):
            docs.append(d)
    texts, jv = [], []
    for d in docs:
        try:
            texts.append(ld.dumpers["yaml"](d))
            jv.append(to_model(real, d))
        except Exception as ex:  # noqa: BLE001
            bad.append({"what": "yaml_dump / representer raises %s" % type(ex).__name__, "doc": repr(d)[:300]})
            texts.append(None)
            jv.append(None)
    idx = [i for i, t in enumerate(texts) if t is not None]
    res = C.driver(ctx, [{"op": "emitdoc", "v": jv[i]} for i in idx])
    if res is None:
        return bad
    in_model = []
    for i, r in zip(idx, res):
        d, text = docs[i], texts[i]
        ctx.count()
        ctx.hist("doc_depth", depth_of(d))
        if not r["ok"]:
            bad.append({"what": "a representer output is outside the image language of its tag (VOK false)", "doc": repr(d)[:300], "text": text[:300]})
            continue
        if r["r"] is None:
            ctx.hist("doc_model", "outside (multi-line / folded / complex key)")
            continue
        mt = "".join(chr(c) for c in r["r"])
        if mt != text:
            bad.append({"what": "emitDoc differs from yaml_dump", "doc": repr(d)[:400], "real": text[:600], "model": mt[:600]})
            continue
        ctx.hist("doc_model", "emitDoc == yaml_dump")
        in_model.append(i)
        if depth_of(d) >= 2:
            ctx.nontrivial("d:" + text)
    # b. the loader model on the emitted texts
    res = C.driver(ctx, [{"op": "loaddoc", "s": codes(texts[i])} for i in in_model])
    for i, r in zip(in_model, res or []):
        ctx.count()
        d, text = docs[i], texts[i]
        if r["r"] is None:
            bad.append({"what": "loadDoc is undefined on a text emitDoc wrote (contradicts C01_yaml_doc_roundtrip)", "text": text[:600]})
            continue
        if r["r"] != jv[i]:
            bad.append({"what": "loadDoc (emitDoc v) differs from v in the model (contradicts C01_yaml_doc_roundtrip)", "text": text[:600]})
            continue
        try:
            back = ld.loaders["yaml"](text)
        except Exception as ex:  # noqa: BLE001
            back = ("<exception>", type(ex).__name__)
        if E.canon(back) != E.canon(from_model(real, r["r"])):
            bad.append({"what": "loadDoc differs from yaml_load on an emitted text", "text": text[:600], "real": repr(back)[:300],
                        "model": repr(from_model(real, r["r"]))[:300]})
    # c. perturbed layouts
    base = [texts[i] for i in in_model] or ["a: 1\n"]
    pert = []
    for _ in range(n_perturb):
        t = rng.choice(base)
        for _ in range(rng.choice([1, 1, 2, 3])):
            t = perturb(rng, t)
        pert.append(t)
    pert = list(dict.fromkeys(pert))
    res = C.driver(ctx, [{"op": "loaddoc", "s": codes(t)} for t in pert])
    said = 0
    for t, r in zip(pert, res or []):
        if r["r"] is None:
            continue
        said += 1
        ctx.count()
        want = from_model(real, r["r"])
        if all_none_dict(want):
            continue
        try:
            back = ld.loaders["yaml"](t)
        except Exception as ex:  # noqa: BLE001
            back = ("<exception>", type(ex).__name__)
        if isinstance(back, tuple) and back[0] == "<exception>" and "<unconstructible>" in repr(want):
            continue
        if E.canon(back) != E.canon(want):
            bad.append({"what": "loadDoc reads a perturbed layout differently from yaml_load", "text": t[:600], "real": repr(back)[:300], "model": repr(want)[:300]})
    ctx.extra["doc_correspondence"] = {"documents": len(docs), "inside_model": len(in_model), "perturbed_texts": len(pert), "perturbed_read_by_model": said}
    return bad


def json_scalar(real, x):
    """(tag code, text) json.dumps writes for a Python scalar; str: the value itself"""
    if isinstance(x, str):
        return 0, x
    text = json.dumps(x)
    if x is None:
        return 1, text
    if isinstance(x, bool):
        return 2, text
    if isinstance(x, int):
        return 3, text
    return 4, text


def to_model_json(real, v):
    if isinstance(v, dict):
        return {"dict": [[[json_scalar(real, k)[0], codes(json_scalar(real, k)[1])], to_model_json(real, x)] for k, x in v.items()]}
    if isinstance(v, list):
        return {"list": [to_model_json(real, x) for x in v]}
    c, t = json_scalar(real, v)
    return {"sc": [c, codes(t)]}


def json_in_domain(v):
    """the hypothesis JOK of C01_json_doc_roundtrip, evaluated independently of the model"""
    for x, _ in walk(v):
        if isinstance(x, str) and any(ord(ch) in E.JSON_UNSAFE for ch in x):
            return False
        if isinstance(x, float) and not math.isfinite(x):
            return False
    def keys_ok(w):
        if isinstance(w, dict):
            return all(isinstance(k, str) and len(json.dumps(k, ensure_ascii=False)) <= 1024 and keys_ok(x) for k, x in w.items())
        if isinstance(w, list):
            return all(keys_ok(x) for x in w)
        return True
    return keys_ok(v)


def perturb_json(rng, text):
    if not text:
        return text
    i = rng.randrange(len(text))
    r = rng.random()
    if r < 0.3:
        return text[:i] + rng.choice([" ", "\n", "  ", "\n  ", "\t"]) + text[i:]
    if r < 0.5:
        return text[:i] + text[i + 1:]
    if r < 0.8:
        return text[:i] + rng.choice(list(",:[]{}\"'#-.x1 ") + ["null", "[]", "{}", "- ", "--- ", "..."]) + text[i:]
    return text[:i] + rng.choice(list(",:[]{}\"-1e.")) + text[i + 1:]


def correspond_json_docs(ctx, m, C, rng, sg, n_docs, n_perturb, corpus_docs=()):
    """json.dumps (compact / indent 2) vs jDump; the live YAML loader on those texts and on perturbed texts vs jsonLoad"""
    from jsonargparse import _loaders_dumpers as ld

    real = Real(m)
    bad = []
    prof = {"max_depth": 4, "nonfinite": True}
    docs = [d for d in corpus_docs if str_keys_only(d) and lean_ok(d)]
    while len(docs) < n_docs:
        d = gen_doc(rng, sg, prof)
        if lean_ok(d) and str_keys_only(d):
            docs.append(d)
    if rng.random() < 0.5:
        docs.append({"k" * rng.choice([1021, 1022, 1023, 1030]): [1]})
    lines, metas = [], []
    for d in docs:
        for fmt, ind in (("json", False), ("json_indented", True)):
            lines.append({"op": "jdump", "v": to_model_json(real, d), "indented": ind})
            metas.append((d, fmt))
    res = C.driver(ctx, lines)
    if res is None:
        return bad
    texts = []
    for (d, fmt), r in zip(metas, res):
        ctx.count()
        text = ld.dumpers[fmt](d)
        mt = "".join(chr(c) for c in r["r"])
        if mt != text:
            bad.append({"what": "jDump differs from the %s dumper" % fmt, "doc": repr(d)[:300], "real": text[:400], "model": mt[:400]})
            continue
        if r["ok"] != json_in_domain(d):
            bad.append({"what": "JOK differs from the stated domain (safe characters, finite floats, key literal <= 1024)", "doc": repr(d)[:300], "model_ok": r["ok"]})
            continue
        texts.append((d, fmt, text, r["ok"]))
    res = C.driver(ctx, [{"op": "jload", "s": codes(t)} for _, _, t, _ in texts])
    for (d, fmt, text, ok), r in zip(texts, res or []):
        ctx.count()
        try:
            back = ld.loaders["yaml"](text)
        except Exception as ex:  # noqa: BLE001
            back = ("<exception>", type(ex).__name__)
        if r["r"] is None:
            if ok:
                bad.append({"what": "jsonLoad is undefined on a text of a value inside JOK (contradicts C01_json_doc_roundtrip)", "text": text[:400]})
            elif not (isinstance(back, tuple) and back[0] == "<exception>"):
                ctx.hist("json_doc", "model undefined, loader reads something")
            continue
        want = from_model(real, r["r"])
        if ok and E.canon(want) != E.canon(d):
            bad.append({"what": "jsonLoad (jDump v) differs from v (contradicts C01_json_doc_roundtrip)", "text": text[:400], "model": repr(want)[:300]})
            continue
        if E.canon(back) != E.canon(want):
            bad.append({"what": "jsonLoad differs from the YAML loader on a JSON text", "text": text[:400], "real": repr(back)[:300], "model": repr(want)[:300]})
            continue
        ctx.hist("json_doc", fmt + (":in-domain" if ok else ":outside"))
        if ok and depth_of(d) >= 2:
            ctx.nontrivial("jd:" + text)
    base = [t for _, _, t, _ in texts if len(t) < 600] or ['{"a":1}']
    pert = []
    for _ in range(n_perturb):
        t = rng.choice(base)
        for _ in range(rng.choice([1, 1, 2])):
            t = perturb_json(rng, t)
        pert.append(t)
    pert = [t for t in dict.fromkeys(pert) if lean_ok(t)]
    res = C.driver(ctx, [{"op": "jload", "s": codes(t)} for t in pert])
    said = 0
    for t, r in zip(pert, res or []):
        if r["r"] is None:
            continue
        said += 1
        ctx.count()
        want = from_model(real, r["r"])
        try:
            back = ld.loaders["yaml"](t)
        except Exception as ex:  # noqa: BLE001
            back = ("<exception>", type(ex).__name__)
        if isinstance(back, tuple) and back[0] == "<exception>" and "<unconstructible>" in repr(want):
            continue
        if all_none_dict(want) and isinstance(back, str):
            continue      # jsonargparse's yaml_load hands such a text back as a string (e.g. `{a}`-like), not this layer
        if E.canon(back) != E.canon(want):
            bad.append({"what": "jsonLoad reads a perturbed JSON text differently from the YAML loader", "text": t[:400], "real": repr(back)[:300], "model": repr(want)[:300]})
    ctx.extra["json_doc_correspondence"] = {"documents": len(docs), "texts": len(texts), "perturbed_texts": len(pert), "perturbed_read_by_model": said}
    return bad


def doc_known(ctx, d, fmt):
    ss = strs_of(d)
    if fmt == "yaml" and any(E.NEL in s for s in ss) and ctx.is_open("C01-yaml-nel"):
        return "C01-yaml-nel"
    if fmt != "yaml" and any(ord(ch) in E.JSON_UNSAFE for s in ss for ch in s) and ctx.is_open("C01-json-unreadable-chars"):
        return "C01-json-unreadable-chars"
    if fmt != "yaml" and any(isinstance(x, float) and not math.isfinite(x) for x, _ in walk(d)) and ctx.is_open("C01-json-nonfinite-float"):
        return "C01-json-nonfinite-float"
    if fmt != "yaml" and any(isinstance(k, str) and len(json.dumps(k, ensure_ascii=False)) > 1024 for k in dict_keys(d)) and ctx.is_open("C01-json-long-key"):
        return "C01-json-long-key"
    return None


def dict_keys(v):
    if isinstance(v, dict):
        for k, x in v.items():
            yield k
            yield from dict_keys(x)
    elif isinstance(v, list):
        for x in v:
            yield from dict_keys(x)


def doc_roundtrip(d, fmt):
    """None if loaders['yaml'](dumpers[fmt](d)) == d (type-aware), else a description"""
    from jsonargparse import _loaders_dumpers as ld

    try:
        text = ld.dumpers[fmt](d)
    except Exception as ex:  # noqa: BLE001
        return "dumper raises %s" % type(ex).__name__
    try:
        back = ld.loaders["yaml"](text)
    except Exception as ex:  # noqa: BLE001
        return "loader raises %s on %r" % (type(ex).__name__, text[:120])
    if E.canon(back) != E.canon(d):
        return "re-read as %r" % (back,)
    return None


def str_keys_only(v):
    if isinstance(v, dict):
        return all(isinstance(k, str) and str_keys_only(x) for k, x in v.items())
    if isinstance(v, list):
        return all(str_keys_only(x) for x in v)
    return True


def shrink_doc(d, fails):
    """greedy structural shrinking of a failing document"""
    def cands(v):
        if isinstance(v, dict):
            for k in list(v):
                yield {a: b for a, b in v.items() if a != k}
            for k, x in v.items():
                if isinstance(x, (dict, list)) and x:
                    yield x
                for c in cands(x):
                    yield {a: (c if a == k else b) for a, b in v.items()}
        elif isinstance(v, list):
            for i in range(len(v)):
                yield v[:i] + v[i + 1:]
            for i, x in enumerate(v):
                if isinstance(x, (dict, list)) and x:
                    yield x
                for c in cands(x):
                    yield v[:i] + [c] + v[i + 1:]
        elif isinstance(v, str) and len(v) > 1:
            yield v[: len(v) // 2]
            yield v[len(v) // 2:]
            yield v[1:]
            yield v[:-1]

    budget = 300
    progress = True
    while progress and budget > 0:
        progress = False
        for c in cands(d):
            budget -= 1
            if budget <= 0:
                break
            if isinstance(c, (dict, list)) and fails(c):
                d, progress = c, True
                break
    return d


def oracle_docs(ctx, rng, sg, n, corpus_docs=()):
    """stage d: the round trip of whole documents on the real dump / load functions, all three formats"""
    prof = {"max_depth": 4, "nonstr_keys": True, "multi": True, "nonfinite": True, "long_keys": True}
    docs = list(corpus_docs)
    while len(docs) < n + len(corpus_docs):
        docs.append(gen_doc(rng, sg, prof))
    for d in docs:
        for fmt in ("yaml", "json", "json_indented"):
            if fmt != "yaml" and not str_keys_only(d):
                continue      # JSON object keys are strings: the typed layer (Dict[int, …]) converts them, not this layer
            ctx.count()
            ctx.hist("doc_oracle", fmt + ":" + shape(d))
            why = doc_roundtrip(d, fmt)
            if why is None:
                continue
            fid = doc_known(ctx, d, fmt)
            if fid:
                ctx.known(fid, "document round trip: " + fid)
                continue
            small = shrink_doc(d, lambda c: doc_roundtrip(c, fmt) is not None and doc_known(ctx, c, fmt) is None)
            ctx.violation("document %r written by the %s dumper: %s" % (small, fmt, doc_roundtrip(small, fmt) or why),
                          {"kind": "doc", "format": fmt, "doc": encode_doc(small)})


def encode_doc(v):
    """JSON-safe encoding that keeps key types and non-finite floats"""
    if isinstance(v, dict):
        return {"d": [[encode_doc(k), encode_doc(x)] for k, x in v.items()]}
    if isinstance(v, list):
        return {"l": [encode_doc(x) for x in v]}
    if isinstance(v, float):
        return {"f": repr(v)}
    if isinstance(v, str):
        return {"s": codes(v)}
    return {"v": v}


def decode_doc(j):
    if "d" in j:
        return {decode_doc(k): decode_doc(x) for k, x in j["d"]}
    if "l" in j:
        return [decode_doc(x) for x in j["l"]]
    if "f" in j:
        return float(j["f"])
    if "s" in j:
        return "".join(chr(c) for c in j["s"])
    return j["v"]


_ = json

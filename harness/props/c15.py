"""C15 — A linked argument always equals the function of its sources (links applied on parse).

Pipeline
 (1) build Props/C15 (invariant, no chains, one pass, not required, option rejected, not in dump,
     re-parse; refutation witnesses for the open findings);
 (2) correspondence with the Lean model (Drv/Links), on REAL parsers built from generated specs:
     K1 every `link_arguments` call: accepted/ValueError, and after it `parser._actions` (which action
        was replaced), `required_args`, the kind of the link (plain / init_args below which dest) and
        the subclass flag of every source -- the model parser is initialised from the real parser's
        own action list;
     K2 whole parses of parsers without subclass arguments: the assignments reaching the parser
        (defaults, environment, config string/file/option, object, argv, in precedence order) are
        given to the model's `parse`; outcome (namespace or error class) compared;
     K3 `apply_parsing_links` in isolation on every parse (also subclass / list-of-class targets,
        subcommand parsers): namespace before and after the real call (captured by wrapping the
        static method for the duration of the call) vs the model's `applyParsingLinks`;
     K4 `strip_link_target_keys` on a clone of every parsed configuration vs the model;
     H  HISTORIES on one real parser (link_arguments calls and parses interleaved, 3-6 parses through any entry point, sources
        typed Union[int, float] / Union[bool, int] / Any taking ==-equal values of different types, a compute function whose
        outside state changes between the parses, optionally a default config file): every link report, every parser state
        and every parse outcome vs the model's `runOps` on the whole op sequence;
     T1-T4 parsers with subcommands as a parser TREE in the model: registrations at every level (parent
        links, a second subcommand), the parent's apply_parsing_links call with its early returns in
        source order and its recursion (also the calls made while links are switched off), the
        recursive strip, and whole parse_args runs where the token selects the subcommand;
 (3) oracle on the real code, independent of the model: after every successful parse
     cfg[target] == compute_fn(*[cfg[s] for s in sources]) recomputed by the harness, value for value and type for type at
     every depth (every item of a list of classes; after EVERY parse of a history and after re-parsing its dump; nested link
     sets in both registration orders: excused by the open finding only when the set is not ordered AND the link's value is
     a snapshot), the target is not in required_args and a parse that does not supply it
     succeeds, the option of a plain target raises ArgumentError, the target is absent from the yaml
     and json dump (and from saved files), parse_string(dump(cfg)) == cfg; chains (a target among
     the link's own sources included) and double targets raise ValueError at link_arguments time;
 (4) replay of the repaired defect F15x (self link) and of the open findings.
"""
from __future__ import annotations

import atexit
import copy
import importlib
import json
import os
import shutil
import sys
import tempfile

from ..lib.common import Ctx, MachineryError, repo_python_path

MANIFEST = {
    "engine": "Links",
    "technique": "Lean 4 proof over a transcription of ActionLink (addLink with _initial_input_checks, apply_parsing_links, call_compute_fn, "
                 "set_target_value, strip_link_target_keys) on the Namespace model of C11, including HISTORIES of one parser object (link_arguments "
                 "calls and parses interleaved, the world seen by the compute functions changing between parses) + statement-level ties on the "
                 "seven transcribed functions (Gen/LinksSrc) + differential correspondence on real parsers (link registration, whole parses, whole "
                 "histories, apply_parsing_links and strip_link_target_keys in isolation)",
    "text": "Theorems in lean/Jap/Props/C15.lean prove, for every compute-function table, every sequence of link_arguments calls accepted by the model "
            "of ActionLink.__init__ and every list of assignments reaching the parser through any channel: accepted link sets have no double target and "
            "no target that is a source of any link, its own included; when the link set is ORDERED (no link writes into its own sources, no link "
            "registered later writes into / above a source or the target of an earlier one -- implied by 'no nested keys'; the remaining class is the "
            "open finding about a target lying inside a group-valued source registered first) every successfully parsed configuration has "
            "target = F(final sources) whatever was supplied for the target; this holds after EVERY parse of EVERY history on one parser object "
            "(refused calls and parses leave no trace in the parser; the outcome of a parse does not depend on earlier parses; the target is a "
            "function of the sources' values -- value for value and type for type -- and of nothing else); without nested keys one pass is a fixed "
            "point and the order of application is irrelevant; the target is not required, every option string of a plain target is rejected, "
            "stripped configurations hold the target at no place, the items of a list of classes included (full statement since the repair F70; "
            "the former strip is kept as regression record), and re-parsing the stripped "
            "configuration restores it. Each open finding inside the model is a decidable class with a kernel-checked witness, and the full "
            "statement is proved on its complement: not fwdOK (nested-chain; C15_invariant_ordered), skippedHolding (skipped-link-target-dropped; C15_reparse_exact); subcommand-section-emptied is a property of "
            "the empty subcommand section (C17/C01) and has no hypothesis in Props/C15.",
    "level_note": "Trusted: Lean kernel; axioms propext/Quot.sound/Classical.choice only; the correspondence harness. Parameters of the model (not "
                  "modelled): the compute functions (a table indexed by the state of the world at the time of the parse), type checks of values, the "
                  "merge of the channels into one namespace (C04/C05), loading and serialisation of the dump text (C01), links applied on "
                  "instantiation (C16). Outside the model, checked by the oracle only: object identity (a link without function stores the source's "
                  "Namespace object itself, which is what keeps target == source when a later link writes into that source).",
}

F_LIST = "C15-list-item-target-in-dump"
F_NESTED = "C15-nested-chain"
F_SKIPPED = "C15-skipped-link-target-dropped"


def _target_held(l, root):
    """some place holds a value for the link's target (the Lean class `skippedHolding` says "some place": the
    namespace path, or — since the strip also visits them (repair F70) — the items of a list held by the dest)"""
    from jsonargparse import Namespace

    if l["target"] in root:
        return True
    dest, sep, rest = l["target"].partition(".init_args.")
    if sep and dest in root and isinstance(root[dest], list):
        return any(isinstance(it, Namespace) and ("init_args." + rest) in it for it in root[dest])
    return False
F_EMPTYSUB = "C15-subcommand-section-emptied"
ENV_PREFIX = "C15"

# ---------------------------------------------------------------- generated module (real file, removed at exit)
MODULE_SRC = '''
from dataclasses import dataclass
from typing import Any, Dict, List, Optional


class Base:
    def __init__(self, dim: int, k: int = 1):
        self.dim = dim
        self.k = k


class SubA(Base):
    def __init__(self, dim: int, k: int = 1):
        super().__init__(dim, k)


class SubB(Base):
    def __init__(self, dim: int = 7, k: int = 2, extra: str = "e"):
        super().__init__(dim, k)
        self.extra = extra


class SubC(Base):
    """no `dim`: a link to init_args.dim finds no target"""

    def __init__(self, k: int = 5):
        super().__init__(0, k)


class SubK(Base):
    """accepts extra keyword arguments (dict_kwargs)"""

    def __init__(self, dim: int = 3, k: int = 2, **kwargs):
        super().__init__(dim, k)
        self.kwargs = kwargs


class Holder:
    def __init__(self, c: Optional[Base] = None, v: int = 0):
        self.c = c
        self.v = v


@dataclass
class DC:
    x: int = 1
    y: int = 2


class Grp:
    def __init__(self, p: int = 3, q: int = 4):
        self.p = p
        self.q = q


def _fields(g):
    return g if isinstance(g, dict) else vars(g)


def f_id(x):
    return x


def f_sum(*a):
    return sum(a)


def f_tuple(*a):
    return tuple(a)


def f_list(*a):
    return list(a)


def f_gsum(g):
    return sum(v for v in _fields(g).values() if isinstance(v, int) and not isinstance(v, bool))


def f_gsum_d(g: dict):
    return sum(v for v in g.values() if isinstance(v, int) and not isinstance(v, bool))


def f_double(x):
    return 2 * x


def f_const():
    return 42


def f_raise(*a):
    raise RuntimeError("compute function refuses")


def f_kind(g):
    return 2 if isinstance(g, dict) else 1 if hasattr(g, "__dict__") else 0


def f_kind_d(g: Dict[str, Any]):
    return 2 if isinstance(g, dict) else 1 if hasattr(g, "__dict__") else 0


def f_pair(a, b):
    return 10 * a + b


# --- functions that tell ==-equal arguments of different types apart (1 / 1.0 / True), and one that is not pure
EPOCH = 0


def f_tagged(*a):
    return [[type(x).__name__, x] for x in a]


def f_tyname(x):
    return type(x).__name__


def f_epoch(x):
    """reads state outside its arguments (stands for a file named by the source, a registry, ...)"""
    return x + EPOCH
'''

_MOD = {}


def gen_module():
    """write the classes and compute functions into a real importable module file"""
    if "mod" in _MOD:
        return _MOD["mod"]
    d = tempfile.mkdtemp(prefix="c15_")
    atexit.register(shutil.rmtree, d, True)
    name = "c15gen"
    with open(os.path.join(d, name + ".py"), "w") as f:
        f.write(MODULE_SRC)
    sys.path.insert(0, d)
    _MOD["dir"] = d
    _MOD["name"] = name
    _MOD["mod"] = importlib.import_module(name)
    return _MOD["mod"]


# name -> (python callable getter, Lean table index, coercion flags per parameter (None = none), arity (None = any))
def fn_table():
    m = gen_module()
    return {
        "id": (m.f_id, 0, None, 1),
        "sum": (m.f_sum, 1, None, None),
        "len": (len, 2, None, 1),
        "tuple": (m.f_tuple, 3, None, None),
        "upper": (str.upper, 4, None, 1),
        "gsum": (m.f_gsum, 5, None, 1),
        "gsum_d": (m.f_gsum_d, 5, [True], 1),
        "list": (m.f_list, 6, None, None),
        "double": (m.f_double, 7, None, 1),
        "const": (m.f_const, 8, None, 0),
        "raise": (m.f_raise, 9, None, None),
        "kind": (m.f_kind, 10, None, 1),
        "kind_d": (m.f_kind_d, 10, [True], 1),
        "pair": (m.f_pair, 11, None, 2),
        "tagged": (m.f_tagged, 12, None, None),
        "tyname": (m.f_tyname, 13, None, 1),
        "epoch": (m.f_epoch, 14, None, 1),
    }


# ---------------------------------------------------------------- wire values
def _codes(s):
    return [ord(c) for c in s]


def enc(v):
    """python value -> wire value of Drv/Links (insertion order kept)"""
    from jsonargparse import Namespace

    if v is None:
        return None
    if isinstance(v, bool):
        return {"d": [["$b", int(v)]]}
    if isinstance(v, int):
        return v
    if isinstance(v, str):
        return {"d": [["$s", _codes(v)]]}
    if isinstance(v, float):
        return {"d": [["$f", _codes(repr(v))]]}
    if isinstance(v, Namespace):
        return {"n": [[k, enc(x)] for k, x in vars(v).items()]}
    if isinstance(v, dict):
        return {"d": [[k if isinstance(k, str) else "$k" + repr(k), enc(x)] for k, x in v.items()]}
    if isinstance(v, list):
        return [enc(x) for x in v]
    if isinstance(v, tuple):
        return {"t": [enc(x) for x in v]}
    return {"d": [["$o", _codes(type(v).__name__)]]}


def canon(w):
    """wire value -> order-insensitive comparable"""
    if isinstance(w, list):
        return ["L"] + [canon(x) for x in w]
    if isinstance(w, dict):
        if "t" in w:
            return ["T"] + [canon(x) for x in w["t"]]
        tag = "n" if "n" in w else "d"
        return [tag.upper(), sorted([k, canon(x)] for k, x in w[tag])]
    return w


def same(a, b, ordered=False):
    if ordered:
        return json.dumps(a) == json.dumps(b)
    return json.dumps(canon(a)) == json.dumps(canon(b))


# ---------------------------------------------------------------- real parsers from specs
INT_ARGS = ["a", "b", "c", "d", "e"]
STR_ARGS = ["s", "u"]
ANY_ARGS = ["w", "z"]
GROUPS = {"g": ("class", "Grp", ["p", "q"], [3, 4]), "dc": ("dataclass", "DC", ["x", "y"], [1, 2]), "h": ("dotted", None, ["v1", "v2"], [5, 6])}
SUBCLASS_ARGS = ["opt", "opt2"]
LIST_ARGS = ["opts"]


def build_parser(spec, top=True):
    """spec -> (parser, report of the link_arguments calls)"""
    from typing import Any, Dict, List

    from jsonargparse import ArgumentParser

    m = gen_module()
    kw = {"exit_on_error": False}
    if top:
        kw.update(default_env=bool(spec.get("default_env")), env_prefix=ENV_PREFIX)
    if top and spec.get("default_config") is not None:     # a default config file: links are applied to the defaults AND to the result
        _MOD["n"] = _MOD.get("n", 0) + 1
        dpath = os.path.join(_MOD["dir"], "dflt%d.json" % _MOD["n"])
        with open(dpath, "w") as f:
            f.write(json.dumps(spec["default_config"]))
        kw["default_config_files"] = [dpath]
    p = ArgumentParser(**kw)
    if top:
        p.add_argument("--cfg", action="config")
    from typing import Union as _U

    types = {"int": int, "str": str, "any": Any, "dict": Dict[str, int], "num": _U[int, float], "bi": _U[bool, int]}
    for a in spec.get("args", []):
        if a["type"] == "flag":     # --name / --no_name
            from jsonargparse import ActionYesNo

            p.add_argument("--" + a["name"], *a.get("aliases", []), action=ActionYesNo, default=bool(a.get("default")))
            continue
        k = {"type": types[a["type"]]} if a["type"] != "untyped" else {}
        if a.get("required"):
            k["required"] = True
        else:
            k["default"] = copy.deepcopy(a.get("default"))
        p.add_argument("--" + a["name"], *a.get("aliases", []), **k)
    for g in spec.get("groups", []):
        style, cls, fields, dflts = GROUPS[g]
        if style == "class":
            p.add_class_arguments(getattr(m, cls), g)
        elif style == "dataclass":
            p.add_argument("--" + g, type=getattr(m, cls), default=getattr(m, cls)())
        else:
            for f, dv in zip(fields, dflts):
                p.add_argument("--%s.%s" % (g, f), type=int, default=dv)
    for s in spec.get("subclass", []):
        from typing import Optional, Union

        cls = getattr(m, s.get("cls", "Base"))
        k = {"type": {"bool": Union[bool, cls], "str": Union[str, cls], "optional": Optional[cls]}.get(s.get("union"), cls)}
        if s.get("required"):
            k["required"] = True
        elif s.get("default"):
            k["default"] = {"class_path": "%s.%s" % (m.__name__, s["default"])}
        p.add_argument("--" + s["name"], **k)
    for s in spec.get("subclass_list", []):
        p.add_argument("--" + s["name"], type=List[m.Base], default=[])
    sub = spec.get("sub")
    subparser = None
    if sub:
        subparser, _ = build_parser(sub["spec"], top=False)
    return p, subparser


def exc_class(ex):
    return type(ex).__name__


def add_links(p, links, observer=None):
    """call link_arguments for every requested link; returns [{ok, error}]"""
    table = fn_table()
    out = []
    for l in links:
        fn = table[l["fn"]][0] if l.get("fn") else None
        src = l["sources"][0] if l.get("single_str") and len(l["sources"]) == 1 else tuple(l["sources"])
        try:
            p.link_arguments(src, l["target"], fn)
            out.append({"ok": True})
        except ValueError as ex:
            out.append({"ok": False, "error": "ValueError", "msg": str(ex)[:200]})
        except Exception as ex:  # noqa: BLE001 - any other class is reported as such
            out.append({"ok": False, "error": exc_class(ex), "msg": str(ex)[:200]})
        if observer:
            observer(p, l, out[-1])
    return out


ALT_SPEC = {"args": [{"name": "p1", "type": "int", "default": 1}, {"name": "p2", "type": "int", "default": 2}], "groups": [],
            "subclass": [], "subclass_list": [], "links": [{"sources": ["p1"], "target": "p2", "fn": "double"}]}


def assemble(spec, observer=None, top_observer=None):
    """complete real parser: links registered at every level, subcommands attached in the order of the spec;
    returns (top, linked parser, link report of the linked parser, link report of the top parser of a tree)"""
    p, sp = build_parser(spec)
    if sp is None:
        return p, p, add_links(p, spec.get("links", []), observer), []
    rep = add_links(sp, spec["sub"]["spec"].get("links", []), observer)
    rep_top = add_links(p, spec.get("toplinks", []), top_observer)
    sc = p.add_subcommands()
    alt = None
    if spec.get("alt"):
        alt, _ = build_parser(ALT_SPEC, top=False)
        add_links(alt, ALT_SPEC["links"])
    if alt is not None and spec["alt"] == "first":
        sc.add_subcommand("alt", alt)
    sc.add_subcommand(spec["sub"]["name"], sp)
    if alt is not None and spec["alt"] != "first":
        sc.add_subcommand("alt", alt)
    return p, sp, rep, rep_top


def make_parser(spec, observer=None):
    """(top, linked parser, link report)"""
    return assemble(spec, observer)[:3]


def link_spec(spec):
    """the spec part that holds the links (the subcommand's when there is one)"""
    return spec["sub"]["spec"] if spec.get("sub") else spec


# ---------------------------------------------------------------- running a case on the real parser
class Capture:
    """wrap ActionLink.apply_parsing_links for the duration of one call: namespace before/after per parser"""

    def __init__(self):
        self.records = []

    def __enter__(self):
        from jsonargparse._link_arguments import ActionLink

        self.cls = ActionLink
        self.orig_static = ActionLink.__dict__["apply_parsing_links"]
        orig = ActionLink.apply_parsing_links
        records = self.records

        def wrapper(parser, cfg):
            from jsonargparse._actions import _ActionPrintConfig
            from jsonargparse._link_arguments import apply_config_skip

            off = bool(apply_config_skip.get()) or bool(_ActionPrintConfig.is_print_config_requested(parser))
            rec = {"parser": parser, "pre": enc(cfg), "post": None, "error": None, "off": off}
            records.append(rec)
            try:
                orig(parser, cfg)
            except Exception as ex:  # noqa: BLE001
                rec["error"] = exc_class(ex) + ": " + str(ex)[:200]
                raise
            rec["post"] = enc(cfg)

        ActionLink.apply_parsing_links = staticmethod(wrapper)
        return self

    def __exit__(self, *a):
        setattr(self.cls, "apply_parsing_links", self.orig_static)


class EnvPatch:
    def __init__(self, env):
        self.env = env or {}

    def __enter__(self):
        self.saved = {k: os.environ.get(k) for k in list(os.environ) if k.startswith(ENV_PREFIX + "_")}
        for k in self.saved:
            del os.environ[k]
        os.environ.update(self.env)

    def __exit__(self, *a):
        for k in self.env:
            os.environ.pop(k, None)
        for k, v in self.saved.items():
            os.environ[k] = v


def err_kind(msg):
    """class of a parse error, from the message of the ArgumentError"""
    if "must be given via" in msg:
        return "linkCall"
    if "not found in namespace" in msg:
        return "missingSource"
    if "Call to compute_fn of link" in msg:
        return "computeFn"
    if "is required but not included" in msg:
        return "required"
    return "invalid"


def do_parse(p, case, tmpdir=None):
    """run the entry point of the case; returns ("ok", cfg) / ("err", kind, message)"""
    from jsonargparse import ArgumentError

    entry = case["entry"]
    try:
        if entry == "args":
            argv = list(case.get("argv", []))
            for g, content in (case.get("gfile") or {}).items():     # a group given as a config file (keeps __path__)
                _MOD["n"] = _MOD.get("n", 0) + 1
                d = os.path.join(_MOD["dir"], "gf%d" % _MOD["n"])
                os.mkdir(d)
                with open(os.path.join(d, g + ".json"), "w") as f:
                    f.write(json.dumps(content))
                argv = ["--%s=%s" % (g, os.path.join(d, g + ".json"))] + argv
            cfg = p.parse_args(argv)
        elif entry == "string":
            cfg = p.parse_string(json.dumps(case.get("config", {})))
        elif entry == "path":
            path = os.path.join(tmpdir or _MOD["dir"], "case_cfg.json")
            with open(path, "w") as f:
                f.write(json.dumps(case.get("config", {})))
            cfg = p.parse_path(path)
        elif entry == "object":
            cfg = p.parse_object(copy.deepcopy(case.get("config", {})))
        elif entry == "env":
            cfg = p.parse_env(dict(case.get("env", {})))
        elif entry == "none":       # registration only (exhaustive link sets)
            return ("err", "not-parsed", "")
        else:
            raise MachineryError("unknown entry " + entry)
    except ArgumentError as ex:
        return ("err", err_kind(str(ex)), str(ex)[:300])
    return ("ok", cfg)


def run_real(case):
    """everything observed on the real code for one case"""
    if case["entry"] == "history":
        h = run_history(case)
        _HIST_FAILS[json.dumps(case, sort_keys=True)] = h["fails"]      # the oracle ran with the history: `judge` takes the result from here
        h["res"] = ("ok", None) if any("res" in s and s["res"][0] == "ok" for s in h["steps"]) else ("err", "invalid", "")
        h["links"] = [s["link"] for s in h["steps"] if "link" in s]
        h["records"] = []
        return h
    spec = case["spec"]
    p, lp, rep, rep_top = assemble(spec)
    env = case.get("env", {}) if case["entry"] != "env" else {}
    with EnvPatch(env), Capture() as cap:
        res = do_parse(p, case)
    return {"parser": p, "lparser": lp, "links": rep, "top_links": rep_top, "res": res, "records": cap.records}


# ---------------------------------------------------------------- key helpers (independent of the library)
def nested(k1, k2):
    """k1 and k2 are different keys and one is a dotted prefix of the other"""
    return k1 != k2 and (k1.startswith(k2 + ".") or k2.startswith(k1 + "."))


def fwd_ok(links):
    """the order-aware guard of `C15_invariant_ordered` (Lean: `fwdOK`): no link writes into its own sources and no link
    registered later writes into / above the target or the sources of a link registered earlier"""
    def div(k1, k2):
        return k1 != k2 and not nested(k1, k2)

    for i, l in enumerate(links):
        if not all(div(l["target"], s) for s in l["sources"]):
            return False
        for o in links[i + 1:]:
            if not div(o["target"], l["target"]) or not all(div(o["target"], s) for s in l["sources"]):
                return False
    return True


def accepted_links(spec, rep):
    return [l for l, r in zip(link_spec(spec).get("links", []), rep) if r["ok"]]


def link_attribution(l, links):
    """open-finding class that can explain a broken invariant of link `l` within the accepted set `links`"""
    for o in links:
        for s in l["sources"]:
            if nested(o["target"], s):
                return F_NESTED
        if o is not l and nested(o["target"], l["target"]):
            return F_NESTED
        for s in o["sources"]:
            if nested(l["target"], s):
                return F_NESTED
    return None


def set_attribution(links):
    for l in links:
        a = link_attribution(l, links)
        if a:
            return a
    return None


def should_reject(l, prev):
    """the reasons for which the property wants `link_arguments` to raise ValueError (prev = accepted links)"""
    why = []
    ptargets = {o["target"] for o in prev}
    psources = {s for o in prev for s in o["sources"]}
    if l["target"] in ptargets:
        why.append("double target")
    if any(s in ptargets for s in l["sources"]):
        why.append("source is a target (chain)")
    if l["target"] in psources:
        why.append("target is a source (chain)")
    if l["target"] in l["sources"]:
        why.append("target is one of its own sources (chain)")
    if not l.get("fn") and len(l["sources"]) != 1:
        why.append("several sources without function")
    return why


def dig(d, key):
    """(found, value) of a dotted key in nested dicts"""
    cur = d
    for seg in key.split("."):
        if not isinstance(cur, dict) or seg not in cur:
            return False, None
        cur = cur[seg]
    return True, cur


# ---------------------------------------------------------------- the property on the real code
def target_kind(l):
    return "init" if ".init_args." in l["target"] else "plain"


def coerce_flags(l, spec):
    """which arguments the documented "namespace to dict" conversion applies to"""
    table = fn_table()
    if l.get("fn"):
        fl = table[l["fn"]][2] or []
        return [fl[i] if i < len(fl) else False for i in range(len(l["sources"]))]
    ttype = next((a["type"] for a in link_spec(spec).get("args", []) if a["name"] == l["target"]), None)
    return [ttype == "dict"]


def same_exact(a, b):
    """value for value AND type for type, at every depth (1, 1.0 and True are three different values)"""
    from jsonargparse import Namespace

    if type(a) is not type(b):
        return False
    if isinstance(a, (list, tuple)):
        return len(a) == len(b) and all(same_exact(x, y) for x, y in zip(a, b))
    if isinstance(a, Namespace):
        return same_exact(vars(a), vars(b))
    if isinstance(a, dict):
        return set(a) == set(b) and all(same_exact(a[k], b[k]) for k in a)
    return a == b


def shared_identity(l, links, spec, root):
    """A link without compute function and without dict coercion whose source holds a Namespace stores that very OBJECT
    at the target (`cfg[target_key] = value`): whatever a link applied later writes INTO the source (or into the target) is
    seen through both keys, so target == source cannot be lost -- unless a link applied later rebinds the source, the
    target or a key above them.  For these links a nested link set is no excuse (the open finding does not cover them)."""
    from jsonargparse import Namespace

    if l.get("fn") or len(l["sources"]) != 1 or any(coerce_flags(l, spec)):
        return False
    s0 = l["sources"][0]
    if s0 not in root or not isinstance(root[s0], Namespace):
        return False
    idx = next((i for i, o in enumerate(links) if o is l), len(links))
    for o in links[idx + 1:]:
        if any(k == o["target"] or k.startswith(o["target"] + ".") for k in (s0, l["target"])):
            return False
    return True


def recompute(l, spec, root):
    """(claim, expected, actual values of the target) on the final configuration `root`"""
    from jsonargparse import Namespace

    table = fn_table()
    args = []
    for s, co in zip(l["sources"], coerce_flags(l, spec)):
        if s not in root:
            return None  # skipped link (subclass source absent): nothing is claimed
        v = root[s]
        if co and isinstance(v, Namespace):
            v = v.as_dict()
        args.append(v)
    if l.get("fn"):
        try:
            expected = table[l["fn"]][0](*args)
        except Exception as ex:  # noqa: BLE001
            return ("raises", exc_class(ex), [])
    else:
        expected = args[0]
    t = l["target"]
    if target_kind(l) == "init":
        dest, child = t.split(".init_args.", 1)
        child = "init_args." + child
        parent = root.get(dest)
        if isinstance(parent, list):
            actual = [i[child] for i in parent if isinstance(i, Namespace) and child in i]
        else:
            actual = [root[t]] if t in root else []
    else:
        if t not in root:
            return ("missing", expected, [])
        actual = [root[t]]
    return ("value", expected, actual)


def drop_cfg(cfg):
    """the configuration without the entry of the config-file option itself"""
    from jsonargparse._namespace import strip_meta

    c = strip_meta(cfg.clone())
    c.pop("cfg", None)
    return c


def sub_root(spec, cfg):
    if spec.get("sub"):
        name = spec["sub"]["name"]
        return cfg[name] if name in cfg else None
    return cfg


def sub_dict(spec, d):
    if spec.get("sub"):
        return d.get(spec["sub"]["name"], {}) if isinstance(d, dict) else {}
    return d


def in_dump(l, d, root):
    """occurrences of the target in a loaded dump: (as a namespace path, inside items of a list)"""
    t = l["target"]
    if target_kind(l) == "init":
        dest, child = t.split(".init_args.", 1)
        found, parent = dig(d, dest)
        if found and isinstance(parent, list):
            return False, any(isinstance(i, dict) and dig(i, "init_args." + child)[0] for i in parent)
    return dig(d, t)[0], False


def oracle(case, deep=True):
    """evaluate C15 on the real code; returns a list of {"what", "finding"} (finding = open class that explains it)"""
    import yaml
    from jsonargparse import ArgumentError

    if case["entry"] == "history":
        if json.dumps(case, sort_keys=True) in _HIST_FAILS:
            return _HIST_FAILS.pop(json.dumps(case, sort_keys=True))
        return run_history(case)["fails"]
    fails = []

    def fail(what, finding=None):
        fails.append({"what": what, "finding": finding})

    spec = case["spec"]
    lspec = link_spec(spec)
    prev = []

    def observer(parser, l, r):
        why = should_reject(l, prev)
        if r["ok"]:
            if why:
                fail("link_arguments(%s -> %s) accepted although: %s" % (l["sources"], l["target"], ", ".join(why)))
            prev.append(l)
            if l["target"] in parser.required_args:
                fail("link target %s is still in required_args" % l["target"])
        elif r["error"] != "ValueError":
            fail("link_arguments(%s -> %s) raises %s instead of ValueError" % (l["sources"], l["target"], r["error"]))

    top_prev = []

    def top_observer(parser, l, r):
        why = should_reject(l, top_prev)
        if r["ok"]:
            if why:
                fail("link_arguments(%s -> %s) on the parent parser accepted although: %s" % (l["sources"], l["target"], ", ".join(why)))
            top_prev.append(l)
            if l["target"] in parser.required_args:
                fail("link target %s of the parent parser is still in required_args" % l["target"])
        elif r["error"] != "ValueError":
            fail("link_arguments(%s -> %s) raises %s instead of ValueError" % (l["sources"], l["target"], r["error"]))

    p, lp, rep, _ = assemble(spec, observer, top_observer)
    links = prev
    topview = {k: v for k, v in spec.items() if k != "sub"}
    env = case.get("env", {}) if case["entry"] != "env" else {}
    with EnvPatch(env):
        res = do_parse(p, case)
        if res[0] == "err":
            for l in links:
                if res[1] == "required" and ('"%s"' % l["target"] in res[2] or '.%s"' % l["target"] in res[2]):
                    fail("parse demands the link target %s from the user: %s" % (l["target"], res[2][:160]))
        else:
            cfg = res[1]
            root = sub_root(spec, cfg)
            # --- the invariant
            ordered = fwd_ok(links)      # nested keys, but every write comes before the reads it affects: no excuse
            for l in links if root is not None else []:
                attr = None if ordered or shared_identity(l, links, lspec, root) else link_attribution(l, links)
                rc = recompute(l, spec, root)
                if rc is None:
                    continue
                if rc[0] == "raises":
                    fail("parse succeeded although compute_fn of %s -> %s raises %s on the final source values" % (l["sources"], l["target"], rc[1]), attr)
                elif rc[0] == "missing":
                    fail("plain link target %s is not set after a successful parse" % l["target"], attr)
                else:
                    for got in rc[2]:
                        if not same_exact(got, rc[1]):
                            fail("cfg[%s] = %r but compute_fn(%s) = %r" % (l["target"], got, ", ".join(l["sources"]), rc[1]), attr)
                            break
            # --- the links of the parent parser of a subcommand (same invariant, one level up)
            for l in top_prev:
                rc = recompute(l, topview, cfg)
                if rc is None:
                    continue
                if rc[0] != "value" or any(not same_exact(g, rc[1]) for g in rc[2]):
                    fail("parent parser: cfg[%s] = %r but compute_fn(%s) gives %r" % (l["target"], rc[2], ", ".join(l["sources"]), rc[1]),
                         link_attribution(l, top_prev))
            # --- the configuration returned has been validated WITH the link targets in place
            try:
                p.validate(cfg)
            except Exception as ex:  # noqa: BLE001
                fail("parse returned a configuration that does not validate (%s: %s)" % (exc_class(ex), str(ex)[:160]),
                     None if ordered else set_attribution(links))
            # --- dumps
            set_attr = None if ordered else set_attribution(links)
            text = None
            for fmt in ("yaml", "json"):
                try:
                    out = p.dump(cfg, format=fmt)
                except Exception as ex:  # noqa: BLE001
                    fail("dump(format=%s) of a parsed configuration raises %s: %s" % (fmt, exc_class(ex), str(ex)[:120]), set_attr)
                    continue
                d = yaml.safe_load(out) if fmt == "yaml" else json.loads(out)
                if fmt == "yaml":
                    text = out
                for l in top_prev:
                    if isinstance(d, dict) and dig(d, l["target"])[0]:
                        fail("link target %s of the parent parser appears in the %s dump" % (l["target"], fmt))
                d = sub_dict(spec, d if isinstance(d, dict) else {})
                if fmt == "yaml" and spec.get("sub") and not d and links and set_attr is None:
                    set_attr = F_EMPTYSUB   # every entry of the subcommand section was a link target: `fit: {}` is dumped
                for l in links:
                    path_hit, item_hit = in_dump(l, d, root)
                    if path_hit:
                        fail("link target %s appears in the %s dump" % (l["target"], fmt))
                    if item_hit:
                        fail("link target %s appears in the items of the list in the %s dump" % (l["target"], fmt), F_LIST)
            # --- re-parse
            if set_attr is None and root is not None and any(
                    _target_held(l, root) and recompute(l, spec, root) is None for l in links):
                set_attr = F_SKIPPED    # a skipped link (subclass source absent) whose target holds a supplied / default value
            if text is not None:
                try:
                    cfg2 = p.parse_string(text)
                    if drop_cfg(cfg2) != drop_cfg(cfg):
                        fail("parse_string(dump(cfg)) != cfg: %r vs %r" % (cfg2, cfg), set_attr)
                except ArgumentError as ex:
                    fail("parse_string(dump(cfg)) raises: %s" % str(ex)[:160], set_attr)
            # --- saved files
            if deep and links:
                for multifile in (False, True):
                    d = tempfile.mkdtemp(dir=_MOD["dir"])
                    path = os.path.join(d, "saved.yaml")
                    try:
                        p.save(cfg, path, multifile=multifile)
                        with open(path) as f:
                            sd = yaml.safe_load(f.read())
                        sd = sub_dict(spec, sd if isinstance(sd, dict) else {})
                        for l in links:
                            path_hit, item_hit = in_dump(l, sd, root)
                            if path_hit:
                                fail("link target %s appears in the file written by save(multifile=%s)" % (l["target"], multifile))
                            if item_hit:
                                fail("link target %s appears in the list items written by save" % l["target"], F_LIST)
                        for fn in os.listdir(d):
                            if fn == "saved.yaml":
                                continue
                            with open(os.path.join(d, fn)) as f:
                                sub = yaml.safe_load(f.read())
                            g = fn.rsplit(".", 1)[0]
                            for l in links:
                                if l["target"].startswith(g + ".") and isinstance(sub, dict) and dig(sub, l["target"][len(g) + 1:])[0]:
                                    fail("link target %s appears in the sub-file %s written by save" % (l["target"], fn))
                    except Exception as ex:  # noqa: BLE001
                        fail("save(multifile=%s) of a parsed configuration raises %s: %s" % (multifile, exc_class(ex), str(ex)[:120]), set_attr)
                    finally:
                        shutil.rmtree(d, True)
        # --- the option of a plain target is rejected
        for l in top_prev:
            if case["entry"] != "none":
                try:
                    got = p.parse_args(["--%s=3" % l["target"], spec["sub"]["name"]])
                    fail("the option of link target %s of the parent parser is accepted: %r" % (l["target"], got))
                except ArgumentError:
                    pass
        pre = [spec["sub"]["name"]] if spec.get("sub") else []
        for l in links:
            if target_kind(l) != "plain" or case["entry"] == "none":
                continue
            ttype = next((a["type"] for a in lspec.get("args", []) if a["name"] == l["target"]), "int")
            val = {"int": "3", "str": "v", "any": "3", "dict": "{}", "untyped": "3"}.get(ttype, "3")
            adef = next((a for a in lspec.get("args", []) if a["name"] == l["target"]), {})
            forms = [["--%s=%s" % (l["target"], val)], ["--" + l["target"], val]]
            for al in adef.get("aliases", []):
                forms += [[al, val]] + ([["%s=%s" % (al, val)]] if al.startswith("--") else [])
            if ttype == "flag":
                val = "true"
                forms = [["--" + l["target"]], ["--no_" + l["target"]], ["--%s=true" % l["target"]], ["--no_%s=false" % l["target"]]]
            for form in forms:
                try:
                    got = p.parse_args(pre + form)
                    fail("the option of link target %s is accepted: parse_args(%s) = %r" % (l["target"], pre + form, got))
                except ArgumentError as ex:
                    if "must be given via" not in str(ex) and deep:
                        # another reason (e.g. a required argument) hides the rejection: ask with everything else supplied
                        pass
    return fails


# ---------------------------------------------------------------- generators
def leaf_types(lspec):
    """typed leaf keys of a (sub)spec: {key: type}"""
    out = {}
    for a in lspec.get("args", []):
        out[a["name"]] = a["type"]
    for g in lspec.get("groups", []):
        for f in GROUPS[g][2]:
            out["%s.%s" % (g, f)] = "int"
    return out


def gen_spec(rng, allow_sub=True, top=True):
    spec = {"args": [], "groups": [], "subclass": [], "subclass_list": [], "links": []}
    if top:
        spec["default_env"] = rng.random() < 0.4
    for n in sorted(rng.sample(INT_ARGS, rng.randint(2, 5))):
        r = rng.random()
        if r < 0.12:
            spec["args"].append({"name": n, "type": "int", "required": True})
        elif r < 0.22:
            spec["args"].append({"name": n, "type": "int", "default": None})
        else:
            spec["args"].append({"name": n, "type": "int", "default": rng.randint(-3, 9)})
    for a in spec["args"]:      # other option strings of the same argument
        if rng.random() < 0.3:
            a["aliases"] = rng.sample(["-" + a["name"].upper(), "--%s_long" % a["name"], "--%s%s" % (a["name"], a["name"])], rng.randint(1, 2))
    if rng.random() < 0.3:
        spec["args"].append({"name": "f1", "type": "flag", "default": rng.random() < 0.5})
        spec["args"].append({"name": "f2", "type": "flag", "default": rng.random() < 0.5})
    if rng.random() < 0.45:
        spec["args"].append({"name": "s", "type": "str", "default": rng.choice(["x", "abc", "Hi there", ""])})
        spec["args"].append({"name": "u", "type": "str", "default": rng.choice([None, "u0"])})
    for n in ANY_ARGS:
        if rng.random() < 0.35:
            spec["args"].append({"name": n, "type": "any", "default": None})
    if rng.random() < 0.3:
        spec["args"].append({"name": "m", "type": "dict", "default": {}})
    for g in GROUPS:
        if rng.random() < 0.4:
            spec["groups"].append(g)
    if rng.random() < 0.45:
        r = rng.random()
        s = {"name": "opt"}
        if r < 0.1:
            s["required"] = True
        elif r < 0.4:
            s["default"] = rng.choice(["SubA", "SubB", "SubC"])
        if rng.random() < 0.4:      # a class inside a (mixed) union
            s["union"] = rng.choice(["bool", "str", "optional"])
        spec["subclass"].append(s)
        if rng.random() < 0.35:
            spec["subclass"].append({"name": "opt2", "default": rng.choice([None, "SubB"])})
    if rng.random() < 0.35:
        spec["subclass_list"].append({"name": "opts"})
    n_links = rng.choice([1, 1, 2, 2, 3, 4])
    for _ in range(n_links):
        l = gen_link(rng, spec)
        if l:
            spec["links"].append(l)
    if top and allow_sub and rng.random() < 0.15:
        inner = spec
        inner.pop("default_env", None)
        spec = {"default_env": rng.random() < 0.4, "args": [{"name": "top", "type": "int", "default": 0}], "groups": [], "subclass": [],
                "subclass_list": [], "links": [], "sub": {"name": "fit", "spec": inner}}
        if rng.random() < 0.6:      # the parent parser has links of its own (else: no _links_group there)
            spec["args"] += [{"name": "top2", "type": "int", "default": rng.randint(1, 9)}, {"name": "top3", "type": "int", "default": 5}]
            spec["toplinks"] = [rng.choice([{"sources": ["top"], "target": "top2", "fn": None}, {"sources": ["top", "top3"], "target": "top2", "fn": "sum"},
                                            {"sources": ["top3"], "target": "top", "fn": "double"}])]
            if rng.random() < 0.3:
                spec["toplinks"].append({"sources": ["top2"], "target": "top3", "fn": None})     # a chain: refused
        if rng.random() < 0.4:
            spec["alt"] = rng.choice(["first", "last"])
    return spec


def gen_link(rng, spec):
    types = leaf_types(spec)
    prev = spec["links"]
    ptargets = [l["target"] for l in prev]
    psources = [s for l in prev for s in l["sources"]]
    ints = [k for k, t in types.items() if t == "int"]
    groups = list(spec["groups"])
    sub_int_src = []
    init_targets = []
    for s in spec["subclass"]:
        sub_int_src += ["%s.init_args.k" % s["name"], "%s.init_args.dim" % s["name"]]
        init_targets += ["%s.init_args.dim" % s["name"], "%s.init_args.k" % s["name"]]
    for s in spec["subclass_list"]:
        init_targets += ["%s.init_args.dim" % s["name"], "%s.init_args.k" % s["name"]]
    r = rng.random()
    single_str = rng.random() < 0.5
    # ---- deliberately wrong requests (must raise ValueError) and the shapes of the open findings
    if r < 0.10 and prev:
        kind = rng.choice(["chain_src", "double", "chain_tgt", "nofn", "unknown"])
        o = rng.choice(prev)
        if kind == "chain_src" and ints:
            return {"sources": [o["target"]], "target": rng.choice(ints), "fn": rng.choice([None, "id"]), "single_str": single_str}
        if kind == "double" and ints:
            return {"sources": [rng.choice(ints)], "target": o["target"], "fn": None, "single_str": single_str}
        if kind == "chain_tgt" and o["sources"] and ints:
            return {"sources": [rng.choice(ints)], "target": rng.choice(o["sources"]), "fn": None, "single_str": single_str}
        if kind == "nofn" and len(ints) >= 3:
            return {"sources": rng.sample(ints, 2), "target": rng.choice(ints), "fn": None}
        return {"sources": ["nokey"], "target": rng.choice(ints) if ints else "a", "fn": None, "single_str": single_str}
    if r < 0.115 and ints:
        t = rng.choice(ints)  # self link: refused since ba94f2f (fixed finding F15x)
        other = [k for k in ints if k != t]
        if rng.random() < 0.5 or not other:
            return {"sources": [t], "target": t, "fn": rng.choice(["double", "id", None]), "single_str": single_str}
        return {"sources": [t, rng.choice(other)], "target": t, "fn": "sum"}
    allow_nested = rng.random() < 0.06

    def ok_target(t):
        if t in ptargets or t in psources:
            return False
        if not allow_nested and any(nested(t, s) for s in psources + ptargets):
            return False
        return True

    def ok_source(s, t):
        if s in ptargets or s == t:
            return False
        if not allow_nested and any(nested(s, x) for x in ptargets + [t]):
            return False
        return True

    if "f1" in types and "f2" not in ptargets + psources and "f1" not in ptargets and rng.random() < 0.5:
        return {"sources": ["f1"], "target": "f2", "fn": rng.choice([None, "id"]), "single_str": single_str}
    cands = []
    for t in ints + init_targets:
        if ok_target(t):
            cands.append((t, "int"))
    for k, ty in types.items():
        if ty in ("str", "any", "dict") and ok_target(k) and not (ty == "str" and k == "s"):
            cands.append((k, ty))
    if not cands:
        return None
    t, ty = rng.choice(cands)
    isrc = [s for s in ints if ok_source(s, t)]
    ssrc = [s for s in sub_int_src if ok_source(s, t)]
    gsrc = [g for g in groups if ok_source(g, t)]
    opts = []
    if ty == "int":
        pool = isrc + (ssrc if rng.random() < 0.3 else [])
        if pool:
            opts += [("one", None), ("one", "id"), ("one", "double"), ("many", "sum"), ("many", "sum")]
            if len(pool) >= 2:
                opts.append(("two", "pair"))
            if rng.random() < 0.08:
                opts.append(("one", "raise"))
            if rng.random() < 0.08:
                opts.append(("many", "tuple"))     # ill-typed result: must be caught by the validation after the links
        if gsrc:
            opts += [("group", "gsum"), ("group", "gsum_d"), ("group", "kind"), ("group", "kind_d")]
        if "s" in types and ok_source("s", t):
            opts.append(("str", "len"))
        opts.append(("none", "const"))
    elif ty == "str":
        if "s" in types and ok_source("s", t):
            opts += [("str", "upper"), ("str", None), ("str", "id")]
    elif ty == "any":
        if isrc:
            opts += [("many", "tuple"), ("many", "list"), ("one", None)]
        if gsrc:
            opts += [("group", None), ("group", "id")]
    elif ty == "dict":
        if gsrc:
            opts += [("group", None)]
    if not opts:
        return None
    shape, fn = rng.choice(opts)
    if shape in ("one", "many", "two"):
        pool = isrc + (ssrc if (ty == "int" and rng.random() < 0.3) else [])
        if not pool:
            return None
        n = 1 if shape == "one" else 2 if shape == "two" else rng.randint(1, min(3, len(pool)))
        if len(pool) < n:
            return None
        srcs = rng.sample(pool, n)
    elif shape == "group":
        srcs = [rng.choice(gsrc)]
    elif shape == "str":
        srcs = ["s"]
    else:
        srcs = []
    l = {"sources": srcs, "target": t, "fn": fn}
    if len(srcs) == 1 and single_str:
        l["single_str"] = True
    return l


WORDS = ["hello", "World", "a b", "x", "MiXed", ""]   # ASCII: the model mirrors str.upper on a-z only


def gen_value(rng, ty):
    if ty == "int":
        return rng.randint(-5, 60)
    if ty == "str":
        return rng.choice(WORDS)
    if ty == "flag":
        return rng.random() < 0.5
    if ty == "any":
        return rng.choice([1, 7, 12])
    return {"k": rng.randint(0, 5)}


def class_spec(rng, short=False, supply_target=0.4):
    """a value for a subclass argument, as it is written in a config"""
    m = gen_module()
    cls = rng.choice(["SubA", "SubB", "SubB", "SubC"])
    path = cls if short and rng.random() < 0.5 else "%s.%s" % (m.__name__, cls)
    init = {}
    if rng.random() < 0.5:
        init["k"] = rng.randint(0, 9)
    if cls != "SubC" and rng.random() < supply_target:
        init["dim"] = rng.randint(10, 20)
    if not init and rng.random() < 0.5:
        return path if short else {"class_path": path}
    d = {"class_path": path}
    if init:
        d["init_args"] = init
    return d


def gen_replace_case(rng):
    """links WITHOUT compute function from a namespace-valued source (group / class) to untyped, Any, Dict and class-typed
    targets, with a mapping supplied for the target that has keys the source lacks / another class / extra dict_kwargs:
    the target must be REPLACED by the source, not merged into what was supplied"""
    m = gen_module()
    mod = m.__name__
    if rng.random() < 0.55:
        groups = rng.sample(["g", "dc", "h"], rng.randint(1, 2))
        spec = {"default_env": False, "groups": groups, "subclass": [], "subclass_list": [],
                "args": [{"name": "a", "type": "int", "default": 1}, {"name": "w", "type": "any", "default": None},
                         {"name": "raw", "type": "untyped", "default": None}, {"name": "m", "type": "dict", "default": {}}], "links": []}
        for t in rng.sample(["w", "raw", "m"], rng.randint(1, 3)):
            spec["links"].append({"sources": [rng.choice(groups)], "target": t, "fn": None, "single_str": rng.random() < 0.5})
        extra = {"w": {"wd": rng.randint(1, 9), "p": 1, "x": 2}, "raw": {"zz": 1, "q": rng.randint(5, 9), "v1": 0}, "m": {"k": 3, "y": 8}}
        supplied = {t: extra[t] for t in ("w", "raw", "m") if rng.random() < 0.75}
        srcs = {}
        for g in groups:
            for f in GROUPS[g][2]:
                if rng.random() < 0.5:
                    srcs["%s.%s" % (g, f)] = rng.randint(10, 50)
        entry = rng.choice(["args", "string", "object", "path"])
        case = {"spec": spec, "entry": entry}
        if entry == "args":
            in_cfg = {k: v for k, v in srcs.items() if rng.random() < 0.5}
            cfgopt = dict(supplied)
            for k, v in in_cfg.items():
                set_in(cfgopt, k, v)
            rest = [(k, v) for k, v in srcs.items() if k not in in_cfg]
            case["argv"] = ["--cfg=" + json.dumps(cfgopt)] + ["--%s=%d" % kv for kv in rest]
            case["feed"] = [["config", k, v] for k, v in supplied.items()] + [["config", k, v] for k, v in in_cfg.items()] + \
                [["argv", k, v] for k, v in rest]
        else:
            config = dict(supplied)
            for k, v in srcs.items():
                set_in(config, k, v)
            case["config"] = config
            chan = "object" if entry == "object" else "config"
            case["feed"] = [[chan, k, v] for k, v in supplied.items()] + [[chan, k, v] for k, v in srcs.items()]
        return case

    def cspec(avoid=None):
        cls = rng.choice([c for c in ("SubA", "SubB", "SubK") if c != avoid] if avoid and rng.random() < 0.7 else ["SubA", "SubB", "SubK"])
        init = {"k": rng.randint(0, 9)}
        if cls == "SubA" or rng.random() < 0.5:
            init["dim"] = rng.randint(10, 20)
        if cls == "SubB" and rng.random() < 0.5:
            init["extra"] = "x%d" % rng.randint(0, 9)
        d = {"class_path": "%s.%s" % (mod, cls), "init_args": init}
        if cls == "SubK" and rng.random() < 0.6:
            d["dict_kwargs"] = {"kk": rng.randint(1, 5)}
        return d, cls

    spec = {"default_env": False, "groups": [], "subclass_list": [], "args": [{"name": "a", "type": "int", "default": 1}],
            "subclass": [{"name": "opt"}, {"name": "opt2"}, {"name": "holder", "cls": "Holder"}], "links": []}
    for t in rng.sample(["opt2", "holder.init_args.c"], rng.randint(1, 2)):
        spec["links"].append({"sources": ["opt"], "target": t, "fn": None, "single_str": rng.random() < 0.5})
    src, cls = cspec()
    values = {"opt": src}
    if rng.random() < 0.8:
        values["opt2"] = cspec(avoid=cls if rng.random() < 0.6 else None)[0]
    if rng.random() < 0.85:
        values["holder"] = {"class_path": "%s.Holder" % mod, "init_args": {"v": rng.randint(0, 5)}}
        if rng.random() < 0.85:
            values["holder"]["init_args"]["c"] = cspec(avoid=cls if rng.random() < 0.5 else None)[0]
    entry = rng.choice(["args", "string", "object"])
    case = {"spec": spec, "entry": entry}
    if entry == "args":
        in_cfg = {k: v for k, v in values.items() if k == "opt2" or rng.random() < 0.4}     # the option of a plain target is refused
        case["argv"] = (["--cfg=" + json.dumps(in_cfg)] if in_cfg else []) + ["--%s=%s" % (k, json.dumps(v)) for k, v in values.items() if k not in in_cfg]
    else:
        case["config"] = values
    return case


def set_in(d, key, val):
    segs = key.split(".")
    for s in segs[:-1]:
        d = d.setdefault(s, {})
    d[segs[-1]] = val


def env_name(key, sub=None):
    return ENV_PREFIX + "_" + (((sub + "__") if sub else "") + key.replace(".", "__")).upper()


def gen_case(rng, spec):
    """inputs for one parse of the parser described by `spec`; `feed` lists the assignments in precedence order"""
    lspec = link_spec(spec)
    subname = spec["sub"]["name"] if spec.get("sub") else None
    types = leaf_types(lspec)
    entry = rng.choice(["args", "args", "args", "string", "path", "object", "env"])
    use_env = bool(spec.get("default_env")) or entry == "env"
    argv_items = []    # ("opt", [tokens], key, value) in order
    config = {}
    cfgopt = {}
    env = {}
    feed_env, feed_cfg, feed_cfgopt = [], [], []
    targets = {l["target"] for l in lspec.get("links", [])}
    required = {a["name"] for a in lspec.get("args", []) if a.get("required")}
    for k, ty in types.items():
        p_set = 0.5 if k not in targets else 0.35
        if k in required and k not in targets:
            p_set = 0.9
        if rng.random() > p_set:
            continue
        v = gen_value(rng, ty)
        chans = []
        if entry == "args":
            chans = ["argv", "argv", "cfgopt"]
            if k in targets and ty in ("int", "str", "any", "dict"):
                chans = ["cfgopt"]      # the option of a plain target is probed separately
        elif entry in ("string", "path", "object"):
            chans = ["config", "config"]
        if use_env and ty in ("int", "str"):
            chans.append("env")
        if not chans:
            continue
        ch = rng.choice(chans)
        if ch == "argv":
            sv = v if isinstance(v, str) else json.dumps(v)
            toks = ["--%s=%s" % (k, sv)] if rng.random() < 0.7 else ["--" + k, sv]
            al = next((a.get("aliases") for a in lspec.get("args", []) if a["name"] == k), None)
            if al and rng.random() < 0.5:
                toks = [rng.choice(al), sv]
            if ty == "flag":
                toks = ["--" + k] if v else ["--no_" + k]
            argv_items.append((toks, k, v))
        elif ch == "cfgopt":
            set_in(cfgopt, k, v)
            feed_cfgopt.append([k, v])
        elif ch == "config":
            set_in(config, k, v)
            feed_cfg.append([k, v])
        else:
            env[env_name(k, subname)] = v if isinstance(v, str) else json.dumps(v)
            feed_env.append([k, v])
    # subclass arguments (no model of the merge: K3/K4 and the oracle only)
    for s in lspec.get("subclass", []):
        if rng.random() < (0.75 if not s.get("default") else 0.4):
            name = s["name"]
            if entry == "args":
                n = rng.choice([1, 1, 2])
                for i in range(n):
                    cs = class_spec(rng, short=s.get("union") != "str")
                    if s.get("union") == "str" and isinstance(cs, str):
                        cs = {"class_path": cs}
                    argv_items.append((["--%s=%s" % (name, cs if isinstance(cs, str) else json.dumps(cs))], None, None))
                    if rng.random() < 0.4:
                        form = rng.choice(["--%s.init_args.k=%d", "--%s.k=%d"])
                        argv_items.append(([form % (name, rng.randint(0, 9))], None, None))
                    if rng.random() < 0.3:
                        form = rng.choice(["--%s.init_args.dim=%d", "--%s.dim=%d"])
                        argv_items.append(([form % (name, rng.randint(30, 40))], None, "sub-order"))
            elif entry in ("string", "path", "object"):
                config[name] = class_spec(rng)
                if s.get("union") == "str" and isinstance(config[name], str):
                    config[name] = {"class_path": config[name]}
    for s in lspec.get("subclass_list", []):
        if rng.random() < 0.7:
            name = s["name"]
            items = [class_spec(rng, short=(entry == "args")) for _ in range(rng.choice([0, 1, 2, 2, 3]))]
            if entry == "args":
                if rng.random() < 0.3 and items:
                    for it in items:
                        argv_items.append((["--%s+=%s" % (name, it if isinstance(it, str) else json.dumps(it))], None, None))
                else:
                    argv_items.append((["--%s=%s" % (name, json.dumps(items))], None, None))
            elif entry in ("string", "path", "object"):
                config[name] = items
    # argv: sub-class tokens keep their relative order, everything else is shuffled around them
    plain = [a for a in argv_items if a[1] is not None]
    rest = [a for a in argv_items if a[1] is None]
    rng.shuffle(plain)
    merged = []
    while plain or rest:
        if plain and (not rest or rng.random() < 0.5):
            merged.append(plain.pop(0))
        else:
            merged.append(rest.pop(0))
    case = {"spec": spec, "entry": entry}
    feed_argv = []
    gfeed = []
    top_argv, top_cfg, top_feed = [], {}, []
    if subname:
        ttargets = {l["target"] for l in spec.get("toplinks", [])}
        for a in spec["args"]:
            if rng.random() < 0.4:
                v = rng.randint(0, 40)
                if entry == "args" and a["name"] not in ttargets:
                    top_argv.append("--%s=%d" % (a["name"], v))
                    top_feed.append(["argv", a["name"], v])
                elif entry in ("string", "path", "object"):
                    top_cfg[a["name"]] = v
                    top_feed.append(["object" if entry == "object" else "config", a["name"], v])
    if entry == "args" and not subname and rng.random() < 0.3:
        for g in lspec.get("groups", []):
            if GROUPS[g][0] in ("class", "dataclass") and rng.random() < 0.7:
                content = {f: rng.randint(0, 30) for f in GROUPS[g][2] if rng.random() < 0.6}
                case.setdefault("gfile", {})[g] = content
                gfeed = [["config", "%s.%s" % (g, f), v] for f, v in content.items()] + gfeed
    if entry == "args":
        seq = [(toks, [["argv", k, v]] if k is not None else []) for toks, k, v in merged]
        cfg_tok = None
        if cfgopt:
            wrapped = {subname: cfgopt} if subname else cfgopt
            cfg_tok = (["--cfg=" + json.dumps(wrapped)], [["config", k2, v2] for k2, v2 in feed_cfgopt])
        if subname:
            # the config option belongs to the top parser: before the subcommand name
            seq = ([cfg_tok] if cfg_tok else []) + [(top_argv, [])] + [([subname], [])] + seq
        elif cfg_tok:
            seq.insert(rng.randint(0, len(seq)), cfg_tok)
        argv = []
        for toks, fe in seq:
            argv += toks
            feed_argv += fe
        case["argv"] = argv
    if entry in ("string", "path", "object"):
        case["config"] = dict(top_cfg, **{subname: config}) if subname else config
        if subname and not config and rng.random() < 0.5:
            case["config"] = dict(top_cfg, **{subname: {}})
    if env:
        case["env"] = env
    chan = "object" if entry == "object" else "config"
    if top_feed:
        case["top_feed"] = top_feed
    case["feed"] = [["env", k, v] for k, v in feed_env] + [[chan, k, v] for k, v in feed_cfg] + gfeed + feed_argv
    return case


# ---------------------------------------------------------------- nested link sets (a target inside another link's source)
def gen_nested_case(rng):
    """a link whose source is a WHOLE namespace (a group, a class spec) next to links whose targets lie INSIDE that source,
    in both registration orders, with and without compute function / dict coercion.  What the code guarantees there:
    a link without function stores the source object itself, so it holds in either order; a computed / coerced value is
    a snapshot, right only when the inner link is registered first (else: open finding C15-nested-chain)."""
    m = gen_module()
    mod = m.__name__
    if rng.random() < 0.6:
        g = rng.choice(["g", "dc", "h"])
        f1, f2 = GROUPS[g][2]
        spec = {"default_env": rng.random() < 0.3, "groups": [g], "subclass": [], "subclass_list": [],
                "args": [{"name": "a", "type": "int", "default": rng.randint(0, 9)}, {"name": "b", "type": "int", "default": 0},
                         {"name": "c", "type": "int", "default": rng.randint(0, 9)}, {"name": "w", "type": "any", "default": None},
                         {"name": "raw", "type": "untyped", "default": None}, {"name": "m", "type": "dict", "default": {}}], "links": []}
        whole = [{"sources": [g], "target": t, "fn": None, "single_str": rng.random() < 0.5} for t in rng.sample(["w", "raw"], rng.randint(1, 2))]
        r = rng.random()
        if r < 0.25:
            whole.append({"sources": [g], "target": "b", "fn": rng.choice(["gsum", "gsum_d", "kind"]), "single_str": True})
        elif r < 0.4:
            whole.append({"sources": [g], "target": "m", "fn": None, "single_str": True})
        inner = [{"sources": ["a"], "target": "%s.%s" % (g, f1), "fn": rng.choice([None, "double", "id"]), "single_str": rng.random() < 0.5}]
        if rng.random() < 0.4:
            inner.append({"sources": ["a", "c"], "target": "%s.%s" % (g, f2), "fn": "sum"})
        order = rng.choice(["whole-first", "inner-first", "mixed"])
        links = whole + inner if order == "whole-first" else inner + whole if order == "inner-first" else rng.sample(whole + inner, len(whole + inner))
        spec["links"] = links
        vals = {k: rng.randint(10, 60) for k in ("a", "c", "%s.%s" % (g, f1), "%s.%s" % (g, f2)) if rng.random() < 0.6}
        if rng.random() < 0.3:
            vals["w"] = {"old": 1}
        entry = rng.choice(["args", "string", "object", "env"] if spec["default_env"] else ["args", "string", "object"])
        case = {"spec": spec, "entry": entry, "nested_order": order}
        if entry == "args":
            incfg = {k: v for k, v in vals.items() if k in ("w",) or rng.random() < 0.3}
            case["argv"] = (["--cfg=" + json.dumps(_nest(incfg))] if incfg else []) + ["--%s=%d" % (k, v) for k, v in vals.items() if k not in incfg]
        elif entry == "env":
            case["env"] = {env_name(k): str(v) for k, v in vals.items() if k != "w"}
        else:
            case["config"] = _nest(vals)
        return case

    def cspec():
        cls = rng.choice(["SubA", "SubB", "SubK"])
        init = {"k": rng.randint(0, 9)}
        if cls == "SubA" or rng.random() < 0.6:
            init["dim"] = rng.randint(10, 20)
        return {"class_path": "%s.%s" % (mod, cls), "init_args": init}

    spec = {"default_env": False, "groups": [], "subclass_list": [], "args": [{"name": "a", "type": "int", "default": rng.randint(1, 9)}],
            "subclass": [{"name": "opt"}, {"name": "opt2"}, {"name": "holder", "cls": "Holder"}], "links": []}
    whole = [{"sources": ["opt"], "target": t, "fn": None, "single_str": rng.random() < 0.5}
             for t in rng.sample(["opt2", "holder.init_args.c"], rng.randint(1, 2))]
    inner = [{"sources": ["a"], "target": "opt.init_args." + rng.choice(["k", "dim"]), "fn": rng.choice([None, "double"]), "single_str": True}]
    order = rng.choice(["whole-first", "inner-first"])
    spec["links"] = whole + inner if order == "whole-first" else inner + whole
    values = {"opt": cspec(), "a": rng.randint(20, 40)}
    if rng.random() < 0.8:
        values["holder"] = {"class_path": "%s.Holder" % mod, "init_args": {"v": rng.randint(0, 5)}}
    entry = rng.choice(["args", "string", "object"])
    case = {"spec": spec, "entry": entry, "nested_order": order}
    if entry == "args":
        case["argv"] = ["--%s=%s" % (k, json.dumps(v)) for k, v in values.items()]
    else:
        case["config"] = values
    return case


def _nest(flat):
    d = {}
    for k, v in flat.items():
        set_in(d, k, v)
    return d


# ---------------------------------------------------------------- histories: one parser, several parses, links added in between
NUM_POOL = [1, 1.0, 0, 0.0, 2, 2.0]
BI_POOL = [True, 1, False, 0, 2]
ANY_POOL = [1, 1.0, True, 0, 0.0, False, [1], [1.0], [True], "x1", {"k": 1}, {"k": 1.0}]
HIST_TYPES = {"n1": "num", "n2": "num", "bi": "bi", "w": "any", "z": "any", "a": "int", "c": "int", "s": "str"}
HIST_DEFAULTS = {"n1": 2, "n2": 1, "bi": 10, "w": None, "z": None, "a": 1, "c": 0, "s": "x", "x1": None, "x2": None, "t1": "unset", "b": 0, "d": 0}


def hist_value(rng, ty):
    if ty == "num":
        return rng.choice(NUM_POOL)
    if ty == "bi":
        return rng.choice(BI_POOL)
    if ty == "any":
        return rng.choice(ANY_POOL)
    if ty == "int":
        return rng.randint(0, 2)
    return rng.choice(["x", "y"])


def gen_history_case(rng):
    """ONE parser used for a history: link_arguments calls and parses interleaved.  Sources typed Union[int, float],
    Union[bool, int] and Any take values that are `==` across types (1 / 1.0 / True, 0 / 0.0 / False, [1] / [1.0]) from small
    pools, so that consecutive parses often see equal-but-different source values; the compute functions tell them apart
    (`tagged`, `tyname`, `tuple`, `list`, identity) or read state that changes between the parses (`epoch`).  Optionally
    the parser has a default config file (the links are then applied twice within one parse)."""
    spec = {"default_env": rng.random() < 0.4, "groups": [], "subclass": [], "subclass_list": [], "links": [],
            "args": [{"name": k, "type": ty, "default": HIST_DEFAULTS[k]} for k, ty in HIST_TYPES.items()] +
                    [{"name": "x1", "type": "any", "default": None}, {"name": "x2", "type": "any", "default": None},
                     {"name": "t1", "type": "str", "default": "unset"}, {"name": "b", "type": "int", "default": 0},
                     {"name": "d", "type": "int", "default": 0}]}
    pool = [
        {"sources": rng.sample(["n1", "bi", "w"], rng.randint(1, 3)), "target": "x1", "fn": rng.choice(["tagged", "tuple", "list"])},
        {"sources": [rng.choice(["w", "z", "n2"])], "target": "x2", "fn": rng.choice(["tagged", "id", None, "tuple"]), "single_str": True},
        {"sources": [rng.choice(["n1", "bi", "z"])], "target": "t1", "fn": "tyname", "single_str": rng.random() < 0.5},
        {"sources": ["a"], "target": "b", "fn": "epoch", "single_str": True},
        {"sources": ["a", "c"], "target": "d", "fn": rng.choice(["sum", "pair"])},
    ]
    links = rng.sample(pool, rng.randint(2, 4))
    if rng.random() < 0.25:     # a request that must be refused, somewhere in the history
        o = rng.choice(links)
        links.append(rng.choice([{"sources": [o["target"]], "target": "c", "fn": None, "single_str": True},
                                 {"sources": ["a"], "target": o["target"], "fn": None, "single_str": True}]))
    n_first = rng.randint(1, len(links))
    if rng.random() < 0.35:
        dc = {k: hist_value(rng, ty) for k, ty in HIST_TYPES.items() if rng.random() < 0.5}
        spec["default_config"] = dc
    history = [{"link": l} for l in links[:n_first]]
    rest = links[n_first:]
    epoch = 0
    prev = None
    for _ in range(rng.randint(3, 6)):
        if rest and rng.random() < 0.5:
            history.append({"link": rest.pop(0)})
        if rng.random() < 0.4:
            epoch = rng.randint(0, 3)
        entry = rng.choice(["args", "args", "string", "object", "path"] + (["env"] if spec["default_env"] else []))
        if prev is not None and rng.random() < 0.3:     # the previous values again, some of them as another type
            vals = {k: _retype(rng, HIST_TYPES[k], v) for k, v in prev.items()}
        else:
            vals = {k: hist_value(rng, ty) for k, ty in HIST_TYPES.items() if rng.random() < 0.55}
        prev = vals
        step = {"entry": entry, "epoch": epoch}
        chan = {"args": "argv", "env": "env", "object": "object"}.get(entry, "config")
        if entry == "args":
            step["argv"] = ["--%s=%s" % (k, v if isinstance(v, str) else json.dumps(v)) for k, v in vals.items()]
        elif entry == "env":
            step["env"] = {env_name(k): v if isinstance(v, str) else json.dumps(v) for k, v in vals.items()}
        else:
            step["config"] = dict(vals)
            if rng.random() < 0.3:      # a value supplied for a target
                step["config"]["x1"] = "supplied"
        step["feed"] = [[chan, k, v] for k, v in vals.items()] + ([[chan, "x1", "supplied"]] if "x1" in step.get("config", {}) else [])
        history.append(step)
    return {"spec": spec, "entry": "history", "history": history}


def _retype(rng, ty, v):
    """a value of the argument's type that is `==` to `v` (often of another Python type)"""
    pool = {"num": NUM_POOL, "bi": BI_POOL, "any": ANY_POOL}.get(ty)
    if pool is None or isinstance(v, (str, dict)) or v is None:
        return v
    return rng.choice([x for x in pool if x == v and not isinstance(x, (str, dict)) and x is not None] or [v])


_HIST_FAILS = {}


def set_epoch(n):
    gen_module().EPOCH = n


def run_history(case, with_oracle=True):
    """the history on ONE real parser: per step the link report / the parse result (+ parser state for K1), and the
    property evaluated after every successful parse"""
    from jsonargparse import ArgumentError

    spec = case["spec"]
    p, _ = build_parser(spec)
    fails, steps, accepted = [], [], []

    def fail(what, finding=None):
        fails.append({"what": what, "finding": finding})

    for i, st in enumerate(case["history"]):
        if "link" in st:
            l = st["link"]
            why = should_reject(l, accepted)
            r = add_links(p, [l])[0]
            if r["ok"]:
                if why:
                    fail("step %d: link_arguments(%s -> %s) accepted although: %s" % (i, l["sources"], l["target"], ", ".join(why)))
                accepted.append(l)
                if l["target"] in p.required_args:
                    fail("step %d: link target %s is still in required_args" % (i, l["target"]))
            elif r["error"] != "ValueError":
                fail("step %d: link_arguments(%s -> %s) raises %s instead of ValueError" % (i, l["sources"], l["target"], r["error"]))
            steps.append({"link": r, "state": real_parser_state(p) if r["ok"] else None})
            continue
        set_epoch(st.get("epoch", 0))
        env = st.get("env", {}) if st["entry"] != "env" else {}
        with EnvPatch(env):
            res = do_parse(p, st)
        steps.append({"res": res, "accepted": list(accepted)})
        if not with_oracle or res[0] != "ok":
            continue
        cfg = res[1]
        tag = "step %d (%s, %d parses before)" % (i, st["entry"], sum(1 for x in steps[:-1] if "res" in x))

        def invariant(c, where):
            for l in accepted:
                rc = recompute(l, spec, c)
                if rc is None:
                    continue
                attr = None if fwd_ok(accepted) else link_attribution(l, accepted)
                if rc[0] == "raises":
                    fail("%s%s: parse succeeded although compute_fn of %s -> %s raises %s" % (tag, where, l["sources"], l["target"], rc[1]), attr)
                elif rc[0] == "missing":
                    fail("%s%s: plain link target %s is not set" % (tag, where, l["target"]), attr)
                elif not all(same_exact(g, rc[1]) for g in rc[2]):
                    fail("%s%s: cfg[%s] = %r but compute_fn(%s) = %r on the final sources %r" % (
                        tag, where, l["target"], rc[2], ", ".join(l["sources"]), rc[1], [c[s0] for s0 in l["sources"]]), attr)

        invariant(cfg, "")
        try:
            d = json.loads(p.dump(cfg, format="json"))
            for l in accepted:
                if dig(d, l["target"])[0]:
                    fail("%s: link target %s appears in the json dump" % (tag, l["target"]))
            cfg2 = p.parse_object(d)
            invariant(cfg2, ", re-parsed dump")
            if not same_exact(drop_cfg(cfg2), drop_cfg(cfg)):
                fail("%s: parse_object(dump(cfg)) != cfg: %r vs %r" % (tag, cfg2, cfg), set_attribution(accepted))
        except ArgumentError as ex:
            fail("%s: parse_object(dump(cfg)) raises: %s" % (tag, str(ex)[:160]), set_attribution(accepted))
    set_epoch(0)
    return {"parser": p, "steps": steps, "fails": fails, "accepted": accepted}


def history_lines(case, real):
    """driver lines of a history (one `history` op = the model's `runOps` on the whole op sequence) and what the real parser showed"""
    spec = case["spec"]
    table = fn_table()
    p0, _ = build_parser(spec)
    st0 = real_parser_state(p0)
    ops, expect = [], []
    dcfg = [["config", k, v] for k, v in (spec.get("default_config") or {}).items()]
    for st, rs in zip(case["history"], real["steps"]):
        if "link" in st:
            l = st["link"]
            ops.append({"link": {"sources": l["sources"], "coerce": coerce_flags(l, spec), "target": l["target"],
                                 "fn": table[l["fn"]][1] if l.get("fn") else None}})
            expect.append({"r": "ok", "parser": norm_state(rs["state"])} if rs["link"]["ok"] else {"r": rs["link"]["error"]})
        else:
            res = rs["res"]
            typed_out = res[0] == "err" and res[1] == "invalid"
            ops.append({"parse": wire_inputs(default_feed(spec) + dcfg + st["feed"]), "epoch": st.get("epoch", 0)})
            if typed_out:
                expect.append(None)     # a type check decided: parameter of the model
            else:
                expect.append({"ok": enc(drop_cfg(res[1]))} if res[0] == "ok" else {"err": res[1]})
    lines = [{"op": "new", "actions": st0["actions"], "required": st0["required"], "opts": st0["opts"]}, {"op": "history", "ops": ops}]
    return lines, [("K1-new", norm_state(st0)), ("H-history", expect)]


# ---------------------------------------------------------------- correspondence with the model
def real_actions(parser):
    """the part of parser._actions the link code looks at, as the model's (dest, kind) list"""
    from jsonargparse._actions import ActionConfigFile, _ActionConfigLoad, _ActionSubCommands, filter_default_actions
    from jsonargparse._link_arguments import ActionLink
    from jsonargparse._typehints import ActionTypeHint

    out = []
    for a in filter_default_actions(parser._actions):
        if isinstance(a, (_ActionConfigLoad, _ActionSubCommands, ActionConfigFile)):
            continue
        if a.dest == "print_shtab":     # added to the parser by the first parse_args when shtab is installed; no link looks at it
            continue
        out.append([a.dest, action_kind(a)])
    return out


def action_kind(a):
    from jsonargparse._link_arguments import ActionLink
    from jsonargparse._typehints import ActionTypeHint

    if isinstance(a, ActionLink):
        return "link"
    if ActionTypeHint.is_subclass_typehint(a):
        return "subclass"
    if ActionTypeHint.is_subclass_typehint(a, all_subtypes=False, also_lists=True):
        return "subclassL"
    return "arg"


def real_options(parser):
    """parser._option_string_actions as the model's table: every option string with the action it reaches"""
    import argparse

    from jsonargparse._actions import ActionConfigFile, _ActionConfigLoad, _ActionPrintConfig, _ActionSubCommands

    out = []
    for o, a in parser._option_string_actions.items():
        if isinstance(a, (_ActionConfigLoad, _ActionSubCommands, ActionConfigFile, _ActionPrintConfig, argparse._HelpAction)):
            continue
        if a.dest == "print_shtab":
            continue
        out.append([o, a.dest, action_kind(a)])
    return sorted(out)


def real_parser_state(parser):
    from jsonargparse._link_arguments import ActionLink
    from jsonargparse._typehints import ActionTypeHint

    links = []
    group = getattr(parser, "_links_group", None)
    for a in (group._group_actions if group else []):
        if not isinstance(a, ActionLink) or a.apply_on != "parse":
            continue
        kind = "plain" if any(x is a for x in parser._actions) else "initArg:" + a.target[1].dest
        links.append([a.target[0], kind, [bool(ActionTypeHint.is_subclass_typehint(s[1][0])) for s in a.source]])
    return {"actions": real_actions(parser), "required": sorted(parser.required_args), "links": links, "opts": real_options(parser)}


def norm_state(st):
    return {"actions": st["actions"], "required": sorted(st["required"]), "links": st["links"], "opts": sorted(st.get("opts", []))}


def is_flat(spec):
    return not spec.get("sub") and not spec.get("subclass") and not spec.get("subclass_list")


def default_feed(spec):
    """the defaults of a flat spec as assignments, in the order of parser._actions"""
    out = []
    for a in spec.get("args", []):
        out.append(["default", a["name"], None if a.get("required") else a.get("default")])
    for g in spec.get("groups", []):
        for f, dv in zip(GROUPS[g][2], GROUPS[g][3]):
            out.append(["default", "%s.%s" % (g, f), dv])
    return out


def wire_inputs(feed):
    return [[c, k, enc(v)] for c, k, v in feed]


def model_lines(case, real):
    """driver lines for one case and, per line, what the real code showed (None = not compared)"""
    from jsonargparse._link_arguments import ActionLink

    if case["entry"] == "history":
        return history_lines(case, real)
    spec = case["spec"]
    lspec = link_spec(spec)
    lines, expect = [], []
    # K1: the same registration on a fresh real parser, observed call by call
    states = []

    def observer(parser, l, r):
        states.append(real_parser_state(parser) if r["ok"] else None)

    p0, sp0 = build_parser(spec)
    base = sp0 if sp0 is not None else p0
    st0 = real_parser_state(base)
    lines.append({"op": "new", "actions": st0["actions"], "required": st0["required"], "opts": st0["opts"]})
    expect.append(("K1-new", norm_state(st0)))
    rep = add_links(base, lspec.get("links", []), observer)
    for l, r, st in zip(lspec.get("links", []), rep, states):
        table = fn_table()
        lines.append({"op": "link", "sources": l["sources"], "coerce": coerce_flags(l, spec), "target": l["target"],
                      "fn": table[l["fn"]][1] if l.get("fn") else None})
        expect.append(("K1-link", {"r": "ok", "parser": norm_state(st)} if r["ok"] else {"r": r["error"]}))
    # K2: whole parse of a flat parser
    res = real["res"]
    acc = accepted_links(spec, rep)
    aliasing = has_nested(acc) and not fwd_ok(acc)      # a write below a shared Namespace object: outside the value-level model
    typed_out = res[0] == "err" and res[1] == "invalid"    # a type check failed: parameter of the model
    if is_flat(spec) and "feed" in case and not aliasing and not typed_out and not none_source(spec, case, acc):
        lines.append({"op": "parse", "inputs": wire_inputs(default_feed(spec) + case["feed"])})
        if res[0] == "ok":
            expect.append(("K2-parse", {"ok": enc(drop_cfg(res[1]))}))
        else:
            expect.append(("K2-parse", {"err": res[1]}))
        for l in acc:
            if target_kind(l) == "plain":
                lines.append({"op": "parse", "inputs": wire_inputs(default_feed(spec)) + [["argv", l["target"], 3]]})
                expect.append(("K2-option", {"err": real_option_kind(real["parser"], l["target"])}))
    # K3: apply_parsing_links in isolation, on what the real call received
    for rec in real["records"]:
        if rec["parser"] is not real["lparser"] or rec["off"]:
            continue    # links switched off while a config file is loaded (skip_apply_links)
        if aliasing or (rec["error"] is not None and err_kind_exc(rec["error"]) == "invalid"):
            continue
        lines.append({"op": "apply", "cfg": rec["pre"]})
        if rec["error"] is None:
            expect.append(("K3-apply", {"ok": rec["post"]}))
        else:
            expect.append(("K3-apply", {"err": err_kind_exc(rec["error"])}))
    # K4: strip_link_target_keys on a clone of the result
    if res[0] == "ok":
        root = sub_root(spec, res[1])
        if root is not None:
            c = root.clone()
            ActionLink.strip_link_target_keys(real["lparser"], c)
            lines.append({"op": "strip", "cfg": enc(root)})
            expect.append(("K4-strip", {"s": enc(c)}))
    if spec.get("sub"):
        tl, te = tree_lines(case, real, aliasing)
        lines += tl
        expect += te
    return lines, expect


def real_tree_json(p):
    """a real parser with its subcommand parsers as the model's tree"""
    st = real_parser_state(p)
    node = {"actions": st["actions"], "required": st["required"], "opts": st["opts"], "group": hasattr(p, "_links_group"), "dest": "",
            "subreq": False, "choices": []}
    act = getattr(p, "_subcommands_action", None)
    if act is not None:
        node["dest"] = act.dest
        node["subreq"] = bool(act._required)
        node["choices"] = [[name, real_tree_json(sub)] for name, sub in act.choices.items()]
    return node


def tree_lines(case, real, aliasing):
    """driver lines for a parser with subcommands: registration at every level (T1), apply_parsing_links of the PARENT
    parser with its recursion and early returns (T3), strip_link_target_keys with its recursion (T4), whole parse (T2)"""
    from jsonargparse._link_arguments import ActionLink

    spec = case["spec"]
    name = spec["sub"]["name"]
    lines, expect = [], []
    table = fn_table()
    # fresh parsers, subcommands attached first, then the same registrations as `assemble`
    p0, sp0 = build_parser(spec)
    sc = p0.add_subcommands()
    alt0 = None
    if spec.get("alt"):
        alt0, _ = build_parser(ALT_SPEC, top=False)
    if alt0 is not None and spec["alt"] == "first":
        sc.add_subcommand("alt", alt0)
    sc.add_subcommand(name, sp0)
    if alt0 is not None and spec["alt"] != "first":
        sc.add_subcommand("alt", alt0)
    lines.append({"op": "newtree", "tree": real_tree_json(p0)})
    expect.append(("T1-new", {"parser": norm_state(real_parser_state(p0)), "group": False}))
    regs = [([name], sp0, l, spec["sub"]["spec"]) for l in spec["sub"]["spec"].get("links", [])]
    regs += [([], p0, l, {k: v for k, v in spec.items() if k != "sub"}) for l in spec.get("toplinks", [])]
    if alt0 is not None:
        regs += [(["alt"], alt0, l, ALT_SPEC) for l in ALT_SPEC["links"]]
    for path, parser, l, view in regs:
        r = add_links(parser, [l])[0]
        lines.append({"op": "linkat", "path": path, "sources": l["sources"], "coerce": coerce_flags(l, view), "target": l["target"],
                      "fn": table[l["fn"]][1] if l.get("fn") else None})
        expect.append(("T1-link", {"r": "ok" if r["ok"] else r["error"],
                                   "node": {"parser": norm_state(real_parser_state(parser)), "group": hasattr(parser, "_links_group")}}))
    res = real["res"]
    typed_out = res[0] == "err" and res[1] == "invalid"
    # T2: whole parse through parse_args (the token selects the subcommand)
    sub_flat = is_flat(spec["sub"]["spec"])
    top_acc = [l for l, r in zip(spec.get("toplinks", []), real.get("top_links", [])) if r["ok"]]
    if case["entry"] == "args" and sub_flat and "feed" in case and not aliasing and not typed_out \
            and not none_source(spec["sub"]["spec"], case, accepted_links(spec, real["links"])) \
            and not none_source({"args": spec["args"], "groups": []}, {"feed": case.get("top_feed", [])}, top_acc):
        inputs = default_feed({"args": spec["args"], "groups": []}) + case.get("top_feed", []) + [["argv", "subcommand", name]]
        inputs += [[c, name + "." + k, v] for c, k, v in default_feed(spec["sub"]["spec"]) + case["feed"]]
        lines.append({"op": "parsetree", "inputs": wire_inputs(inputs)})
        expect.append(("K2-parse", {"ok": enc(drop_cfg(res[1]))} if res[0] == "ok" else {"err": res[1]}))
    # T3: the parent parser's apply_parsing_links, guards included
    for rec in real["records"]:
        if rec["parser"] is not real["parser"]:
            continue
        if rec["off"]:
            lines.append({"op": "applytree", "off": True, "cfg": rec["pre"]})
            expect.append(("K3-apply", {"ok": rec["post"]} if rec["error"] is None else {"err": err_kind_exc(rec["error"])}))
            continue
        if aliasing or (rec["error"] is not None and err_kind_exc(rec["error"]) == "invalid"):
            continue
        lines.append({"op": "applytree", "cfg": rec["pre"]})
        expect.append(("K3-apply", {"ok": rec["post"]} if rec["error"] is None else {"err": err_kind_exc(rec["error"])}))
    # T4: strip with its recursion
    if res[0] == "ok":
        c = res[1].clone()
        try:
            ActionLink.strip_link_target_keys(real["parser"], c)
            exp = {"s": enc(c)}
        except Exception:  # noqa: BLE001
            exp = {"err": True}
        lines.append({"op": "striptree", "cfg": enc(res[1])})
        expect.append(("T4-strip", exp))
    return lines, expect


def err_kind_exc(text):
    """class of an exception raised inside apply_parsing_links (text = 'Class: message')"""
    if text.startswith("ValueError") and "compute_fn" in text:
        return "computeFn"
    if "not found in namespace" in text or text.startswith("NSKeyError") or text.startswith("KeyError"):
        return "missingSource"
    return "invalid"


def real_option_kind(p, target):
    """the model's `linkCall` stands for any ArgumentError raised for the option (argparse's type conversion of the
    link action may fail first, e.g. for an `Any` target)"""
    from jsonargparse import ArgumentError

    try:
        p.parse_args(["--%s=3" % target])
    except ArgumentError:
        return "linkCall"
    return "accepted"


def has_nested(links):
    keys = [(l["target"], s) for l in links for o in links for s in o["sources"]]
    keys += [(l["target"], o["target"]) for l in links for o in links if o is not l]
    return any(nested(a, b) for a, b in keys)


def none_source(spec, case, links):
    """is a source None in the namespace the links see? (its type check is a parameter of the model)"""
    cur = {}
    for _, k, v in default_feed(spec) + case["feed"]:
        cur[k] = v
    for l in links:
        for s0 in l["sources"]:
            for k, v in cur.items():
                if (k == s0 or k.startswith(s0 + ".")) and v is None:
                    return True
    return False


def compare_line(kind, exp, got):
    """None when model and real agree, else a description"""
    if kind == "T1-new":
        ok = got is not None and norm_state(got["parser"]) == exp["parser"]
    elif kind == "T1-link":
        node = got.get("node") or {}
        ok = (got.get("r") == ("ok" if exp["r"] == "ok" else exp["r"])) and node.get("group") == exp["node"]["group"] \
            and norm_state(node.get("parser") or {"actions": [], "required": [], "links": []}) == exp["node"]["parser"]
    elif kind == "T4-strip":
        ok = ("err" in got) if "err" in exp else ("s" in got and same(got["s"], exp["s"], ordered=True))
    elif kind == "H-history":
        outs = got.get("outs") if isinstance(got, dict) else None
        ok = isinstance(outs, list) and len(outs) == len(exp)
        for n, (e, g) in enumerate(zip(exp, outs or [])):
            if e is None:
                continue
            if "r" in e:
                d = compare_line("K1-link", e, g)
            else:
                d = compare_line("K2-parse", e, g)
            if d is not None:
                return {"line": kind, "step": n, "real": e, "model": g}
    elif kind == "K1-new":
        ok = norm_state(got) == exp
    elif kind == "K1-link":
        if exp["r"] != "ok":
            ok = got.get("r") == exp["r"]
        else:
            ok = got.get("r") == "ok" and norm_state(got["parser"]) == exp["parser"]
    elif kind in ("K2-parse", "K2-option"):
        if "err" in exp:
            ok = got.get("err") == exp["err"]
        else:
            ok = "ok" in got and same(got["ok"], exp["ok"])
    elif kind == "K3-apply":
        if "err" in exp:
            ok = got.get("err") == exp["err"]
        else:
            ok = "ok" in got and same(got["ok"], exp["ok"], ordered=True)
    else:
        ok = "s" in got and same(got["s"], exp["s"], ordered=True)
    return None if ok else {"line": kind, "real": exp, "model": got}


def correspond(ctx, cases, reals=None):
    """model vs real on a batch of cases; returns [(case index, disagreement)]"""
    all_lines, index = [], []
    for i, case in enumerate(cases):
        real = reals[i] if reals else run_real(case)
        lines, expect = model_lines(case, real)
        for l, e in zip(lines, expect):
            all_lines.append(l)
            index.append((i, e))
    if not all_lines:
        return []
    out = ctx.driver("Links", all_lines)
    bad = []
    seen = set()
    for (i, (kind, exp)), got in zip(index, out):
        ctx.count()
        d = compare_line(kind, exp, got)
        if d is not None and i not in seen:
            seen.add(i)
            bad.append((i, d))
    return bad


def shrink_case(case, still_bad, budget=40):
    """greedy removal of links, arguments and inputs while `still_bad(case)` holds"""
    cur = copy.deepcopy(case)

    def candidates(c):
        if c["entry"] == "history":
            hist = c["history"]
            for i in range(len(hist)):
                if sum(1 for s in hist if "link" not in s) <= 1 and "link" not in hist[i]:
                    continue
                d = copy.deepcopy(c)
                del d["history"][i]
                yield d
            if c["spec"].get("default_config"):
                for k in list(c["spec"]["default_config"]):
                    d = copy.deepcopy(c)
                    del d["spec"]["default_config"][k]
                    yield d
            for i, s in enumerate(hist):
                for fld in ("argv", "config", "env"):
                    for j in (range(len(s[fld])) if fld == "argv" and fld in s else list(s.get(fld) or {}) if fld != "argv" else []):
                        d = copy.deepcopy(c)
                        key = s[fld][j][2:].split("=")[0] if fld == "argv" else j if fld == "config" else \
                            next((k for k in HIST_TYPES if env_name(k) == j), j)
                        del d["history"][i][fld][j]
                        d["history"][i]["feed"] = [f for f in s.get("feed", []) if f[1] != key]
                        yield d
            return
        ls = link_spec(c["spec"])
        for i in range(len(ls.get("links", []))):
            d = copy.deepcopy(c)
            del link_spec(d["spec"])["links"][i]
            yield d
        for key in ("argv", "feed"):
            pass
        for i in range(len(c.get("argv", []))):
            d = copy.deepcopy(c)
            del d["argv"][i]
            d.pop("feed", None)
            yield d
        for k in list(c.get("env", {})):
            d = copy.deepcopy(c)
            del d["env"][k]
            d.pop("feed", None)
            yield d
        for k in list((c.get("gfile") or {})):
            d = copy.deepcopy(c)
            del d["gfile"][k]
            d.pop("feed", None)
            yield d
        for k in list((c.get("config") or {})):
            d = copy.deepcopy(c)
            del d["config"][k]
            d.pop("feed", None)
            yield d
        used = set()
        for l in ls.get("links", []):
            used.update(x.split(".")[0] for x in l["sources"] + [l["target"]])
        for field in ("args", "groups", "subclass", "subclass_list"):
            for i, a in enumerate(ls.get(field, [])):
                name = a if isinstance(a, str) else a["name"]
                if name in used:
                    continue
                d = copy.deepcopy(c)
                del link_spec(d["spec"])[field][i]
                d.pop("feed", None)
                yield d

    changed = True
    while changed and budget > 0:
        changed = False
        for cand in candidates(cur):
            budget -= 1
            if budget <= 0:
                break
            try:
                if still_bad(cand):
                    cur = cand
                    changed = True
                    break
            except Exception:  # noqa: BLE001 - a candidate that cannot be run is not a smaller failing case
                continue
    return cur


def exhaustive_link_sets(max_len, wide):
    """every sequence of <= max_len link_arguments calls over a parser with three int arguments (registration only)"""
    import itertools

    keys = ["a", "b", "c"]
    srcs = [[k] for k in keys] + ([["a", "b"], ["b", "c"], ["c", "a"]] if wide else [["a", "b"]])
    reqs = []
    for t in keys:
        for ss in srcs:
            for fn in (None, "sum"):
                reqs.append({"sources": ss, "target": t, "fn": fn})
    spec0 = {"default_env": False, "args": [{"name": k, "type": "int", "default": i} for i, k in enumerate(keys)], "groups": [],
             "subclass": [], "subclass_list": []}
    for n in range(1, max_len + 1):
        for combo in itertools.product(reqs, repeat=n):
            yield {"spec": dict(spec0, links=[dict(r) for r in combo]), "entry": "none"}


# ---------------------------------------------------------------- the check
def unexplained(ctx, fails):
    return [f for f in fails if not (f["finding"] and ctx.is_open(f["finding"]))]


def judge(ctx: Ctx, case, origin):
    """the property on the real code for one case; returns True when a new violation was reported"""
    fails = oracle(case)
    for f in fails:
        if f["finding"] and ctx.is_open(f["finding"]):
            ctx.known(f["finding"], f["what"][:220])
    bad = unexplained(ctx, fails)
    if not bad:
        return False
    if len(ctx.violations) >= 5:     # enough minimised replays: count, do not shrink
        ctx.violation(bad[0]["what"][:400], {"kind": "oracle", "origin": origin, "case": case})
        return True
    first = bad[0]["what"].split(":")[0][:60]

    def still(c):
        return any(x["what"].split(":")[0][:60] == first for x in unexplained(ctx, oracle(c, deep=False) if "save" not in first else oracle(c)))

    try:
        small = shrink_case(case, still)
        what = next((x["what"] for x in unexplained(ctx, oracle(small)) if x["what"].split(":")[0][:60] == first), bad[0]["what"])
    except Exception:  # noqa: BLE001
        small, what = case, bad[0]["what"]
    ctx.violation(what[:400], {"kind": "oracle", "origin": origin, "case": small})
    return True


def describe_history(ctx, case, real):
    ctx.hist("parser", "history (one parser, several parses)")
    n_parse, prev_vals, prev_types = 0, None, None
    for st, rs in zip(case["history"], real["steps"]):
        if "link" in st:
            ctx.hist("history_op", "link_arguments after %d parses: %s" % (n_parse, "accepted" if rs["link"]["ok"] else "ValueError"))
            if rs["link"]["ok"]:
                ctx.hist("compute_fn", st["link"].get("fn") or "<none>")
                ctx.hist("n_sources", len(st["link"]["sources"]))
            continue
        n_parse += 1
        ctx.hist("history_op", "parse via " + st["entry"])
        ctx.hist("outcome", rs["res"][0] if rs["res"][0] == "ok" else "err:" + rs["res"][1])
        if rs["res"][0] == "ok":
            cfg = rs["res"][1]
            vals = {k: cfg[k] for k in HIST_TYPES if k in cfg}
            if prev_vals is not None:
                eq_other_type = [k for k in vals if k in prev_vals and vals[k] == prev_vals[k] and not same_exact(vals[k], prev_vals[k])]
                if eq_other_type:
                    ctx.hist("history_sources_vs_previous_parse", "some source == previous value but of another type")
                elif all(same_exact(vals[k], prev_vals.get(k)) for k in vals):
                    ctx.hist("history_sources_vs_previous_parse", "all sources identical")
                else:
                    ctx.hist("history_sources_vs_previous_parse", "different")
            prev_vals = vals
    ctx.hist("history_parses", n_parse)
    if case["spec"].get("default_config") is not None:
        ctx.hist("history_parser", "with a default config file")
    if len({st.get("epoch", 0) for st in case["history"] if "link" not in st}) > 1 and \
            any(st["link"].get("fn") == "epoch" for st in case["history"] if "link" in st):
        ctx.hist("history_parser", "impure compute function whose outside state changes between parses")


def describe(ctx, case, real):
    if case["entry"] == "history":
        return describe_history(ctx, case, real)
    spec = case["spec"]
    ls = link_spec(spec)
    if case.get("nested_order"):
        ctx.hist("nested_link_set", case["nested_order"])
    ctx.hist("entry", case["entry"])
    ctx.hist("outcome", real["res"][0] if real["res"][0] == "ok" else "err:" + real["res"][1])
    ctx.hist("links_requested", len(ls.get("links", [])))
    ctx.hist("parser", "subcommand" if spec.get("sub") else "flat" if is_flat(spec) else "subclass")
    for l in ls.get("links", []):
        if not l.get("fn") and l["sources"] and (l["sources"][0] in GROUPS or l["sources"][0] in SUBCLASS_ARGS):
            tt = next((a["type"] for a in ls.get("args", []) if a["name"] == l["target"]), "class")
            ctx.hist("namespace_valued_identity_link_to", tt)
            sup = case.get("config") or {}
            if l["target"].split(".")[0] in json.dumps(case.get("argv") or "") or l["target"].split(".")[0] in sup:
                ctx.hist("namespace_valued_identity_link_to", tt + " (value supplied for the target)")
    for l, r in zip(ls.get("links", []), real["links"]):
        ctx.hist("link_call", "accepted" if r["ok"] else "ValueError")
        if r["ok"]:
            ctx.hist("compute_fn", l.get("fn") or "<none>")
            ctx.hist("n_sources", len(l["sources"]))
            t = l["target"]
            ctx.hist("target", "list items" if t.startswith("opts.") else "init_args" if ".init_args." in t else "group field" if "." in t else "plain")
            if any(s in GROUPS for s in l["sources"]):
                ctx.hist("source", "group")
            if any(".init_args." in s for s in l["sources"]):
                ctx.hist("source", "init_args of a class")
    targets = {l["target"] for l in ls.get("links", [])}
    tdest = {t.split(".init_args.")[0] for t in targets}
    supplied = []
    for src, name in ((case.get("argv") or [], "argv"), ([json.dumps(case.get("config"))] if case.get("config") else [], "config/object"),
                      (list((case.get("env") or {}).keys()), "env")):
        for tok in src:
            for t in targets:
                leaf = t.split(".")[-1]
                if (name == "env" and tok == env_name(t, spec["sub"]["name"] if spec.get("sub") else None)) or \
                   (name == "argv" and (tok.startswith("--" + t) or ('"%s"' % leaf in tok and any(d in tok for d in tdest)) or
                                        any(tok.startswith("--%s.%s" % (d, leaf)) for d in tdest))) or \
                   (name == "config/object" and '"%s"' % leaf in tok):
                    supplied.append(name)
    for n in set(supplied):
        ctx.hist("value_supplied_for_target_via", n)


def run(ctx: Ctx):
    repo_python_path()
    gen_module()
    ctx.rule = ("case = generated REAL parser (int/str/Any/Dict arguments, class/dataclass/dotted groups, subclass-typed and List[Class] arguments, "
                "optionally inside a subcommand) + 1-4 link_arguments calls (no function / identity, sum, len, tuple, list, str.upper, group sum with "
                "and without dict annotation, constant, raising function; wrong requests: chains, double targets, several sources without function, "
                "unknown keys) + one parse through parse_args (with --cfg), parse_string, parse_path, parse_object or parse_env with values for "
                "sources and for targets from argv/config/environment/defaults/class spec; non-trivial = the parse succeeds with at least one "
                "accepted link; distinct by the JSON of the case.  Plus: nested link sets (whole group / class spec as source next to targets "
                "inside it, whole-first / inner-first / mixed registration order, with and without function or dict coercion) and histories "
                "(one parser: 2-5 link_arguments calls, some after the first parses, some refused, and 3-6 parses whose Union[int,float] / "
                "Union[bool,int] / Any sources come from small pools of ==-equal values of different types; functions tagged / tyname / tuple / "
                "list / identity / epoch (impure); optionally a default config file)")
    ctx.assumptions = [
        "compute functions, type checks of values and the validation of the final configuration are parameters of the model (Env)",
        "the merge of defaults, environment, config and argv into one namespace is an ordered list of assignments (C04/C05 own the merge); "
        "tied for parsers without subclass arguments by K2, elsewhere the namespace handed to apply_parsing_links is captured (K3)",
        "no plain dict on a key path (C11 domain); argument names are not Namespace method names",
        "links applied on instantiation are C16; the is_init_arg_mapping_typehint coercion is outside the model",
        "parser trees: how a string value names a subcommand is a parameter (Names); the links of a parser do not write to its "
        "subcommand dest nor into the sections of its subcommands (link_arguments finds no action for such keys); generated trees have depth 1",
        "values are compared with == and type() at every depth; object identity (an identity link stores the source's Namespace object itself) "
        "is outside the model: link sets that are nested and not ordered are left out of K2/K3 and judged by the oracle only",
        "histories: the world seen by impure compute functions is an index (`epoch`) chosen per parse; the first parse_args adds a "
        "`--print_shtab` action to the real parser when shtab is installed (ignored: no link looks at it)",
    ]
    ctx.lean_build(extractors=["links_order", "links_src"])

    from ..lib import corpus as corpus_mod

    cases = [c["case"] for c in corpus_mod.load(ctx.prop)]
    n_corpus = len(cases)
    n_random = ctx.budget(520, 6500) * (2 if ctx.search_boost > 1 else 1)
    for _ in range(n_random):
        cases.append(gen_case(ctx.rng, gen_spec(ctx.rng)))
    for _ in range(max(40, n_random // 10)):     # namespace-valued link values onto supplied mappings / other classes
        cases.append(gen_replace_case(ctx.rng))
    for _ in range(max(60, n_random // 8)):      # whole-namespace sources next to targets inside them, both registration orders
        cases.append(gen_nested_case(ctx.rng))
    for _ in range(max(60, n_random // 8)):      # histories on one parser: ==-equal values of other types, impure functions, late links
        cases.append(gen_history_case(ctx.rng))
    n_generated = len(cases)
    exh = list(exhaustive_link_sets(3, False) if ctx.thorough else exhaustive_link_sets(2, True))
    cases.extend(exh)
    ctx.extra["exhaustive_link_sets"] = {"arguments": 3, "max_calls": 3 if ctx.thorough else 2, "count": len(exh)}

    # --- correspondence (in batches, so that a driver failure costs one batch)
    reals = []
    for case in cases:
        r = run_real(case)
        reals.append(r)
        if case["entry"] != "none":
            describe(ctx, case, r)
        if r["res"][0] == "ok" and any(x["ok"] for x in r["links"]):
            ctx.nontrivial(json.dumps(case, sort_keys=True))
    bad = []
    B = 500
    for i in range(0, len(cases), B):
        try:
            for j, d in correspond(ctx, cases[i:i + B], reals[i:i + B]):
                bad.append((i + j, d))
        except MachineryError as ex:
            if ctx.lean_ok:
                raise
            ctx.tie_break("correspondence Links not runnable (model does not build)", str(ex))
            break
    for i, d in bad[:3]:
        def still(c, kind=d["line"]):
            n = ctx.evaluations
            r = correspond(ctx, [c])
            ctx.evaluations = n
            return any(x["line"] == kind for _, x in r)
        try:
            small = shrink_case(cases[i], still, budget=25)
            r = correspond(ctx, [small])
            detail = {"case": small, "disagreement": r[0][1] if r else d}
        except Exception:  # noqa: BLE001
            detail = {"case": cases[i], "disagreement": d}
        ctx.tie_break("correspondence Links (model vs jsonargparse._link_arguments) disagrees at %s" % d["line"],
                      json.dumps(detail, ensure_ascii=True)[:1900])
    ctx.extra["correspondence_disagreements"] = len(bad)
    ctx.extra["cases"] = len(cases)

    # --- the property on the real code
    extra_cases = []
    if ctx.search_boost > 1:
        for i, _ in bad[:20]:
            for _ in range(10):     # neighbours of the disagreeing input: same parser, other inputs
                extra_cases.append(gen_history_case(ctx.rng) if cases[i]["entry"] == "history" else gen_case(ctx.rng, cases[i]["spec"]))
        for _ in range(ctx.budget(1500, 6000)):
            extra_cases.append(gen_case(ctx.rng, gen_spec(ctx.rng)))
        for _ in range(ctx.budget(150, 600)):
            extra_cases.append(gen_nested_case(ctx.rng))
            extra_cases.append(gen_history_case(ctx.rng))
    for idx, case in enumerate(cases + extra_cases):
        ctx.count()
        judge(ctx, case, "corpus" if idx < n_corpus else "generated" if idx < n_generated or idx >= len(cases) else "exhaustive")
    for c in cases[n_corpus:n_corpus + 3]:
        ctx.sample({k: v for k, v in c.items() if k != "feed"})

    # --- catalogued findings
    ctx.replay_fixed_demos()
    for f in ctx.open_findings():
        fails = oracle(f["witness"]["case"])
        if any(x["finding"] == f["id"] for x in fails):
            ctx.known(f["id"], f["description"][:220])
        else:
            ctx.stale_findings.append(f["id"])


def replay(ctx: Ctx, body):
    repo_python_path()
    gen_module()
    rp = body["replay"]
    if "case" not in rp:
        print("no concrete case in this replay file:", json.dumps(rp)[:600])
        return 1
    case = rp["case"]
    real = run_real(case)
    print("link_arguments:", real["links"])
    print("parse:", real["res"][0], real["res"][1] if real["res"][0] == "ok" else real["res"][1:])
    fails = oracle(case)
    for f in fails:
        print(("KNOWN " + f["finding"]) if f["finding"] else "FAIL", f["what"])
    return 1 if unexplained(ctx, fails) else 0

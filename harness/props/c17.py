"""C17 — exactly one subcommand is selected and only its settings survive.

Pipeline
 (1) regenerate lean/Jap/Gen/SubcmdShape.lean (the anchored statements of get_subcommands, handle_subcommands, the argv
     action, apply_config, get_defaults, _load_env_vars, apply_parsing_links as the AST prints them) and build
     lean/Jap/Props/C17.lean: theorems over the model lean/Jap/Core/Subcmd.lean (`getSub`, `handle`, `sweep`, `checkReq`,
     `parseCommon`, the argv action `argvCall`/`parseArgs`, the loaders `loadCfgArg`/`applyDefaultCfg`) by structural
     induction on the parser tree, and the `tie_*` theorems (regenerated shape = the statements the model transcribes);
 (2) correspondence, real code in-process vs the Lean driver Drv/Subcmd:
     (a) *captured calls*: generated parser trees (depth 1-3, 1-4 subcommands per level, required or optional, global
         options, `--cfg` and default config files at any level, default_env) are parsed through parse_args /
         parse_string / parse_object / parse_env / parse_path with generated inputs; every call of
         `_ActionSubCommands.get_subcommands` and every outermost call of `handle_subcommands` made by the real pipeline
         is recorded (input namespace, flags, `single_subcommand`, the namespaces returned by the sub-parsers'
         `parse_env`/`get_defaults`, output namespace or error) and replayed through the model; the final result of the
         parse is compared, keys and values at every level, with the model's `parseCommon` on the namespace that the last
         call of the root parser saw;
     (b) *direct calls* of the static methods on synthetic namespaces (null and empty sections, names that are not
         subcommands, empty names, both values of `single_subcommand` and `fail_no_subcommand`, all three layer modes),
         and `get_subcommands` EXHAUSTIVELY over a small scope (7168 cases, warning flag included);
     (b') *concrete layer*: every namespace that a sub-parser's `get_defaults` / `parse_env` returned to a captured
         `handle_subcommands` call, with the `parent_parsers` stack it was computed under, vs the model's `layerC` computed
         from the spec alone (option defaults, default config files, environment by variable NAME); the names themselves
         (`envVarAt`) vs `get_env_var` on trees with '-', '.', '_' and mixed case;
     (c) *whole pipeline*: for trees without default config files the model's `parseArgs` (defaults/environment, command
         line with options and config arguments, the subcommand action, `_parse_common`) vs the real `parse_args` result;
 (3) oracle on the real code, independent of the model: `reference` (written from the property text: sources by
     precedence, named on argv / named in a source / first with settings, complete settings) judges every real result:
     exactly one subcommand key per level, only its section, complete settings, required -> ArgumentError; a second
     reference (`direct_reference`, from the docstrings of the two static methods) judges direct `handle_subcommands` calls;
     deviations whose signature is an open known finding are reported as KNOWN-FINDING;
 (4) replay of the repaired defects (F15d: fixes/f15d_*.py; the unknown/empty subcommand name: fixes/f17n_*.py and its witness;
     a repaired defect that fails again is a VIOLATION) and of the open findings' witnesses.
Session 2 added: (2d) `sources_stage`: the real `ActionConfigFile.apply_config` on generated documents vs the predicates of the new
     theorems (`loses`, `quietDeep`, `loadCfgArg`; driver op "losses"); (2e) `construction_stage`: what `wf` assumes is what
     add_subcommands/add_subcommand enforce (second call rejected, name == dest rejected, level order, aliases as further keys);
     (3') the dump of every accepted result is parsed again by the same parser: same selection, same settings (`reparse_devs`; deviations
     inside the signature of the open finding C17-dump-reparse-selects-other are KNOWN-FINDING); the generator produces ALIASES
     (a further entry of "choices" marked {"alias_of": name}).
"""
from __future__ import annotations

import atexit
import copy
import json
import os
import re
import shutil
import tempfile
import warnings

from ..lib.common import Ctx, MachineryError, repo_python_path

MANIFEST = {
    "engine": "Subcmd",
    "technique": "Lean 4 proof by structural induction on the parser tree over a transcription of get_subcommands / handle_subcommands / "
                 "apply_parsing_links / check_required / the argv action / apply_config / get_defaults / _load_env_vars + regenerated statement shape "
                 "and complete statement lists of the anchored functions (tie theorems) + differential correspondence on captured, direct, exhaustive, "
                 "whole-pipeline and single-source calls + independent reference oracle incl. the re-parse of the dump",
    "text": "Theorems in lean/Jap/Props/C17.lean prove, for parser trees of any depth and any merged configuration, that a successful final "
            "_parse_common stores at every level the chosen subcommand under the subcommand key, its section, and no section of another subcommand, "
            "that the section holds the given values over the sub-parser's environment over its defaults, that the choice is the name written on "
            "the command line, else the name found in the merged sources, else the first subcommand in declaration order that has settings, and that "
            "an undeterminable required subcommand is an error at any depth while an optional one leaves no key and no section; exactly-one also for "
            "the whole parse_args of the model (any command line, any number and order of options and config documents). The findings are "
            "characterised EXACTLY inside the model (which section a source loses while it is loaded on its own; what the subcommand variable of the "
            "environment copies; which entry of the parent_parsers stack counts) and their complements are proved; since the repairs F50/F51 the "
            "environment-named and stack-leak classes are no longer excluded (C17_env_only_layer, C17_no_leak for every stack): a source that at no depth both names "
            "a subcommand and holds several sections is taken verbatim, the command line is then the precedence fold of its items (later over earlier), "
            "the result is exactly-one/complete/chosen relative to that fold, and the choice is the name of the last source that names one; a result "
            "written without its subcommand keys (dump) selects the same subcommand again when defaults/environment neither name nor configure "
            "another one. The model is tied to the code by regenerating the anchored statements and the complete statement lists of get_subcommands, "
            "get_subcommand, handle_subcommands, add_subcommand, add_subcommands into Gen/SubcmdShape (tie theorems), by replaying every "
            "get_subcommands/handle_subcommands call that real parses make, by direct and exhaustive small-scope calls, by comparing whole parse "
            "results, and by evaluating the predicates of the new theorems against the real apply_config; the property itself is evaluated on the "
            "real results (aliases, dest=, required=False, three levels included) and on the re-parse of their dump by a reference written from the "
            "property text.",
    "level_note": "Trusted: Lean kernel; axioms propext/Quot.sound/Classical.choice only; the correspondence harness and its recorder; argparse "
                  "tokenisation (which subcommand name was written where) and the typed option actions are outside the model; dotted keys are read "
                  "as paths in a tree (C11). Precedence among default config files and environment of different levels is left to C04. Trees with "
                  "aliases are run without environment parsing and default config files (variable names and stack keys follow the NAME). The "
                  "serialisation of dump (YAML text) is outside the model: the re-parse theorem speaks of the result without its subcommand keys.",
}

F_EARLY = "C17-early-selection-drops-settings"
F_FALSY = "C17-falsy-subcommand-name"
# C17-env-default-config-leak and C17-env-named-subcommand-resets-defaults were repaired in /repo (F51: 00c879c, F50: a5d1a53): the
# reference no longer excuses those classes; a deviation of that kind is a VIOLATION unless another open class explains it
F_MAPPING = "C17-parse-env-mapping-not-handed-on"
F_REPARSE = "C17-dump-reparse-selects-other"
F_INNER = "C17-env-named-inner-choice-order"

OPT_NAMES = ["alpha", "beta", "gamma", "delta", "kappa", "omega"]
# "items" and "update" are attribute names of Namespace: stored under the clash-marked name (C11), looked up by plain name
SUB_NAMES = ["fit", "test", "run", "eval", "sync", "list", "items", "update"]
DESTS = ["subcommand", "cmd", "mode"]
# aliases (`add_subcommand(name, parser, aliases=(...))`): a further key of the name-parser map for the SAME parser.  In a spec an
# alias is a further entry of "choices", directly after its name, whose sub-spec is a copy marked {"alias_of": name}
ALIASES = {"fit": "f", "test": "t", "run": "r", "eval": "e", "sync": "s", "list": "l", "items": "i", "update": "u"}

_TMP = []


def _cleanup():
    for d in _TMP:
        shutil.rmtree(d, ignore_errors=True)


atexit.register(_cleanup)


def tmpdir():
    d = tempfile.mkdtemp(prefix="c17-")
    _TMP.append(d)
    return d


# ====================================================================== specs
# parser spec: {"opts": [[name, default]], "cfg": bool, "dcf": tree|None, "sub": None|{"dest","required","choices":[[name, spec]]}}
# root spec additionally: "default_env": bool
# config tree: plain JSON dict (values int / str / None / dict)

def node_at(spec, path):
    cur = spec
    for n in path:
        cur = dict(cur["sub"]["choices"])[n]
    return cur


def all_paths(spec, pre=()):
    yield pre
    if spec["sub"]:
        for n, c in spec["sub"]["choices"]:
            yield from all_paths(c, pre + (n,))


def spec_depth(spec):
    if not spec["sub"]:
        return 0
    return 1 + max(spec_depth(c) for _, c in spec["sub"]["choices"])


def has_dcf(spec):
    return any(node_at(spec, p)["dcf"] is not None for p in all_paths(spec))


def gen_cfg_tree(rng, spec, p_opt=0.5, p_name=0.3, p_sec=0.5, multi=0.35, depth=0, p_bad=0.0):
    """a configuration tree relative to the parser `spec`; `p_bad`: chance that a subcommand key holds something that is
    not a subcommand name (the empty string, an unknown name)"""
    t = {}
    for name, _ in spec["opts"]:
        if rng.random() < p_opt:
            t[name] = rng.randint(100, 999)
    sub = spec["sub"]
    if sub:
        names = [n for n, _ in sub["choices"]]
        secs = []
        if rng.random() < p_sec:
            k = 1
            if len(names) > 1 and rng.random() < multi:
                k = rng.randint(2, min(3, len(names)))
            secs = rng.sample(names, k)
        if rng.random() < p_name:
            t[sub["dest"]] = rng.choice(names)
        if rng.random() < p_bad:
            t[sub["dest"]] = rng.choice(["", "", "nosuch"])
        items = list(t.items())
        if rng.random() < p_bad:
            items.append((rng.choice(names), rng.choice([5, 0, "text"])))
        for n in secs:
            items.append((n, gen_cfg_tree(rng, dict(sub["choices"])[n], 0.7, p_name, p_sec, multi, depth + 1, p_bad)))
        rng.shuffle(items)
        t = dict(items)
    return t


def gen_parser(rng, levels, level=0, p_dcf=0.2, p_alias=0.0):
    opts = [[n, rng.randint(1, 99)] for n in rng.sample(OPT_NAMES, rng.choice([0, 1, 1, 2, 2, 3]))]
    spec = {"opts": opts, "cfg": rng.random() < 0.45, "dcf": None, "sub": None}
    if levels > 0:
        k = rng.choice([1, 2, 2, 3, 3, 4])
        names = rng.sample(SUB_NAMES, k)
        choices = []
        for i, n in enumerate(names):
            sub_levels = levels - 1 if (i == 0 or rng.random() < 0.6) else rng.randint(0, levels - 1)
            choices.append([n, gen_parser(rng, sub_levels, level + 1, p_dcf, p_alias)])
        rng.shuffle(choices)
        if p_alias:
            with_alias = []
            for n, c in choices:
                with_alias.append([n, c])
                if rng.random() < p_alias:
                    ca = copy.deepcopy(c)
                    ca["alias_of"] = n
                    with_alias.append([ALIASES[n], ca])
            choices = with_alias
        spec["sub"] = {"dest": DESTS[level % len(DESTS)] if rng.random() < 0.7 else rng.choice(DESTS), "required": rng.random() < 0.6, "choices": choices}
    if rng.random() < p_dcf:
        spec["dcf"] = gen_cfg_tree(rng, spec, 0.5, 0.25, 0.5, 0.3)
    return spec


def gen_spec(rng, p_dcf=0.2, p_alias=None):
    if p_alias is None:
        p_alias = 0.5 if rng.random() < 0.12 else 0.0
    if p_alias:
        # trees with aliases: no default config files, no environment parsing (variable names and `parent_parsers` keys follow the
        # NAME of a sub-parser, whatever alias selected it: that is C17's layer model, kept apart from the alias question)
        spec = gen_parser(rng, rng.choice([1, 1, 2, 2]), 0, 0.0, p_alias)
        spec["default_env"] = False
        spec["env_how"] = "ctor"
        spec["aliases"] = True
        return spec
    spec = gen_parser(rng, rng.choice([1, 1, 2, 2, 2, 3, 3]), 0, p_dcf)
    spec["default_env"] = rng.random() < 0.4
    # how environment parsing is switched on: constructor argument, `parser.default_env = True` AFTER the tree is built,
    # `env=True` on the parse call, or JSONARGPARSE_DEFAULT_ENV=true in the process environment
    spec["env_how"] = rng.choice(["ctor", "setter", "setter", "call", "osenv"]) if spec["default_env"] else "ctor"
    return spec


def env_name(path, leaf):
    """environment variable of key `leaf` of the parser at `path` (prog = app): written from the documentation
    (prefix, nested names joined by double underscore, upper case), not taken from the code"""
    return ("APP_" + "".join(n + "__" for n in path) + leaf).upper()


def gen_argv(rng, spec, p_follow=0.7):
    items = []
    for name, _ in spec["opts"]:
        if rng.random() < 0.35:
            items.append({"opt": [name, rng.randint(1000, 9999)]})
    if spec["cfg"]:
        for _ in range(rng.choice([0, 0, 1, 1, 2])):
            items.append({"cfg": gen_cfg_tree(rng, spec), "as": rng.choice(["string", "string", "file"])})
    rng.shuffle(items)
    av = {"items": items, "sub": None}
    if spec["sub"] and rng.random() < p_follow:
        n, c = rng.choice(spec["sub"]["choices"])
        av["sub"] = [n, gen_argv(rng, c, p_follow)]
    return av


def gen_env(rng, spec, density=0.3):
    env = {}
    for path in all_paths(spec):
        node = node_at(spec, path)
        for name, _ in node["opts"]:
            if rng.random() < density:
                env[env_name(path, name)] = str(rng.randint(10000, 99999))
        if node["sub"] and rng.random() < density + 0.2:
            names = [n for n, _ in node["sub"]["choices"]]
            env[env_name(path, node["sub"]["dest"])] = rng.choice(names) if rng.random() < 0.93 else "nosuch"
        if node["cfg"] and rng.random() < density / 2:
            env[env_name(path, "cfg")] = json.dumps(gen_cfg_tree(rng, node))
    return env


def gen_input(rng, spec):
    kind = rng.choice(["args"] * 6 + ["string", "string", "object", "object", "env", "path"])
    if spec.get("aliases") and kind == "env":
        kind = "object"
    inp = {"kind": kind, "env": {}}
    if spec["default_env"] or kind == "env":
        inp["env"] = gen_env(rng, spec, rng.choice([0.15, 0.3, 0.5]))
    if kind == "env" and rng.random() < 0.5:
        inp["env_as"] = "mapping"   # parse_env(<mapping>) instead of the process environment
    if kind == "args":
        inp["argv"] = gen_argv(rng, spec, rng.choice([0.3, 0.7, 0.9]))
    elif kind in ("string", "object", "path"):
        inp["tree"] = gen_cfg_tree(rng, spec, 0.5, rng.choice([0.2, 0.5]), rng.choice([0.4, 0.8]), rng.choice([0.2, 0.5]),
                                   p_bad=0.4 if rng.random() < 0.06 else 0.0)
    return inp


# ====================================================================== real side
def enc(v):
    """wire value of a namespace content (see Drv/Subcmd.lean); anything that is not None/int/str/Namespace is an opaque token"""
    from jsonargparse import Namespace

    if v is None:
        return None
    if isinstance(v, bool):
        return "§bool"
    if isinstance(v, int):
        return v
    if isinstance(v, str):
        return v
    if isinstance(v, Namespace):
        # attribute names of Namespace are stored under a zero-width clash mark (C11): the wire carries the plain name
        return {"s": [[k.lstrip("\u200b"), enc(x)] for k, x in vars(v).items()]}
    return "§" + type(v).__name__.replace("Path_fr", "Path").replace("Path_fc", "Path")


def tree_to_wire(t):
    if isinstance(t, dict):
        return {"s": [[k, tree_to_wire(v)] for k, v in t.items()]}
    return t


def canon(w):
    """order-free canonical form of a wire value"""
    if isinstance(w, dict):
        return {"s": sorted(([k, canon(v)] for k, v in w["s"]), key=lambda kv: kv[0])}
    return w


def wire_to_plain(w, drop_meta=True):
    if isinstance(w, dict):
        return {k: wire_to_plain(v, drop_meta) for k, v in w["s"] if not (drop_meta and k.startswith("__"))}
    return w


ERR_BADNAME = re.compile(r'expected "([^"]*)" to be one of .*, but got')
ERR_BADSEC = re.compile(r'Expected the settings of subcommand "([^"]*)" to be a mapping')
ERR_NOSUB = re.compile(r'expected "([^"]*)" to be one of')
ERR_REQ = re.compile(r'Key "([^"]*)" is required but not included')


def err_of(ex):
    from jsonargparse import ArgumentError

    msg = str(getattr(ex, "message", None) or ex)
    m = ERR_BADNAME.search(msg)
    if m:
        return {"err": "badname", "key": m.group(1)}
    m = ERR_BADSEC.search(msg)
    if m:
        return {"err": "badsec", "key": m.group(1)}
    m = ERR_NOSUB.search(msg)
    if m:
        return {"err": "nosub", "key": m.group(1)}
    m = ERR_REQ.search(msg)
    if m:
        return {"err": "reqkey", "key": m.group(1)}
    if isinstance(ex, (ArgumentError, KeyError, TypeError)) and not isinstance(ex, AttributeError):
        return {"err": "other", "msg": msg[:200]}
    return {"err": "crash", "type": type(ex).__name__, "msg": msg[:200]}


class Built:
    def __init__(self, spec):
        self.spec = spec
        self.dir = tmpdir()
        self.by_id = {}
        self.by_path = {}
        self.nfiles = 0
        self.how = spec.get("env_how", "ctor") if spec.get("default_env") else "ctor"
        os.environ.pop("JSONARGPARSE_DEFAULT_ENV", None)
        if self.how == "osenv":
            os.environ["JSONARGPARSE_DEFAULT_ENV"] = "true"
        try:
            self.root = self._mk(spec, (), True)
            self._subs(self.root, spec, ())
            if self.how == "setter":
                # the documented property, used once the whole tree exists
                self.root.default_env = True
        finally:
            os.environ.pop("JSONARGPARSE_DEFAULT_ENV", None)
        self.call_kw = {"env": True} if self.how == "call" else {}

    def file(self, tree):
        self.nfiles += 1
        p = os.path.join(self.dir, "f%d.json" % self.nfiles)
        with open(p, "w") as f:
            f.write(json.dumps(tree))
        return p

    def _mk(self, spec, path, root):
        from jsonargparse import ActionConfigFile, ArgumentParser

        kw = {"exit_on_error": False}
        if root:
            kw.update(prog="app", default_env=bool(spec.get("default_env")) and self.how == "ctor")
        if spec["dcf"] is not None:
            kw["default_config_files"] = [self.file(spec["dcf"])]
        p = ArgumentParser(**kw)
        if spec["cfg"]:
            p.add_argument("--cfg", action=ActionConfigFile)
        for name, d in spec["opts"]:
            p.add_argument("--" + name, type=int, default=d)
        self.by_id[id(p)] = path
        self.by_path[path] = p
        return p

    def _subs(self, parser, spec, path):
        if not spec["sub"]:
            return
        sc = parser.add_subcommands(required=spec["sub"]["required"], dest=spec["sub"]["dest"])
        kids = []
        for n, c in spec["sub"]["choices"]:
            if c.get("alias_of"):
                continue
            aliases = tuple(a for a, ca in spec["sub"]["choices"] if ca.get("alias_of") == n)
            q = self._mk(c, path + (n,), False)
            if aliases:
                sc.add_subcommand(n, q, aliases=aliases)
                for a in aliases:
                    self.by_path[path + (a,)] = q
            else:
                sc.add_subcommand(n, q)
            kids.append((q, c, path + (n,)))
        for q, c, pth in kids:
            self._subs(q, c, pth)

    def close(self):
        shutil.rmtree(self.dir, ignore_errors=True)


# ---------------------------------------------------------------- recorder of the calls the real pipeline makes
_REC = {"cur": None, "installed": False}


class Recorder:
    def __init__(self, built):
        self.built = built
        self.frames = []
        self.calls = []   # outermost handle_subcommands calls
        self.gets = []    # get_subcommands calls

    def __enter__(self):
        install_recorder()
        _REC["cur"] = self
        return self

    def __exit__(self, *a):
        _REC["cur"] = None


def install_recorder():
    if _REC["installed"]:
        return
    from jsonargparse import ArgumentParser
    from jsonargparse import _actions

    cls = _actions._ActionSubCommands
    orig_handle = cls.__dict__["handle_subcommands"].__func__
    orig_get = cls.__dict__["get_subcommands"].__func__
    orig_penv = ArgumentParser.parse_env
    orig_gdef = ArgumentParser.get_defaults

    def handle(parser, cfg, env, defaults, prefix="", fail_no_subcommand=True):
        rec = _REC["cur"]
        if rec is None:
            return orig_handle(parser, cfg, env, defaults, prefix, fail_no_subcommand)
        outer = not rec.frames or rec.frames[-1]["in_layer"]
        frame = {"parser": parser, "prefix": prefix, "in_layer": False}
        if outer:
            call = {"path": rec.built.by_id.get(id(parser)), "prefix": prefix, "in": enc(cfg), "env": bool(env), "defaults": bool(defaults),
                    "fail": bool(fail_no_subcommand), "single": bool(_actions.single_subcommand.get()), "layers": {}, "layer_meta": {},
                    "depth": len(rec.frames),
                    "layer_failed": False}
            frame["call"] = call
        else:
            frame["call"] = rec.frames[-1]["call"]
        rec.frames.append(frame)
        try:
            r = orig_handle(parser, cfg, env, defaults, prefix, fail_no_subcommand)
            if outer:
                call["out"] = {"ok": enc(cfg)}
            return r
        except BaseException as ex:  # noqa: BLE001 - the exception is the observation
            if outer:
                call["out"] = err_of(ex)
            raise
        finally:
            rec.frames.pop()
            if outer:
                rec.calls.append(call)

    def get(parser, cfg, prefix="", fail_no_subcommand=True):
        rec = _REC["cur"]
        if rec is None:
            return orig_get(parser, cfg, prefix, fail_no_subcommand)
        g = {"path": rec.built.by_id.get(id(parser)), "prefix": prefix, "in": enc(cfg), "fail": bool(fail_no_subcommand),
             "single": bool(_actions.single_subcommand.get())}
        try:
            r = orig_get(parser, cfg, prefix, fail_no_subcommand)
            g["out"] = {"ok": enc(cfg), "names": list(r[0]) if r[0] else []}
            return r
        except BaseException as ex:  # noqa: BLE001
            g["out"] = err_of(ex)
            raise
        finally:
            rec.gets.append(g)

    def layer_wrap(orig, fn_name):
        def f(self, *a, **k):
            rec = _REC["cur"]
            if rec is None or not rec.frames or rec.frames[-1]["in_layer"]:
                return orig(self, *a, **k)
            fr = rec.frames[-1]
            fr["in_layer"] = True
            # the parent_parsers stack under which the sub-parser computes its layer (already extended by handle_subcommands)
            stack = [[key, rec.built.by_id.get(id(par))] for key, par in _actions.parent_parsers.get()]
            try:
                r = orig(self, *a, **k)
            except BaseException:
                fr["call"]["layer_failed"] = True
                raise
            finally:
                fr["in_layer"] = False
            # the key under which handle_subcommands stores this layer: `key = prefix + subcommand` (the name OR ALIAS in the
            # configuration), which is also the key it pushed on the parent_parsers stack
            dotted = stack[-1][0] if stack else fr["prefix"] + str(getattr(self, "subcommand", "?"))
            fr["call"]["layers"][dotted] = enc(r)
            fr["call"]["layer_meta"][dotted] = {"fn": fn_name, "path": rec.built.by_id.get(id(self)), "ctx": stack,
                                                "defaults": bool(k.get("defaults", True))}
            return r

        return f

    cls.handle_subcommands = staticmethod(handle)
    cls.get_subcommands = staticmethod(get)
    ArgumentParser.parse_env = layer_wrap(orig_penv, "parse_env")
    ArgumentParser.get_defaults = layer_wrap(orig_gdef, "get_defaults")
    _REC["installed"] = True


# ---------------------------------------------------------------- running the real parser
def flat_argv(av, built):
    out = []
    for it in av["items"]:
        if "opt" in it:
            out.append("--%s=%d" % (it["opt"][0], it["opt"][1]))
        else:
            out.append("--cfg=" + (json.dumps(it["cfg"]) if it["as"] == "string" else built.file(it["cfg"])))
    if av["sub"]:
        out.append(av["sub"][0])
        out.extend(flat_argv(av["sub"][1], built))
    return out


def real_run(spec, inp, record=True, reparse=False):
    """parse with the real implementation; returns {"res": {"ok": wire}|{"err":..}, "calls", "gets", "warnings"};
    `reparse`: a successful result is dumped and the dump parsed again by the same parser in the same environment
    (`out["reparse"]`: wire of the second result or the error; `out["dump"]`: the document)"""
    for k in list(os.environ):
        if k.startswith("APP_"):
            del os.environ[k]
    built = Built(spec)
    rec = Recorder(built)
    out = {}
    try:
        mapping = inp["kind"] == "env" and inp.get("env_as") == "mapping"
        if not mapping:
            os.environ.update(inp.get("env") or {})
        p = built.root
        kind = inp["kind"]
        with warnings.catch_warnings(record=True) as wlist:
            warnings.simplefilter("always")
            try:
                if record:
                    rec.__enter__()
                kw = built.call_kw
                if kind == "args":
                    r = p.parse_args(flat_argv(inp["argv"], built), **kw)
                elif kind == "string":
                    r = p.parse_string(json.dumps(inp["tree"]), **kw)
                elif kind == "object":
                    r = p.parse_object(copy.deepcopy(inp["tree"]), **kw)
                elif kind == "path":
                    r = p.parse_path(built.file(inp["tree"]), **kw)
                elif kind == "env":
                    r = p.parse_env(dict(inp.get("env") or {})) if mapping else p.parse_env()
                else:
                    raise MachineryError("unknown kind " + kind)
                out["res"] = {"ok": enc(r)}
                if reparse:
                    if record:
                        rec.__exit__()
                        record = False
                    try:
                        doc = p.dump(r)
                        out["dump"] = doc
                        out["reparse"] = {"ok": enc(p.parse_string(doc, **kw))}
                    except Exception as ex:  # noqa: BLE001 - the error class is the observation
                        out["reparse"] = err_of(ex)
            except MachineryError:
                raise
            except SystemExit as ex:
                out["res"] = {"err": "exit", "msg": str(ex)}
            except Exception as ex:  # noqa: BLE001 - the error class is the observation
                out["res"] = err_of(ex)
            finally:
                if record:
                    rec.__exit__()
        out["warnings"] = sum(1 for w in wlist if "Multiple subcommand settings" in str(w.message))
    finally:
        for k in (inp.get("env") or {}):
            os.environ.pop(k, None)
        built.close()
    out["calls"] = rec.calls
    out["gets"] = rec.gets
    return out


# ====================================================================== model side
def p_wire(spec, layers=None, pre=""):
    """parser wire for the driver; `layers`: dotted path -> namespace wire put into `dflt` (opaque layer)"""
    d = {"dflt": {"s": []}, "envc": {"s": []}, "sub": None, "choices": []}
    if layers is not None:
        d["dflt"] = layers.get(pre[:-1], {"s": []}) if pre else {"s": []}
    if spec["sub"]:
        d["sub"] = {"dest": spec["sub"]["dest"], "required": spec["sub"]["required"]}
        d["choices"] = [[n, p_wire(c, layers, pre + n + ".")] for n, c in spec["sub"]["choices"]]
    return d


def sub_wire(w, dotted):
    """namespace wire found at the dotted prefix (empty namespace if there is none)"""
    cur = w
    for seg in [s for s in dotted.split(".") if s]:
        nxt = None
        if isinstance(cur, dict):
            for k, v in cur["s"]:
                if k == seg:
                    nxt = v
        cur = nxt
    return cur if isinstance(cur, dict) else {"s": []}


def call_request(spec, call):
    node = node_at(spec, call["path"])
    return {"op": "handle", "p": p_wire(node, call["layers"]), "cfg": call["in"], "fail": call["fail"], "single": call["single"],
            "mode": "dflt" if (call["env"] or call["defaults"]) else "none", "pre": []}


def final_request(spec, call, validate=True):
    r = call_request(spec, call)
    r.update(op="common", links=True, validate=validate)
    return r


def get_request(spec, g):
    node = node_at(spec, g["path"])
    if not node["sub"]:
        return None
    pre = [s for s in g["prefix"].split(".") if s]
    return {"op": "get", "h": {"dest": node["sub"]["dest"], "required": node["sub"]["required"]}, "names": [n for n, _ in node["sub"]["choices"]],
            "fail": g["fail"], "single": g["single"], "pre": pre, "cfg": sub_wire(g["in"], g["prefix"])}


def spec_defaults_wire(spec):
    """what get_defaults returns for a parser without default config files (written from the spec, not taken from the code)"""
    kv = []
    if spec["cfg"]:
        kv.append(["cfg", None])
    for name, d in spec["opts"]:
        kv.append([name, d])
    if spec["sub"]:
        kv.append([spec["sub"]["dest"], None])
    return {"s": kv}


def p_wire_full(spec, envcs, path=()):
    d = {"dflt": spec_defaults_wire(spec), "envc": envcs.get(path, {"s": []}), "sub": None, "choices": []}
    if spec["sub"]:
        d["sub"] = {"dest": spec["sub"]["dest"], "required": spec["sub"]["required"]}
        d["choices"] = [[n, p_wire_full(c, envcs, path + (n,))] for n, c in spec["sub"]["choices"]]
    return d


def argv_wire(av):
    items = []
    for it in av["items"]:
        if "opt" in it:
            items.append([False, {"s": [[it["opt"][0], it["opt"][1]]]}])
        else:
            items.append([True, tree_to_wire(it["cfg"])])
    return {"items": items, "sub": [av["sub"][0], argv_wire(av["sub"][1])] if av["sub"] else None}


def drop_key(w, key="cfg"):
    if isinstance(w, dict):
        return {"s": [[k, drop_key(v, key)] for k, v in w["s"] if k != key]}
    return w


def env_layers(spec, inp):
    """what `_load_env_vars` of every parser returns under the environment of the input (taken from the real code:
    the environment branch is judged by the oracle, not by this correspondence)"""
    from jsonargparse._common import parser_context

    for k in list(os.environ):
        if k.startswith("APP_"):
            del os.environ[k]
    built = Built(spec)
    out = {}
    try:
        os.environ.update(inp.get("env") or {})
        with warnings.catch_warnings():
            warnings.simplefilter("ignore")
            for path, parser in built.by_path.items():
                try:
                    with parser_context(load_value_mode=parser.parser_mode):
                        out[path] = enc(parser._load_env_vars(env=os.environ, defaults=True))
                except Exception:  # noqa: BLE001
                    return None
    finally:
        for k in (inp.get("env") or {}):
            os.environ.pop(k, None)
        built.close()
    return out


def pipeline_request(spec, inp):
    """model request for the whole parse_args (trees without default config files only)"""
    if inp["kind"] != "args" or has_dcf(spec):
        return None
    mode = "env" if spec.get("default_env") else "dflt"
    envcs = {}
    if mode == "env":
        envcs = env_layers(spec, inp)
        if envcs is None:
            return None
    return {"op": "args", "p": p_wire_full(spec, envcs), "argv": argv_wire(inp["argv"]), "ns": {"s": []}, "single": True, "mode": mode,
            "validate": True}


def p_wire_conc(spec, path=(), parent_dcfs=()):
    """parser wire with the CONCRETE fields of the model (option defaults, default config files, position): everything is
    taken from the spec, nothing from the real parsers"""
    own = [tree_to_wire(spec["dcf"])] if spec["dcf"] is not None else []
    d = {"dflt": {"s": []}, "envc": {"s": []}, "path": list(path), "opts": spec_defaults_wire(spec), "options": [n for n, _ in spec["opts"]],
         "cfgKey": "cfg" if spec["cfg"] else None, "dcfs": own, "pdcfs": list(parent_dcfs), "sub": None, "choices": []}
    if spec["sub"]:
        d["sub"] = {"dest": spec["sub"]["dest"], "required": spec["sub"]["required"]}
        d["choices"] = [[n, p_wire_conc(c, path + (n,), own)] for n, c in spec["sub"]["choices"]]
    return d


def env_wire(spec, inp):
    """the environment as the model reads it: typed values by variable NAME (names written from the documentation rule)"""
    env = inp.get("env") or {}
    vals, cfgs = [], []
    for path in all_paths(spec):
        node = node_at(spec, path)
        for name, _ in node["opts"]:
            k = env_name(path, name)
            if k in env:
                vals.append([k, int(env[k])])
        if node["sub"]:
            k = env_name(path, node["sub"]["dest"])
            if k in env:
                vals.append([k, env[k]])
        if node["cfg"]:
            k = env_name(path, "cfg")
            if k in env:
                cfgs.append([k, tree_to_wire(json.loads(env[k]))])
    return {"root": "app", "vals": vals, "cfgs": cfgs}


def layer_requests(spec, inp, call, seen=None):
    """the concrete layer of the model for every layer that a captured handle_subcommands call obtained from a sub-parser
    (`seen`: the same sub-parser under the same stack is asked for many times during one parse; compared once)"""
    out = []
    pw = None
    for dotted, meta in call.get("layer_meta", {}).items():
        if meta["path"] is None or any(p is None for _, p in meta["ctx"]) or dotted not in call["layers"]:
            continue
        if seen is not None:
            key = (tuple(meta["path"]), meta["fn"], meta.get("defaults", True), call["single"], json.dumps(meta["ctx"]), json.dumps(call["layers"][dotted], sort_keys=True))
            if key in seen:
                continue
            seen.add(key)
        if pw is None:
            pw = p_wire_conc(spec)
            ew = env_wire(spec, inp) if inp is not None else {"root": "app", "vals": [], "cfgs": []}
        ctx = []
        for key, ppath in meta["ctx"]:
            pn = node_at(spec, tuple(ppath))
            ctx.append([key, [tree_to_wire(pn["dcf"])] if pn["dcf"] is not None else []])
        rq = {"op": "layerc", "p": pw, "E": ew, "ctx": ctx, "node": list(meta["path"]), "single": call["single"],
              "mode": "env" if meta["fn"] == "parse_env" else "dflt"}
        if meta["fn"] == "parse_env" and not meta.get("defaults", True):
            # the environment-only parse_env (defaults=False) that the subcommand branch of _load_env_vars asks for since fix a5d1a53,
            # handed down by its handle_subcommands: the model's `layerEO`
            rq["op"] = "layereo"
        out.append((rq, {"ok": canon(call["layers"][dotted])}, "layer", meta))
    return out


def same(a, b):
    return json.dumps(a, sort_keys=True) == json.dumps(b, sort_keys=True)


def canon_out(o):
    if "ok" in o:
        return {"ok": canon(o["ok"])}
    if o.get("err") in ("nosub", "reqkey", "badname", "badsec"):
        return {"err": o["err"], "key": o["key"]}
    return {"err": o.get("err")}


# ====================================================================== reference (the property, from the raw inputs)
class Expect:
    """expected result tree with admissible value sets"""


def tree_get(t, path):
    cur = t
    for s in path:
        if not isinstance(cur, dict) or s not in cur:
            return None, False
        cur = cur[s]
    return cur, True


def sources_of(spec, inp):
    """ordered list of sources: (kind, rank, base_path, tree); rank orders precedence inside the `given` kind"""
    src = []
    for path in all_paths(spec):
        node = node_at(spec, path)
        if node["dcf"] is not None:
            src.append(("dcf", len(path), path, node["dcf"]))
    env = inp.get("env") or {}
    if spec.get("default_env") or inp["kind"] == "env":
        for path in all_paths(spec):
            node = node_at(spec, path)
            if node["cfg"] and env_name(path, "cfg") in env:
                src.append(("envcfg", len(path), path, json.loads(env[env_name(path, "cfg")])))
            t = {}
            for name, _ in node["opts"]:
                if env_name(path, name) in env:
                    t[name] = int(env[env_name(path, name)])
            if node["sub"]:
                v = env.get(env_name(path, node["sub"]["dest"]))
                if v is not None and v in [n for n, _ in node["sub"]["choices"]]:
                    t[node["sub"]["dest"]] = v
            if t:
                src.append(("env", len(path), path, t))
    if inp["kind"] in ("string", "object", "path"):
        src.append(("given", 0, (), inp["tree"]))
    if inp["kind"] == "args":
        path, av, i = (), inp["argv"], 0
        while av is not None:
            for it in av["items"]:
                i += 1
                if "opt" in it:
                    src.append(("given", i, path, {it["opt"][0]: it["opt"][1]}))
                else:
                    src.append(("given", i, path, it["cfg"]))
            if av["sub"]:
                path = path + (av["sub"][0],)
                av = av["sub"][1]
            else:
                av = None
    return src


def argv_names(inp):
    out = []
    if inp["kind"] == "args":
        av = inp["argv"]
        while av is not None and av["sub"]:
            out.append(av["sub"][0])
            av = av["sub"][1]
    return tuple(out)


def rel(src_path, path):
    """path relative to the base of a source, or None if the source does not cover it"""
    if path[: len(src_path)] != src_path:
        return None
    return path[len(src_path):]


def reference(spec, inp):
    """walk down the chosen path; returns ("ok", checks) | ("error", dotted key) | ("ambiguous", why).
    checks: list of (path, expected-keys, {opt: admissible set}, dest, chosen-or-None, other names)"""
    src = sources_of(spec, inp)
    named = argv_names(inp)
    checks = []
    notes = set()
    hints = {}
    path = ()
    node = spec
    while True:
        # ---- complete settings of this parser
        vals = {}
        env_named_at = [k for k in range(len(path)) if env_names_sub(spec, inp, path[:k], path[k])]
        # levels at which the environment names ANOTHER subcommand than the one finally selected: the layer of that parser
        # (its defaults and environment, handled on their own) has already dropped the sections of the others (finding F_EARLY)
        env_other_at = [k for k in range(len(path)) if env_named_value(spec, inp, path[:k]) not in (None, path[k])]
        # parse_env(<mapping>): below a level whose subcommand is NOT named by its variable in the mapping, the sub-parsers
        # are parsed by handle_subcommands, which reads the process environment instead of the mapping (finding F_MAPPING)
        mapping_lost = inp.get("env_as") == "mapping" and any(env_named_value(spec, inp, path[:k]) != path[k] for k in range(len(path)))
        if mapping_lost:
            hints[("choice", path)] = F_MAPPING
        for name, dflt in node["opts"]:
            given, lower = [], []   # lower: (level of the source's parser, rank of its kind, value)
            shadowed = False
            for kind, rank, base, tree in src:
                r = rel(base, path)
                if r is None:
                    continue
                v, ok = tree_get(tree, r + (name,))
                if not ok or isinstance(v, dict):
                    continue
                if kind == "given":
                    given.append((rank, v))
                else:
                    lower.append((len(base), {"env": 3, "envcfg": 2, "dcf": 1}[kind], v))
                    if kind != "env":
                        shadowed = shadowed or any(len(base) <= k for k in env_named_at)
                        if any(len(base) == k for k in env_other_at):
                            hints[path + (name,)] = F_EARLY
            if given:
                vals[name] = {sorted(given, key=lambda x: x[0])[-1][1]}
            elif not lower:
                vals[name] = {dflt}
            elif len({lv for lv, _, _ in lower}) == 1:
                # all from sources of one parser: environment variable over config environment variable over default config file
                top = max(k for _, k, _ in lower)
                vals[name] = {v for _, k, v in lower if k == top}
            else:
                # sources of parsers of different levels disagree: their precedence is the subject of C04
                vals[name] = {v for _, _, v in lower}
            if mapping_lost and not given:
                hints.setdefault(path + (name,), F_MAPPING)
        sub = node["sub"]
        if not sub:
            checks.append((path, vals, None, None, []))
            return ("ok", checks, notes, hints)
        names = [n for n, _ in sub["choices"]]
        # ---- the choice
        chosen = None
        why = None
        if len(named) > len(path):
            chosen, why = named[len(path)], "argv"
        else:
            explicit = []  # (rank of the kind, order inside the kind, level of the source's parser, value)
            settings = {}  # name -> set of source indexes
            for idx, (kind, rank, base, tree) in enumerate(src):
                r = rel(base, path)
                if r is None:
                    continue
                sect, ok = tree_get(tree, r)
                if not ok or not isinstance(sect, dict):
                    continue
                v = sect.get(sub["dest"])
                krank = {"dcf": 0, "envcfg": 1, "env": 2, "given": 3}[kind]
                secs = [n for n in names if isinstance(sect.get(n), dict) and has_leaf(sect[n])]
                if v is not None:
                    explicit.append((krank, rank if kind == "given" else 0, len(base), v))
                elif kind == "dcf" and secs:
                    # a default config file is loaded on its own with the single-subcommand rule: it selects its first section
                    explicit.append((krank, 0, len(base), secs[0]))
                for n in secs:
                    settings.setdefault(n, set()).add(idx)
            # open finding F_INNER (since repair F50): the parser at `path` (or an ancestor of it) was NAMED BY ITS ENVIRONMENT VARIABLE,
            # no source names a subcommand at this level, and unnamed sections for DIFFERENT subcommands come from the config
            # environment variable of that env-named parser and from a default config file: the environment-only layer of the
            # env-named parser is handled on its own first and commits to the section of the config variable
            if env_named_at and not any(tree_get(t, rel(b, path))[1] and isinstance(tree_get(t, rel(b, path))[0], dict)
                                        and tree_get(t, rel(b, path))[0].get(sub["dest"]) is not None
                                        for _, _, b, t in src if rel(b, path) is not None):
                env_bases = {path[:k + 1] for k in env_named_at}

                def first_sec(kinds, bases=None):
                    out = set()
                    for kind, rank, base, tree in src:
                        if kind not in kinds or rel(base, path) is None or (bases is not None and base not in bases):
                            continue
                        sect, ok = tree_get(tree, rel(base, path))
                        if ok and isinstance(sect, dict):
                            secs = [n for n in names if isinstance(sect.get(n), dict) and has_leaf(sect[n])]
                            if secs:
                                out.add(secs[0])
                    return out

                es, ds = first_sec(("envcfg",), env_bases), first_sec(("dcf",))
                if es and ds and es != ds:
                    hints[("choice", path)] = F_INNER
            if explicit:
                top = max(e[:2] for e in explicit)
                if top[0] == 3:
                    cands = {e[3] for e in explicit if e[:2] == top}
                elif len({e[2] for e in explicit}) == 1:
                    cands = {e[3] for e in explicit if e[0] == top[0]}
                else:
                    # sources of parsers of different levels name different subcommands: precedence is the subject of C04
                    cands = {e[3] for e in explicit}
                if len(cands) > 1:
                    chosen, why = cands, "named-any"
                else:
                    chosen, why = cands.pop(), "named"
            elif settings:
                with_settings = [n for n in names if n in settings]
                all_src = set().union(*settings.values())
                if len(all_src) > 1 and len(with_settings) > 1:
                    chosen, why = set(with_settings), "first-any"
                else:
                    chosen, why = with_settings[0], "first"
        # a value under a subcommand name that is neither a mapping nor null (single-source inputs): the parse must fail;
        # for the SELECTED subcommand with the argument error of fix adfb1a7
        if inp["kind"] in ("string", "object", "path"):
            gsect, gok = tree_get(inp["tree"], path)
            if gok and isinstance(gsect, dict):
                scal = [n for n in names if n in gsect and gsect[n] is not None and not isinstance(gsect[n], dict)]
                if scal:
                    sel = chosen if isinstance(chosen, str) else None
                    if sel in scal:
                        return ("error-badsec", ".".join(path + (sel,)), notes, hints)
                    return ("error-any", ".".join(path + (scal[0],)), notes, hints)
        if chosen is None:
            checks.append((path, vals, sub["dest"], None, names))
            if sub["required"]:
                return ("error", ".".join(path + (sub["dest"],)), notes, hints)
            return ("ok", checks, notes, hints)
        if isinstance(chosen, set):
            checks.append((path, vals, sub["dest"], chosen, names))
            return ("ok-open", checks, notes, hints)   # the chosen one is one of a set: checked up to here
        if chosen not in names:
            # the source of highest precedence names something that is not a subcommand: nothing is selected, the parse must fail
            hints["bad-name"] = F_FALSY if not chosen else None
            hints["bad-name-strict"] = True   # since fix 96e4fb9 the rejection is the "but got" parse error, required or not
            return ("error-any", ".".join(path + (sub["dest"],)), notes, hints)
        checks.append((path, vals, sub["dest"], chosen, names))
        path = path + (chosen,)
        node = dict(sub["choices"])[chosen]


def env_names_sub(spec, inp, path, name):
    """the environment variable of the subcommand key of the parser at `path` is read and names `name`"""
    if not (spec.get("default_env") or inp["kind"] == "env"):
        return False
    node = node_at(spec, path)
    return bool(node["sub"]) and (inp.get("env") or {}).get(env_name(path, node["sub"]["dest"])) == name


def env_named_value(spec, inp, path):
    """the subcommand that the environment variable of the parser at `path` names (None if unset, unread or not a subcommand)"""
    if not (spec.get("default_env") or inp["kind"] == "env"):
        return None
    node = node_at(spec, path)
    if not node["sub"]:
        return None
    v = (inp.get("env") or {}).get(env_name(path, node["sub"]["dest"]))
    return v if v in [n for n, _ in node["sub"]["choices"]] else None


def has_leaf(t):
    if isinstance(t, dict):
        return any(has_leaf(v) for v in t.values())
    return True


def early_selection_possible(spec, inp):
    """signature of the open finding F_EARLY: some source that is loaded on its own (a default config file, a config
    argument, the config environment variable) holds, at one level, sections for two or more subcommands, or names a
    subcommand and holds a section of another one"""
    env_on = bool(spec.get("default_env") or inp["kind"] == "env")

    def multi(node, tree):
        if not isinstance(tree, dict) or not node["sub"]:
            return False
        names = [n for n, _ in node["sub"]["choices"]]
        secs = [n for n in names if isinstance(tree.get(n), dict)]
        if len(secs) >= 2:
            return True
        # with environment parsing the layer of a sub-parser is handled by parse_env (handle + the get_subcommand of
        # apply_parsing_links): a source that NAMES one subcommand and holds a section of another loses that section there
        if env_on and tree.get(node["sub"]["dest"]) in names and any(n != tree.get(node["sub"]["dest"]) for n in secs):
            return True
        return any(multi(dict(node["sub"]["choices"])[n], tree[n]) for n in secs)

    for kind, rank, base, tree in sources_of(spec, inp):
        if kind in ("dcf", "envcfg") and multi(node_at(spec, base), tree):
            return True
        if kind == "given" and inp["kind"] == "args" and isinstance(tree, dict) and multi(node_at(spec, base), tree):
            return True
    return False


def judge(spec, inp, res):
    """compare the real result with the reference; returns a list of (description, known-finding-id or None)"""
    ref = reference(spec, inp)
    devs = []
    if ref[0] == "ambiguous":
        return devs, ref
    early = F_EARLY if early_selection_possible(spec, inp) else None
    leak = None   # the class of the former finding C17-env-default-config-leak is no longer excused (fix 00c879c)
    # a choice made by a lower source that the environment-named-subcommand defect resets: everything below is affected
    chint = next((v for k, v in ref[3].items() if isinstance(k, tuple) and k and k[0] == "choice"), None)
    if ref[0] == "error-any":
        if "ok" in res:
            devs.append(("%r is given a value that is not a subcommand name / not a mapping but the parse succeeds" % ref[1], ref[3].get("bad-name")))
        elif ref[3].get("bad-name-strict") and res.get("err") != "badname":
            devs.append(("%r is given a value that is not a subcommand name: the failure is not the parse error of fix 96e4fb9 (%s)"
                         % (ref[1], json.dumps(res)[:160]), chint or early or leak))
        return devs, ref
    if ref[0] == "error-badsec":
        if "ok" in res:
            devs.append(("the settings of the selected subcommand %r are not a mapping but the parse succeeds" % ref[1], None))
        elif res.get("err") != "badsec":
            devs.append(("the settings of the selected subcommand %r are not a mapping: the failure is not the parse error of fix adfb1a7 (%s)"
                         % (ref[1], json.dumps(res)[:160]), chint or early or leak))
        return devs, ref
    if ref[0] == "error":
        if "ok" in res:
            devs.append(("no subcommand can be determined for required %r but the parse succeeds" % ref[1], chint or early or leak))
        elif res.get("err") not in ("nosub", "reqkey"):
            devs.append(("undeterminable required subcommand: failure is not the subcommand error (%s)" % json.dumps(res)[:160], leak))
        return devs, ref
    if "ok" not in res and ref[0] == "ok-open" and res.get("err") in ("nosub", "reqkey"):
        return devs, ref   # the walk stopped at a level where the rule admits several subcommands; a deeper required one may be missing
    if "ok" not in res:
        fid = leak
        if res.get("err") in ("nosub", "reqkey") and chint:
            fid = chint
        if res.get("err") in ("nosub", "reqkey") and early:
            fid = early
        devs.append(("the reference selects a subcommand at every level but the parse fails: %s" % json.dumps(res)[:200], fid))
        return devs, ref
    plain = wire_to_plain(res["ok"])
    for path, vals, dest, chosen, names in ref[1]:
        sect, ok = tree_get(plain, path)
        where = ".".join(path) or "<root>"
        if not ok or not isinstance(sect, dict):
            devs.append(("no section for the selected subcommand at %s" % where, None))
            break
        for name, adm in vals.items():
            if name not in sect:
                devs.append(("option %s missing from the settings at %s" % (name, where), None))
            elif sect[name] not in adm:
                devs.append(("option %s at %s is %r, expected %s" % (name, where, sect[name], sorted(adm, key=str)), ref[3].get(path + (name,)) or early or leak))
        if dest is None:
            extra = set(sect) - set(vals) - {"cfg"}
            if extra:
                devs.append(("unexpected keys %s at %s" % (sorted(extra), where), leak))
            continue
        got = sect.get(dest)
        if chosen is None:
            if got is not None:
                devs.append(("no subcommand determinable at %s but %s=%r" % (where, dest, got), chint or early or leak))
                break
            present = [n for n in names if n in sect]
            if present:
                devs.append(("no subcommand selected at %s but sections %s are present" % (where, present), None))
            continue
        adm = chosen if isinstance(chosen, set) else {chosen}
        if got not in adm:
            devs.append(("selected subcommand at %s is %r, the rule gives %s" % (where, got, sorted(adm)), ref[3].get(("choice", path)) or chint or early or leak))
            break
        others = [n for n in names if n != got and n in sect and sect[n] is not None]
        if others:
            devs.append(("sections of non-selected subcommands %s survive at %s" % (others, where), None))
        if not isinstance(sect.get(got), dict):
            devs.append(("selected subcommand %s has no section at %s" % (got, where), None))
            break
        extra = set(sect) - set(vals) - {"cfg", dest} - set(names)
        if extra:
            devs.append(("unexpected keys %s at %s" % (sorted(extra), where), leak))
    return devs, ref


# ====================================================================== direct calls of the static methods
def gen_direct(rng, spec):
    """a synthetic namespace for a direct call (corner values included)"""
    def tree(node, depth=0):
        t = {}
        for name, _ in node["opts"]:
            if rng.random() < 0.4:
                t[name] = rng.randint(100, 999)
        if node["sub"]:
            names = [n for n, _ in node["sub"]["choices"]]
            r = rng.random()
            if r < 0.35:
                t[node["sub"]["dest"]] = rng.choice(names)
            elif r < 0.42:
                t[node["sub"]["dest"]] = None
            elif r < 0.47:
                t[node["sub"]["dest"]] = rng.choice(["", "nosuch"])
            for n in names:
                r = rng.random()
                if r < 0.4:
                    t[n] = tree(dict(node["sub"]["choices"])[n], depth + 1)
                elif r < 0.47:
                    t[n] = None
                elif r < 0.5:
                    t[n] = {}
                elif r < 0.53:
                    t[n] = rng.choice([5, 0, "text"])
        return t

    return {"tree": tree(spec), "fail": rng.random() < 0.6, "single": rng.random() < 0.7, "mode": rng.choice(["none", "dflt", "dflt", "env"])}


def ns_of(t):
    from jsonargparse import Namespace

    if isinstance(t, dict):
        ns = Namespace()
        for k, v in t.items():
            setattr(ns, k, ns_of(v))
        return ns
    return t


def direct_run(spec, d, env=None):
    """real handle_subcommands on a synthetic namespace; the layers are whatever the sub-parsers return (recorded)"""
    from jsonargparse import _actions

    for k in list(os.environ):
        if k.startswith("APP_"):
            del os.environ[k]
    built = Built(spec)
    try:
        os.environ.update(env or {})
        cfg = ns_of(d["tree"])
        with Recorder(built) as rec, warnings.catch_warnings(record=True) as wl:
            warnings.simplefilter("always")
            ctx = _actions._ActionSubCommands.not_single_subcommand() if not d["single"] else None
            try:
                if ctx:
                    ctx.__enter__()
                _actions._ActionSubCommands.handle_subcommands(built.root, cfg, d["mode"] == "env", d["mode"] in ("dflt", "env"), "", d["fail"])
            except Exception:  # noqa: BLE001 - recorded by the recorder
                pass
            finally:
                if ctx:
                    ctx.__exit__(None, None, None)
        nwarn = sum(1 for w in wl if "Multiple subcommand settings" in str(w.message))
        return rec.calls, rec.gets, nwarn
    finally:
        for k in (env or {}):
            os.environ.pop(k, None)
        built.close()


# ====================================================================== the check
def sanitize_tree(node, t):
    """drop from the config tree `t` (relative to parser `node`) whatever the parser does not know"""
    if not isinstance(t, dict):
        return t
    out = {}
    opts = {n for n, _ in node["opts"]}
    sub = node["sub"]
    names = [n for n, _ in sub["choices"]] if sub else []
    for k, v in t.items():
        if k in opts and not isinstance(v, dict):
            out[k] = v
        elif sub and k == sub["dest"]:
            if v is None or v in names or v in ("", "nosuch"):
                out[k] = v
        elif k in names and isinstance(v, dict):
            out[k] = sanitize_tree(dict(sub["choices"])[k], v)
        elif k in names and v is not None:
            out[k] = v   # a non-mapping under a subcommand name (must be rejected)
    return out


def sanitize(spec, inp):
    """make (spec, inp) consistent after an edit of the spec: unknown keys, variables and command-line parts are dropped"""
    spec = copy.deepcopy(spec)
    inp = copy.deepcopy(inp)
    known_env = set()
    for path in all_paths(spec):
        node = node_at(spec, path)
        if node["dcf"] is not None:
            node["dcf"] = sanitize_tree(node, node["dcf"])
        for name, _ in node["opts"]:
            known_env.add(env_name(path, name))
        if node["sub"]:
            known_env.add(env_name(path, node["sub"]["dest"]))
        if node["cfg"]:
            known_env.add(env_name(path, "cfg"))
            k = env_name(path, "cfg")
            if k in (inp.get("env") or {}):
                inp["env"][k] = json.dumps(sanitize_tree(node, json.loads(inp["env"][k])))
    inp["env"] = {k: v for k, v in (inp.get("env") or {}).items() if k in known_env}
    if "tree" in inp:
        inp["tree"] = sanitize_tree(spec, inp["tree"])
    if inp["kind"] == "args":
        node, av = spec, inp["argv"]
        while av is not None:
            items = []
            for it in av["items"]:
                if "opt" in it and it["opt"][0] in {n for n, _ in node["opts"]}:
                    items.append(it)
                elif "cfg" in it and node["cfg"]:
                    it["cfg"] = sanitize_tree(node, it["cfg"])
                    items.append(it)
            av["items"] = items
            if av["sub"] and node["sub"] and av["sub"][0] in dict(node["sub"]["choices"]):
                node, av = dict(node["sub"]["choices"])[av["sub"][0]], av["sub"][1]
            else:
                av["sub"] = None
                av = None
    return spec, inp


def tree_paths(t, pre=()):
    if isinstance(t, dict):
        for k, v in t.items():
            yield pre + (k,)
            yield from tree_paths(v, pre + (k,))


def tree_without(t, path):
    t = copy.deepcopy(t)
    cur = t
    for k in path[:-1]:
        cur = cur[k]
    del cur[path[-1]]
    return t


def shrink_case(spec, inp, still_bad, budget=400):
    """greedy simplification of (spec, inp): drop env entries, argv items, tree keys, options, subcommands, files"""
    cur = sanitize(spec, inp)

    def candidates(spec, inp):
        # big cuts first: whole subcommands, then options, then sources
        for path in all_paths(spec):
            node = node_at(spec, path)
            if node["sub"]:
                for i in range(len(node["sub"]["choices"])):
                    s2 = copy.deepcopy(spec)
                    n2 = node_at(s2, path)
                    del n2["sub"]["choices"][i]
                    if not n2["sub"]["choices"]:
                        n2["sub"] = None
                    yield sanitize(s2, inp)
        for path in all_paths(spec):
            node = node_at(spec, path)
            for i in range(len(node["opts"])):
                s2 = copy.deepcopy(spec)
                del node_at(s2, path)["opts"][i]
                yield sanitize(s2, inp)
            if node["dcf"] is not None:
                s2 = copy.deepcopy(spec)
                node_at(s2, path)["dcf"] = None
                yield s2, inp
                for tp in tree_paths(node["dcf"]):
                    s2 = copy.deepcopy(spec)
                    node_at(s2, path)["dcf"] = tree_without(node["dcf"], tp)
                    yield s2, inp
            if node["cfg"]:
                s2 = copy.deepcopy(spec)
                node_at(s2, path)["cfg"] = False
                yield sanitize(s2, inp)
        if spec.get("default_env"):
            s2 = copy.deepcopy(spec)
            s2["default_env"] = False
            yield s2, inp
            if spec.get("env_how", "ctor") != "ctor":
                s2 = copy.deepcopy(spec)
                s2["env_how"] = "ctor"
                yield s2, inp
        for k in list(inp.get("env") or {}):
            i2 = copy.deepcopy(inp)
            del i2["env"][k]
            yield spec, i2
            if k.endswith("_CFG"):
                t = json.loads(inp["env"][k])
                for tp in tree_paths(t):
                    i2 = copy.deepcopy(inp)
                    i2["env"][k] = json.dumps(tree_without(t, tp))
                    yield spec, i2
        if "tree" in inp:
            for tp in tree_paths(inp["tree"]):
                i2 = copy.deepcopy(inp)
                i2["tree"] = tree_without(inp["tree"], tp)
                yield spec, i2
        if inp["kind"] == "args":
            def walk(av, acc):
                for i in range(len(av["items"])):
                    yield acc + [("item", i)]
                    if "cfg" in av["items"][i]:
                        for tp in tree_paths(av["items"][i]["cfg"]):
                            yield acc + [("key", i, tp)]
                if av["sub"]:
                    yield acc + [("cut",)]
                    yield from walk(av["sub"][1], acc + [("down",)])
            for edit in walk(inp["argv"], []):
                i2 = copy.deepcopy(inp)
                av = i2["argv"]
                for e in edit:
                    if e[0] == "down":
                        av = av["sub"][1]
                    elif e[0] == "item":
                        del av["items"][e[1]]
                    elif e[0] == "key":
                        av["items"][e[1]]["cfg"] = tree_without(av["items"][e[1]]["cfg"], e[2])
                        av["items"][e[1]]["as"] = "string"
                    else:
                        av["sub"] = None
                yield spec, i2

    changed = True
    tried = 0
    while changed and tried < budget:
        changed = False
        for s2, i2 in candidates(*cur):
            tried += 1
            if tried > budget:
                break
            try:
                bad = still_bad(s2, i2)
            except Exception:  # noqa: BLE001
                bad = False
            if bad:
                cur = (s2, i2)
                changed = True
                break
    return cur


def check_case(ctx, spec, inp, origin, stats):
    """run one (spec, input): record, correspond, judge.  Returns the requests for the model with their expectations."""
    real = real_run(spec, inp, reparse=True)
    reqs = []
    seen_layers = set()
    # (a) captured handle_subcommands calls
    for c in real["calls"]:
        if c["path"] is None or c.get("layer_failed") or "out" not in c:
            stats["skipped_calls"] += 1
            continue
        reqs.append((call_request(spec, c), canon_out(c["out"]), "handle", c))
        if inp.get("env_as") != "mapping":   # with a mapping, handle_subcommands' own parse_env calls read the process environment
            reqs.extend(layer_requests(spec, inp, c, seen_layers))
    # captured get_subcommands calls
    for g in real["gets"]:
        if g["path"] is None or "out" not in g:
            continue
        rq = get_request(spec, g)
        if rq is None:
            continue
        if "ok" in g["out"]:
            exp = {"ok": {"cfg": canon(sub_wire(g["out"]["ok"], g["prefix"])), "names": g["out"]["names"]}}
        else:
            exp = canon_out(g["out"])
        reqs.append((rq, exp, "get", g))
    # final result vs parseCommon on what the last outermost call of the root parser saw
    finals = [c for c in real["calls"] if c["path"] == () and c["depth"] == 0 and not c.get("layer_failed")]
    if finals and "ok" in real["res"] and "ok" in finals[-1]["out"]:
        reqs.append((final_request(spec, finals[-1]), canon_out(real["res"]), "final", finals[-1]))
    elif finals and real["res"].get("err") in ("nosub", "reqkey") and real["calls"][-1] is finals[-1] and "err" in finals[-1]["out"]:
        # the error was raised by the final call itself (not by the parse of a sub-parser's command line)
        reqs.append((final_request(spec, finals[-1]), canon_out(real["res"]), "final", finals[-1]))
    # (c) the whole pipeline
    if "ok" in real["res"] or real["res"].get("err") in ("nosub", "reqkey"):
        rq = pipeline_request(spec, inp)
        if rq is not None:
            exp = canon_out(real["res"])
            if "ok" in exp:
                exp = {"ok": canon(drop_key(exp["ok"]))}
            reqs.append((rq, exp, "pipeline", None))
    return real, reqs


def model_answers(ctx, reqs):
    if not reqs:
        return []
    try:
        return ctx.driver("Subcmd", [r[0] for r in reqs])
    except MachineryError as ex:
        if ctx.lean_ok:
            raise
        ctx.tie_break("correspondence Subcmd not runnable (model does not build)", str(ex))
        return None


def model_view(kind, ans):
    if kind == "pipeline":
        if "ok" in ans:
            return {"ok": canon(drop_key(ans["ok"]))}
        return canon_out(ans)
    if kind == "get":
        if "ok" in ans:
            names = [v for v in ans["ok"]["todo"]]
            return {"ok": {"cfg": canon(ans["ok"]["cfg"]), "names": names}}
        return canon_out(ans)
    return canon_out(ans)


def run(ctx: Ctx):
    repo_python_path()
    ctx.rule = ("generated parser trees (depth 1-3, 1-4 subcommands per level, required/optional, 0-3 int options per parser, --cfg and default "
                "config files at any level, environment parsing enabled by the constructor / by `parser.default_env = True` after the tree is built / "
                "by env=True on the call / by JSONARGPARSE_DEFAULT_ENV) x inputs through parse_args (options, config strings/files, subcommand names at any depth), "
                "parse_string, parse_object, parse_path, parse_env and environment variables (options, subcommand names, config); each case is "
                "judged by the reference and every get_subcommands/handle_subcommands call it makes is replayed through the Lean model; non-trivial "
                "= a case whose parse reaches a parser with subcommands and either selects one or fails for a required one; distinct by canonical JSON")
    ctx.assumptions = [
        "argparse tokenisation (which token is the subcommand name; abbreviation matching, DESIGN section 7 row 14c) is outside the model; generated option names are prefix-free, so 14c cannot be met",
        "option values are ints; typed validation is the subject of C02/C06",
        "the final parse has defaults=True (the default of every parse method)",
        "precedence between sources of parsers of DIFFERENT levels below the given values (a parent's default config file vs a sub-parser's environment variable or default config file) is left to C04: the reference admits either value",
        "the final-stage theorems hold for every layer function; the CONCRETE layer (layerC: option defaults, default config files with the parent_parsers key selection, environment variables by name, parse_env recursion) is compared with the recorded get_defaults/parse_env of every sub-parser; environment variable names are ASCII (str.upper beyond ASCII is outside)",
        "dotted keys address paths of a tree (C11); config files contain no dotted keys; no subcommand is called ''",
    ]
    ctx.lean_build(extractors=["subcmd_shape"])

    from ..lib import corpus as corpus_mod

    cases = []
    for c in corpus_mod.load(ctx.prop):
        if "spec" in c:
            cases.append((c["spec"], c["input"], "corpus"))
    n_corpus = len(cases)
    n_random = ctx.budget(950, 24000) * (2 if ctx.search_boost > 1 else 1)
    spec = None
    for i in range(n_random):
        if spec is None or i % 4 == 0:
            spec = gen_spec(ctx.rng, ctx.rng.choice([0.0, 0.15, 0.3]))
        cases.append((spec, gen_input(ctx.rng, spec), "generated"))

    stats = {"skipped_calls": 0, "handle_calls": 0, "get_calls": 0, "final": 0, "pipeline": 0, "layer": 0, "ambiguous": 0, "ok-open": 0}
    all_reqs = []
    judged = []
    for spec, inp, origin in cases:
        real, reqs = check_case(ctx, spec, inp, origin, stats)
        for r in reqs:
            all_reqs.append((r, spec, inp))
        judged.append((spec, inp, origin, real))
        ctx.hist("kind", inp["kind"])
        ctx.hist("depth", spec_depth(spec))
        ctx.hist("outcome", "ok" if "ok" in real["res"] else real["res"].get("err"))
        ctx.hist("default_env", (spec.get("env_how", "ctor") if spec.get("default_env") else False))
        ctx.hist("default_config_files", has_dcf(spec))

    # ---------------- correspondence
    answers = model_answers(ctx, [r for r, _, _ in all_reqs])
    bad = []
    if answers is not None:
        for (rq, spec, inp), ans in zip(all_reqs, answers):
            req, exp, kind, rec = rq
            stats[{"handle": "handle_calls", "get": "get_calls", "final": "final", "pipeline": "pipeline", "layer": "layer"}[kind]] += 1
            ctx.count()
            got = model_view(kind, ans)
            if not same(got, exp):
                bad.append({"kind": kind, "request": req, "real": exp, "model": got, "spec": spec, "input": inp})
    for b in bad[:3]:
        ctx.tie_break("correspondence Subcmd (%s: model vs jsonargparse) disagrees" % b["kind"],
                      json.dumps({"request": b["request"], "real": b["real"], "model": b["model"], "input": b["input"]}, ensure_ascii=True)[:1900])
    ctx.extra["correspondence_disagreements"] = len(bad)

    # ---------------- direct calls
    dbad = direct_stage(ctx, stats)
    dbad += exhaustive_get_stage(ctx, stats)
    dbad += env_names_stage(ctx)
    dbad += sources_stage(ctx, stats)
    construction_stage(ctx)

    # ---------------- oracle
    for idx, (spec, inp, origin, real) in enumerate(judged):
        devs, ref = judge(spec, inp, real["res"])
        ctx.count()
        if not devs and "reparse" in real:
            # (iv) only for results the reference accepts: the dump parsed again
            rdevs = reparse_devs(spec, inp, real)
            ctx.count()
            ctx.hist("reparse", "same" if not rdevs else ("known-hazard" if rdevs[0][1] else "DEVIATION"))
            devs = devs + rdevs
        if ref[0] == "ambiguous":
            stats["ambiguous"] += 1
        elif ref[0] == "ok-open":
            stats["ok-open"] += 1
        if ref[0] in ("ok", "error", "ok-open", "error-any", "error-badsec") and spec["sub"]:
            ctx.nontrivial(json.dumps([spec, inp], sort_keys=True))
        ctx.hist("reference", ref[0])
        report(ctx, spec, inp, devs, origin)
        if idx >= n_corpus:
            ctx.sample({"spec": spec, "input": inp, "result": wire_to_plain(real["res"]["ok"]) if "ok" in real["res"] else real["res"]}, cap=3)

    # ---------------- fixed and open findings
    ctx.replay_fixed_demos()
    for f in ctx.open_findings():
        w = f["witness"]
        real = real_run(w["spec"], w["input"], record=False, reparse=True)
        devs, _ = judge_all(w["spec"], w["input"], real)
        if devs:
            ctx.known(f["id"], f["description"])
        else:
            ctx.stale_findings.append(f["id"])
    for f in ctx.fixed_findings():
        w = f.get("witness", {})
        if "spec" in w:
            real = real_run(w["spec"], w["input"], record=False)
            devs, _ = judge(w["spec"], w["input"], real["res"])
            ctx.count()
            if devs:
                ctx.violation("repaired defect %s is back: %s" % (f["id"], devs[0][0]),
                              {"kind": "oracle", "origin": "fixed-finding", "spec": w["spec"], "input": w["input"], "result": real["res"],
                               "deviations": [d for d, _ in devs]})
    ctx.extra["stats"] = stats
    ctx.extra["cases"] = len(cases)
    ctx.extra["direct_disagreements"] = dbad


def judge_all(spec, inp, real):
    """the reference's verdict on the result and, for an accepted result, on the re-parse of its dump"""
    devs, ref = judge(spec, inp, real["res"])
    if not devs:
        devs = devs + reparse_devs(spec, inp, real)
    return devs, ref


def dev_class(desc):
    return " ".join(re.sub(r"[^a-z ]", "", desc.split(":")[0].lower()).split()[:4])


def report(ctx, spec, inp, devs, origin):
    for desc, fid in devs:
        if fid and ctx.is_open(fid):
            ctx.known(fid, desc)
            continue
        cls = dev_class(desc)
        if getattr(ctx, "_c17_reported", None) is None:
            ctx._c17_reported = {}
        if ctx._c17_reported.get(cls, 0) >= 2:   # enough replays of this class
            ctx.violations_total = getattr(ctx, "violations_total", 0) + 1
            break
        ctx._c17_reported[cls] = ctx._c17_reported.get(cls, 0) + 1

        def still(s2, i2, cls=cls):
            r2 = real_run(s2, i2, record=False, reparse=True)
            d2, _ = judge_all(s2, i2, r2)
            return any(dev_class(d) == cls and not (f and ctx.is_open(f)) for d, f in d2)

        s2, i2 = shrink_case(spec, inp, still)
        r2 = real_run(s2, i2, record=False, reparse=True)
        d2, _ = judge_all(s2, i2, r2)
        d2 = [d for d, f in d2 if not (f and ctx.is_open(f))]
        ctx.violation("the parse result deviates from the selection rule: %s" % (d2[0] if d2 else desc),
                      {"kind": "oracle", "origin": origin, "spec": s2, "input": i2, "result": r2["res"], "deviations": d2})
        break


def direct_reference(spec, d):
    """contract of handle_subcommands(fail_no_subcommand=True) on a namespace, written from the docstrings/comments of
    get_subcommands and handle_subcommands ("explicit key, else first with settings", "Remove extra subcommand settings",
    "Merge environment variable values and default values", the friendly error for a required subcommand).
    Only for trees without default config files and defaults-only layers, clean namespaces.  Returns None if not applicable,
    else ("error", key) | ("ok", checks)."""
    if not (d["fail"] and d["single"] and d["mode"] == "dflt") or has_dcf(spec):
        return None
    checks = []
    node, t, path = spec, d["tree"], ()
    while node["sub"]:
        sub = node["sub"]
        names = [n for n, _ in sub["choices"]]
        v = t.get(sub["dest"])
        if v is not None and v not in names:
            return ("error-kind", "badname", ".".join(path + (sub["dest"],)))
        # below the top level the given section has gone through merge_config, which copies leaves: a namespace without
        # leaves does not arrive
        secs = [n for n in names if isinstance(t.get(n), dict) and (not path or has_leaf(t[n]))]
        chosen = v if v is not None else (secs[0] if secs else None)
        if chosen is None:
            if sub["required"]:
                return ("error", ".".join(path + (sub["dest"],)))
            break
        if t.get(chosen) is not None and not isinstance(t.get(chosen), dict):
            return ("error-kind", "badsec", ".".join(path + (chosen,)))
        child = dict(sub["choices"])[chosen]
        given = t.get(chosen) if isinstance(t.get(chosen), dict) else {}
        vals = {name: given.get(name, dflt) for name, dflt in child["opts"]}
        gone = [n for n in secs if n != chosen] if len(secs) > 1 else []
        checks.append((path, sub["dest"], chosen, vals, gone))
        node, t, path = child, given, path + (chosen,)
    return ("ok", checks)


def direct_judge(spec, d, out):
    ref = direct_reference(spec, d)
    if ref is None:
        return None
    if ref[0] == "error-kind":
        if out.get("err") != ref[1] or out.get("key") != ref[2]:
            return "handle_subcommands must reject %r with the %s parse error, got %s" % (ref[2], ref[1], json.dumps(out)[:160])
        return None
    if ref[0] == "error":
        if "ok" in out:
            return "handle_subcommands accepts a namespace in which the required %r cannot be determined" % ref[1]
        if out.get("err") != "nosub" or out.get("key") != ref[1]:
            return "handle_subcommands fails with %s where the subcommand error for %r is due" % (json.dumps(out)[:120], ref[1])
        return None
    if "ok" not in out:
        return "handle_subcommands fails (%s) on a namespace in which every level is determined" % json.dumps(out)[:160]
    plain = wire_to_plain(out["ok"])
    for path, dest, chosen, vals, gone in ref[1]:
        sect, ok = tree_get(plain, path)
        where = ".".join(path) or "<root>"
        if not ok or not isinstance(sect, dict):
            return "no namespace at %s after handle_subcommands" % where
        if sect.get(dest) != chosen:
            return "subcommand key at %s is %r, the rule gives %r" % (where, sect.get(dest), chosen)
        if not isinstance(sect.get(chosen), dict):
            return "no section for the selected subcommand %s at %s" % (chosen, where)
        for name, v in vals.items():
            if sect[chosen].get(name) != v:
                return "setting %s of %s at %s is %r, expected %r (given values over defaults)" % (name, chosen, where, sect[chosen].get(name), v)
        left = [n for n in gone if n in sect]
        if left:
            return "extra subcommand settings %s are not removed at %s" % (left, where)
    return None


def exhaustive_get_stage(ctx, stats):
    """get_subcommands itself, exhaustively over a small scope: one parser with three subcommands; the subcommand key absent /
    None / each name / "" / an unknown name; every section absent / None / empty / with a value; both flags; with and without
    a key prefix.  Result namespace, returned names and the warning are compared with `getSub`."""
    import itertools

    from jsonargparse import ArgumentParser, Namespace
    from jsonargparse import _actions

    names = ["a", "b", "c"]
    root = ArgumentParser(exit_on_error=False, prog="app")
    holder = ArgumentParser(exit_on_error=False)
    root.add_subcommands(dest="top").add_subcommand("p", holder)
    results = {}
    for required in (True, False):
        parser = ArgumentParser(exit_on_error=False)
        sc = parser.add_subcommands(required=required, dest="cmd")
        for n in names:
            q = ArgumentParser(exit_on_error=False)
            q.add_argument("--x", type=int, default=0)
            sc.add_subcommand(n, q)
        results[required] = parser
    dests = ["<absent>", None, "a", "b", "c", "", "zz"]
    secs = ["<absent>", None, {}, {"x": 1}]
    get = _actions._ActionSubCommands.get_subcommands
    reqs, exps = [], []
    for required, dest, sa, sb, sc_, fail, single, prefixed in itertools.product((True, False), dests, secs, secs, secs, (True, False), (True, False), (False, True)):
        tree = {}
        if dest != "<absent>":
            tree["cmd"] = dest
        for n, v in zip(names, (sa, sb, sc_)):
            if v != "<absent>":
                tree[n] = v
        cfg = ns_of({"g": 1, "p": tree}) if prefixed else ns_of(tree)
        if prefixed and not tree:
            cfg = ns_of({"g": 1, "p": {}})
        prefix = "p." if prefixed else ""
        with warnings.catch_warnings(record=True) as wl:
            warnings.simplefilter("always")
            ctxm = _actions._ActionSubCommands.not_single_subcommand() if not single else None
            try:
                if ctxm:
                    ctxm.__enter__()
                r = get(results[required], cfg, prefix, fail)
                out = {"ok": {"cfg": canon(sub_wire(enc(cfg), prefix)), "names": list(r[0]) if r[0] else [],
                              "warn": any("Multiple subcommand settings" in str(w.message) for w in wl)}}
            except Exception as ex:  # noqa: BLE001 - the error class is the observation
                out = canon_out(err_of(ex))
            finally:
                if ctxm:
                    ctxm.__exit__(None, None, None)
        reqs.append({"op": "get", "h": {"dest": "cmd", "required": required}, "names": names, "fail": fail, "single": single,
                     "pre": ["p"] if prefixed else [], "cfg": tree_to_wire_ns(tree)})
        exps.append(out)
    answers = model_answers(ctx, [(r, None, "get", None) for r in reqs])
    bad = 0
    if answers is not None:
        for rq, exp, ans in zip(reqs, exps, answers):
            ctx.count()
            if "ok" in ans:
                got = {"ok": {"cfg": canon(ans["ok"]["cfg"]), "names": ans["ok"]["todo"], "warn": ans["ok"]["warn"]}}
            else:
                got = canon_out(ans)
            if not same(got, exp):
                bad += 1
                if bad <= 2:
                    ctx.tie_break("correspondence Subcmd (get_subcommands, exhaustive small scope: model vs jsonargparse) disagrees",
                                  json.dumps({"request": rq, "real": exp, "model": got}, ensure_ascii=True)[:1900])
    ctx.extra["exhaustive_get_subcommands"] = {"cases": len(reqs), "disagreements": bad,
                                               "scope": "3 subcommands; key in {absent, None, a, b, c, '', unknown}; each section in {absent, None, {}, {x:1}}; required x fail x single x prefix"}
    return bad


def env_names_stage(ctx):
    """names of the environment variables: real get_env_var of every action of trees whose program name, subcommand names and
    dests contain '-', '.', '_' and mixed case vs the model's `envVarAt` (theorem C17_env_names gives its closed form)"""
    from jsonargparse import ArgumentParser
    from jsonargparse._formatters import get_env_var

    progs = ["app", "my-app", "Tool.py", "a_b"]
    subs = ["fit", "pre-train", "Eval", "x_y", "a.b"]
    dests = ["lr", "learning_rate", "model.depth", "Mixed-Case", "n"]
    reqs, exps = [], []
    for prog in progs:
        root = ArgumentParser(exit_on_error=False, prog=prog)
        rootname = os.path.splitext(prog)[0]   # documented: derived from prog
        level = [(root, [])]
        for depth in range(3):
            nxt = []
            for parser, path in level:
                for d in dests:
                    parser.add_argument("--" + d + str(depth), dest=d)
                if depth < 2:
                    sc = parser.add_subcommands(dest="cmd" + str(depth))
                    for n in subs[depth:depth + 3]:
                        q = ArgumentParser(exit_on_error=False)
                        sc.add_subcommand(n, q)
                        nxt.append((q, path + [n]))
                for a in parser._actions:
                    if a.dest in dests or a.dest.startswith("cmd"):
                        reqs.append({"op": "envvar", "root": rootname, "path": path, "dest": a.dest})
                        exps.append(get_env_var(parser, a))
            level = nxt
    answers = model_answers(ctx, [(r, None, "envvar", None) for r in reqs])
    bad = 0
    if answers is not None:
        for rq, exp, ans in zip(reqs, exps, answers):
            ctx.count()
            if ans.get("ok") != exp:
                bad += 1
                if bad <= 2:
                    ctx.tie_break("correspondence Subcmd (environment variable name: model vs get_env_var) disagrees",
                                  json.dumps({"request": rq, "real": exp, "model": ans}, ensure_ascii=True)[:800])
    ctx.extra["env_variable_names"] = {"cases": len(reqs), "disagreements": bad}
    return bad


def tree_to_wire_ns(t):
    """like tree_to_wire, for trees that are turned into Namespaces directly (an empty dict is an empty namespace)"""
    if isinstance(t, dict):
        return {"s": [[k, tree_to_wire_ns(v)] for k, v in t.items()]}
    return t


def direct_stage(ctx, stats):
    n = ctx.budget(320, 8000) * (2 if ctx.search_boost > 1 else 1)
    reqs = []
    spec = None
    for i in range(n):
        if spec is None or i % 3 == 0:
            spec = gen_spec(ctx.rng, ctx.rng.choice([0.0, 0.2]))
        d = gen_direct(ctx.rng, spec)
        if spec.get("aliases") and d["mode"] == "env":
            d["mode"] = "dflt"   # variable names follow the NAME of a sub-parser: trees with aliases are run without environment parsing
        env = gen_env(ctx.rng, spec, 0.3) if d["mode"] == "env" else {}
        calls, gets, nwarn = direct_run(spec, d, env)
        ctx.hist("direct_mode", d["mode"])
        top = [c for c in calls if c["path"] == () and c["depth"] == 0 and "out" in c]
        if top:
            why = direct_judge(spec, d, canon_out(top[0]["out"]))
            ctx.count()
            if why is not None and getattr(ctx, "_c17_direct", 0) < 2:
                ctx._c17_direct = getattr(ctx, "_c17_direct", 0) + 1
                ctx.violation("handle_subcommands breaks its contract: " + why, {"kind": "direct", "spec": spec, "direct": d, "out": canon_out(top[0]["out"]), "why": why})
        for c in calls:
            if c["path"] is None or c.get("layer_failed") or "out" not in c:
                stats["skipped_calls"] += 1
                continue
            reqs.append(((call_request(spec, c), canon_out(c["out"]), "handle", c), spec, d))
            for lr in layer_requests(spec, {"kind": "args", "env": env}, c):
                reqs.append((lr, spec, d))
        for g in gets:
            if g["path"] is None or "out" not in g:
                continue
            rq = get_request(spec, g)
            if rq is None:
                continue
            exp = {"ok": {"cfg": canon(sub_wire(g["out"]["ok"], g["prefix"])), "names": g["out"]["names"]}} if "ok" in g["out"] else canon_out(g["out"])
            reqs.append(((rq, exp, "get", g), spec, d))
    answers = model_answers(ctx, [r for r, _, _ in reqs])
    bad = 0
    if answers is not None:
        for (rq, spec, d), ans in zip(reqs, answers):
            req, exp, kind, rec = rq
            ctx.count()
            stats[{"handle": "handle_calls", "get": "get_calls", "layer": "layer"}[kind]] += 1
            got = model_view(kind, ans)
            if not same(got, exp):
                bad += 1
                if bad <= 3:
                    ctx.tie_break("correspondence Subcmd (direct %s call: model vs jsonargparse) disagrees" % kind,
                                  json.dumps({"request": req, "real": exp, "model": got}, ensure_ascii=True)[:1900])
    return bad


# ====================================================================== (iv) the dump of a result parsed again
def selection_of(spec, plain):
    """the selected subcommand names down the tree of a result (plain dict)"""
    out, node, cur = [], spec, plain
    while node["sub"] and isinstance(cur, dict):
        n = cur.get(node["sub"]["dest"])
        if n is None or n not in dict(node["sub"]["choices"]):
            break
        out.append(n)
        node, cur = dict(node["sub"]["choices"])[n], cur.get(n)
    return out


def reparse_hazard(spec, inp, first):
    """signature of the open finding F_REPARSE: `dump` omits the subcommand key, so the re-parse selects by "first with
    settings" among the dumped section and whatever defaults and environment hold or NAME: (a) a default config file (get_defaults
    names the first subcommand it has a section for, or the one it names) or, with environment parsing, a subcommand / config
    variable; (b) the section of a selected subcommand holds no value at all (a sub-parser without options and without a selected
    subcommand of its own): `merge_config` copies leaves, the empty section does not arrive, nothing is selected"""
    node, cur = spec, first
    while node["sub"] and isinstance(cur, dict):
        n = cur.get(node["sub"]["dest"])
        if n is None or n not in dict(node["sub"]["choices"]):
            break
        sect = {k: v for k, v in (cur.get(n) or {}).items() if not (dict(node["sub"]["choices"])[n]["sub"] and k == dict(node["sub"]["choices"])[n]["sub"]["dest"])}
        if not has_leaf(strip_keys(sect)) or not strip_keys(sect):
            return True
        node, cur = dict(node["sub"]["choices"])[n], cur.get(n)
    if has_dcf(spec):
        return True
    if spec.get("default_env") or inp["kind"] == "env":
        env = inp.get("env") or {}
        for path in all_paths(spec):
            node = node_at(spec, path)
            if node["sub"] and env_name(path, node["sub"]["dest"]) in env:
                return True
            if node["cfg"] and env_name(path, "cfg") in env:
                return True
    return False


def strip_keys(t, drop=("cfg",)):
    if isinstance(t, dict):
        return {k: strip_keys(v, drop) for k, v in t.items() if k not in drop}
    return t


def reparse_devs(spec, inp, real):
    """(iv): parse_string(dump(result)) by the same parser in the same environment must select the same subcommand at every level
    and hold the same settings (theorems C17_reparse_dump_same_selection / C17_exactly_one: the dump holds exactly one section)"""
    if "reparse" not in real or "ok" not in real["res"]:
        return []
    first = wire_to_plain(real["res"]["ok"])
    fid = F_REPARSE if reparse_hazard(spec, inp, first) else None
    rp = real["reparse"]
    if "ok" not in rp:
        return [("the dump of a successful result does not parse again: %s" % json.dumps(rp)[:160], fid)]
    second = wire_to_plain(rp["ok"])
    s1, s2 = selection_of(spec, first), selection_of(spec, second)
    if s1 != s2:
        return [("the dump of a result that selected %s parses again to the selection %s" % ("/".join(s1) or "<none>", "/".join(s2) or "<none>"), fid)]
    if strip_keys(first) != strip_keys(second):
        return [("the dump of a result parses again to different settings", fid)]
    return []


# ====================================================================== sources loaded on their own: theorem statements on the real code
def prune_leafless(t):
    """`merge_config` copies leaves: a section without leaves does not arrive"""
    if isinstance(t, dict):
        return {k: prune_leafless(v) for k, v in t.items() if has_leaf(v)}
    return t


def sources_stage(ctx, stats):
    """`ActionConfigFile.apply_config` of the real code on generated documents vs the PREDICATES of the session-2 theorems
    (driver op "losses"): a section survives iff not `loses` (C17_early_selection_exact); a `quietDeep` document arrives
    verbatim at every depth (C17_quiet_source_verbatim); the loaded tree itself vs `loadCfgArg`"""
    from jsonargparse import ActionConfigFile, Namespace
    from jsonargparse._common import parser_context

    n = ctx.budget(260, 5000) * (2 if ctx.search_boost > 1 else 1)
    reqs, reals, metas = [], [], []
    spec = None
    for i in range(n):
        if spec is None or i % 3 == 0:
            spec = gen_spec(ctx.rng, 0.0, 0.0)
            spec["default_env"] = False
            spec["cfg"] = True
        tree = gen_cfg_tree(ctx.rng, spec, 0.4, ctx.rng.choice([0.3, 0.7]), 0.9, ctx.rng.choice([0.4, 0.8]))
        built = Built(spec)
        try:
            cfg = Namespace()
            with warnings.catch_warnings():
                warnings.simplefilter("ignore")
                try:
                    with parser_context(parent_parser=built.root):   # as inside parse_args
                        ActionConfigFile.apply_config(built.root, cfg, "cfg", json.dumps(tree))
                    real = {"ok": strip_keys(wire_to_plain(enc(cfg)))}
                except Exception as ex:  # noqa: BLE001
                    real = err_of(ex)
        finally:
            built.close()
        reqs.append({"op": "losses", "p": p_wire(spec), "tree": tree_to_wire(tree)})
        reals.append(real)
        metas.append((spec, tree))
    answers = model_answers(ctx, [(r, None, "losses", None) for r in reqs])
    bad = 0
    nq = nl = 0
    if answers is not None:
        for rq, real, (spec, tree), ans in zip(reqs, reals, metas, answers):
            ctx.count()
            why = None
            names = [x for x, _ in spec["sub"]["choices"]] if spec["sub"] else []
            if "ok" in real:
                given = [x for x in names if isinstance(tree.get(x), dict) and has_leaf(tree[x])]
                survive = [x for x in given if isinstance(real["ok"].get(x), dict)]
                expect = [x for x in given if x not in ans["lost"]]
                nl += bool(ans["lost"])
                if survive != expect:
                    why = "sections that survive apply_config: %s, the exact condition of C17_early_selection_exact gives %s" % (survive, expect)
                elif ans["quietDeep"]:
                    nq += 1
                    if real["ok"] != prune_leafless(tree):
                        why = "a quiet document does not arrive verbatim (C17_quiet_source_verbatim)"
                if why is None and ("ok" not in ans["loaded"] or prune_leafless(wire_to_plain(ans["loaded"]["ok"], False)) != real["ok"]):
                    why = "loadCfgArg of the model differs from apply_config"
            elif "ok" in ans["loaded"]:
                why = "apply_config fails (%s), loadCfgArg succeeds" % json.dumps(real)[:120]
            if why:
                bad += 1
                if bad <= 2:
                    ctx.tie_break("correspondence Subcmd (sources loaded on their own: theorem predicates vs apply_config) disagrees",
                                  json.dumps({"why": why, "spec": spec, "tree": tree, "real": real, "model": ans}, ensure_ascii=True)[:1900])
    ctx.extra["sources_stage"] = {"cases": len(reqs), "quiet_documents": nq, "documents_that_lose_a_section": nl, "disagreements": bad}
    return bad


# ====================================================================== construction of the tree (add_subcommands / add_subcommand)
def construction_stage(ctx):
    """what `wf` of the model assumes is what the constructors enforce: a second add_subcommands is rejected, a name equal to the
    subcommands dest is rejected, levels must be added in level order, aliases are further keys of the SAME parser (declaration order:
    name, its aliases, next name), `dest=`/`required=` are stored as given"""
    from jsonargparse import ArgumentParser

    def fresh():
        return ArgumentParser(exit_on_error=False, prog="app")

    problems = []
    p = fresh()
    sc = p.add_subcommands(required=False, dest="mode")
    try:
        p.add_subcommands(dest="other")
        problems.append("a second add_subcommands call on one parser is accepted")
    except Exception:  # noqa: BLE001 - any rejection
        pass
    try:
        sc.add_subcommand("mode", fresh())
        problems.append("a subcommand called like the subcommands dest is accepted")
    except ValueError:
        pass
    inner = fresh()
    inner.add_subcommands(dest="cmd")
    try:
        sc.add_subcommand("deep", inner)
        problems.append("a parser that already has subcommands is accepted as a subcommand (level order)")
    except ValueError:
        pass
    a, b = fresh(), fresh()
    sc.add_subcommand("fit", a, aliases=("f", "train"))
    sc.add_subcommand("test", b)
    if list(sc.choices.keys()) != ["fit", "f", "train", "test"] or sc.choices["f"] is not a or sc.choices["train"] is not a:
        problems.append("aliases are not further keys of the same parser in declaration order: %s" % list(sc.choices.keys()))
    if sc.dest != "mode" or sc._required is not False or "mode" in p.required_args:
        problems.append("dest/required of add_subcommands are not stored as given")
    p2 = fresh()
    sc2 = p2.add_subcommands()
    if sc2.dest != "subcommand" or sc2._required is not True or "subcommand" not in p2.required_args:
        problems.append("defaults of add_subcommands are not dest='subcommand', required=True")
    p3 = fresh()
    sc3 = p3.add_subcommands(dest="cmd")
    try:
        sc3.add_subcommand("a", fresh(), aliases=("cmd",))
        problems.append("an alias equal to the subcommands dest is accepted (repaired by a6b5b04)")
    except ValueError:
        pass
    for w in problems[:2]:
        ctx.violation("construction of a subcommand tree: " + w, {"kind": "construction", "what": w})
    ctx.count(9)
    ctx.extra["construction_stage"] = {"checks": 9, "problems": problems}
    return len(problems)


def replay(ctx: Ctx, body):
    repo_python_path()
    rp = body["replay"]
    if rp.get("kind") == "demo":
        print("run:", rp.get("run"))
        return 1
    if rp.get("kind") == "direct":
        calls, _, _ = direct_run(rp["spec"], rp["direct"], {})
        top = [c for c in calls if c["path"] == () and c["depth"] == 0 and "out" in c]
        why = direct_judge(rp["spec"], rp["direct"], canon_out(top[0]["out"])) if top else "no call recorded"
        print("handle_subcommands on", json.dumps(rp["direct"]["tree"]), "->", json.dumps(canon_out(top[0]["out"]) if top else None)[:400])
        print("contract:", why)
        return 1 if why else 0
    if "spec" not in rp:
        print(json.dumps(rp)[:2000])
        return 1
    real = real_run(rp["spec"], rp["input"], record=False, reparse=True)
    devs, ref = judge_all(rp["spec"], rp["input"], real)
    print("reference:", ref[0])
    print("real result:", json.dumps(wire_to_plain(real["res"]["ok"]) if "ok" in real["res"] else real["res"]))
    if "reparse" in real:
        print("dump:", json.dumps(real.get("dump")))
        print("dump parsed again:", json.dumps(wire_to_plain(real["reparse"]["ok"]) if "ok" in real["reparse"] else real["reparse"]))
    print("deviations:", [d for d, _ in devs])
    return 1 if devs else 0

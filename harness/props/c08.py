"""C08 — Parse, validate, dump and instantiate never modify what they are given.

Pipeline
(1) regenerate Gen/Brackets (every @contextmanager, variable, place of the reset), Gen/HeapSites (copy policy per
    container kind probed on the live code; copy sites of the public operations from the ast) and build
    Props/C08 (frame theorems for dump/validate/merge_config/strip_unknown/parse_object/instantiate, declared
    defaults, fresh objects, brackets).  A reverted fix, a dropped clone or try/finally changes a table and
    breaks a `tie_*` / `C08_brackets_needed` proof.
(2) correspondence, real code vs Lean model (Drv/Heap) on the same values:
    a. recreate_branches / Namespace.clone / strip_meta on generated trees (lists, tuples, sets, dicts,
       namespaces, OrderedDicts, tuple subclasses, arbitrarily nested): which containers of the result are the
       argument's own objects — compared exactly with the model's result;
    b. adapt_typehints (parse and serialise direction) on generated typed values whose leaves all change:
       the set of the caller's containers whose content changed — compared exactly with the model's `chg`;
    c. every parser-level operation below: the caller-side containers that changed must be inside the
       model's write list restricted to the argument (which the theorems confine to `sharedMut`).
(3) oracle on the real implementation, independent of the model: deep snapshot (value, type and id() of every
    nested container, tuples and sets included) of every argument, of every action.default and parser._defaults,
    of parser.get_defaults() (by value), os.getcwd(), os.environ, vars(argparse), sys.argv and the context
    variables, before vs after each real call of parse_args / parse_object (dict and Namespace, with and
    without cfg_base) / parse_string / parse_env / validate / dump (all formats, skip_default) / save (single and
    multi file, into a mkdtemp dir) / merge_config / strip_unknown / instantiate_classes (twice: all objects
    pairwise distinct) / get_defaults / format_help — on accepted configurations and on inputs that make the
    call raise midway.  Any difference is a violation, unless its signature is the open finding
    C08-ordereddict-shared (an OrderedDict or a tuple subclass on the path to the changed container).
    Histories: per scenario a random sequence (4-8 steps) of operations on a fresh parser in which results are fed back as
    arguments and the caller's own mutable objects are made declared defaults (set_defaults); before/after EVERY step
    everything the caller holds (own objects + all earlier results) is snapshotted; the whole history is also run through
    the model (`runHist`, theorem C08_history_exact).  Declared defaults of every container kind (set, frozenset, dict/list
    subclasses, dataclass instance, lazy_instance, Path objects, OrderedDict, namedtuple) through add_argument(default=) and
    set_defaults; exotic container kinds inside Any-typed configuration values; the empty configuration for every operation.
(4) replay of the repaired findings F10, F11, F29 and of the open finding's witness.
"""
from __future__ import annotations

import argparse
import atexit
import collections
import copy
import enum
import json
import os
import shutil
import sys
import tempfile

from ..lib.common import Ctx, MachineryError, repo_python_path

MANIFEST = {
    "engine": "E11-Heap",
    "technique": "Lean 4 frame theorems over identity-tagged trees (write sets disjoint from the arguments), per operation and for "
                 "histories of any length (induction over the operation list, results fed back as arguments) + regenerated copy-policy, "
                 "copy-site, live entry-point-probe and bracket tables + write-set correspondence (single operations and whole "
                 "histories) + deep-snapshot oracle around every real call",
    "text": "Theorems in lean/Jap/Props/C08.lean prove for all trees and counters that dump, validate (also with branch=), merge_config, "
            "strip_unknown, parse_object, parse_args (argv list and namespace argument), parse_string/path/env, save (single and "
            "multifile) and instantiate_classes (the empty configuration included) write only identities they created themselves "
            "(exactly: at most the containers recreate_branches still shares, i.e. the open OrderedDict finding), that get_defaults hands "
            "out copies, that two instantiations create disjoint object sets, one per spec, that every `finally` bracket restores its "
            "variable for every body and outcome, and - C08_history_exact/partial/continues/all_held - that in a history of any length over these "
            "operations plus set_defaults/add_argument(default=) (the parser keeps the caller's object: modelled so) no object the caller "
            "holds when an operation starts (own objects AND every earlier result) and no declared default is ever written, whichever "
            "earlier results are fed back as arguments. The model's "
            "copy policy, copy sites (ast), strip_meta-of-empty behaviour and 21 live entry-point probes and the bracket table are "
            "regenerated from /repo each run and pinned by tie_* theorems (an entry point that cannot be probed is a broken tie); model "
            "and code are compared on generated values, operations and histories; the property itself is evaluated by deep snapshots "
            "around every real call.",
    "level_note": "Trusted: Lean kernel; axioms propext/Quot.sound/Classical.choice only; the extractors (ast + live probes); the snapshot "
                  "harness. The mutators of the model are worst case (write every container of the working copy). C08_history_all_held "
                  "protects everything the caller holds at the moment an operation starts, results of all earlier operations included "
                  "(two invariants carried through every primitive: sharedMut = [] and all identities below the counter); dict-subclass "
                  "values are a kind of their own (probed: copied with their entries, written in place), F29/F31 kept as regression "
                  "theorems. Outside: aliasing inside one value, objects of user classes, link compute_fn bodies, jsonnet/ext_vars, "
                  "fsspec/url paths. os.environ, sys.argv and the working directory are locations of the history machine "
                  "(C08_history_process_state: unchanged / restored after any history whose operations may each raise before, inside "
                  "or after their context managers), tied to Gen/Brackets (reset in finally) and to 25 live process-state probes "
                  "(Gen/HeapSites.processProbes, successful and failing calls); the oracle observes them around every real call.",
}

FINDING = "C08-ordereddict-shared"
MODNAME = "c08_userclasses"

MODULE_SRC = '''
import enum
from typing import Dict, List, Optional, Set, Tuple
from jsonargparse import lazy_instance

CREATED = []


class Color(enum.Enum):
    red = 1
    green = 2
    blue = 3


class Base:
    def __init__(self, x: int = 1):
        CREATED.append(self)
        self.x = x


class Sub(Base):
    def __init__(self, x: int = 2, y: Tuple[int, List[int]] = (1, [2]), inner: Optional[Base] = None):
        super().__init__(x)
        self.y = y
        self.inner = inner


class Other(Base):
    def __init__(self, z: Optional[Dict[str, List[Color]]] = None, x: int = 3):
        super().__init__(x)
        self.z = z


class Boom(Base):
    """raises while being instantiated when x < 0"""

    def __init__(self, x: int = 0):
        if x < 0:
            raise RuntimeError("boom")
        super().__init__(x)


class Holder:
    def __init__(self, a: Base = lazy_instance(Sub, x=5), items: Optional[List[Base]] = None, t: Tuple[int, Dict[str, List[int]]] = (0, {"k": [1]})):
        CREATED.append(self)
        self.a = a
        self.items = items
        self.t = t
'''

_TMP = {}


def tmp_root():
    """temp package dir with the user classes + a scratch area; removed at exit"""
    if "root" not in _TMP:
        root = tempfile.mkdtemp(prefix="c08_")
        _TMP["root"] = root
        with open(os.path.join(root, MODNAME + ".py"), "w") as f:
            f.write(MODULE_SRC)
        os.makedirs(os.path.join(root, "files"))
        with open(os.path.join(root, "files", "exists.txt"), "w") as f:
            f.write("1\n2\n")
        sys.path.insert(0, root)
        atexit.register(lambda: shutil.rmtree(root, ignore_errors=True))
    return _TMP["root"]


def usermod():
    tmp_root()
    import importlib

    return importlib.import_module(MODNAME)


NT = collections.namedtuple("NT", ["x", "y"])


class MyList(list):
    """a list subclass (recreate_branches copies it into a plain list)"""


class MyDict(dict):
    """a plain dict subclass: its instances carry a `__dict__` of their own (F31: recreate_branches iterated that one)"""


def exotic_value(rng):
    """container kinds beyond list/tuple/dict for an Any-typed slot: dict and list subclasses, frozenset, set of tuples,
    and the two kinds of the open finding (OrderedDict, namedtuple)"""
    return rng.choice([
        lambda: collections.defaultdict(list, a=[1, [2]], b=(3, [4])),
        lambda: MyList([[1], {"k": [2]}, (3, [4])]),
        lambda: frozenset({(1, 2), (3,)}),
        lambda: {(1, (2, 3)), (4,)},
        lambda: [collections.defaultdict(dict, k={"j": [1]}), MyList([5])],
        lambda: collections.OrderedDict(a=[1, (2, [3])]),
        lambda: NT(1, [2, [3]]),
        lambda: collections.Counter(a=2),
    ])()


# ====================================================================== snapshots
def kind_of(x):
    """model kind of a container, None for atoms"""
    from jsonargparse import Namespace

    if isinstance(x, Namespace):
        return "ns"
    if isinstance(x, collections.OrderedDict):
        return "odict"
    if isinstance(x, dict):
        return "dict" if type(x) is dict else "dictsub"
    if isinstance(x, list):
        return "list"
    if isinstance(x, tuple):
        if len(x) == 0:
            return None  # the empty tuple is a shared immutable singleton: an atom
        return "tuple" if type(x) is tuple else "ntuple"
    if isinstance(x, (set, frozenset)):
        if len(x) == 0 and isinstance(x, frozenset):
            return None
        return "set"
    return None


def children(x, kind):
    """[(key, child)] in a deterministic order"""
    if kind == "ns":
        return list(vars(x).items())
    if kind in ("dict", "odict", "dictsub"):
        return [(k if isinstance(k, str) else repr(k), v) for k, v in x.items()]
    if kind == "set":
        return [("", v) for v in sorted(x, key=repr)]
    return [("", v) for v in x]


def atom_desc(x):
    r = object.__repr__(x) if type(x).__repr__ is object.__repr__ else repr(x)
    if " at 0x" in r:
        return ("obj", type(x).__qualname__, id(x))
    if isinstance(x, os.PathLike) and hasattr(x, "relative"):
        return ("path", type(x).__qualname__, str(x), getattr(x, "_cwd", None), getattr(x, "_mode", None))
    return ("atom", type(x).__qualname__, r)


class Registry:
    """the containers of some values in traversal order; entry n (1-based) is the model identity n"""

    def __init__(self):
        self.objs = []      # strong references: ids stay valid
        self.kinds = []
        self.types = []
        self.shallow = []
        self.index = {}     # id -> 1-based index
        self.parent = {}    # index -> parent index
        self.kidx = []      # per container: [(key, child index or None)] at snapshot time
        self.roots = {}

    def add(self, name, x):
        self.roots[name] = self._walk(x, 0)
        return self.roots[name]

    def _walk(self, x, parent):
        kind = kind_of(x)
        if kind is None:
            return None
        if id(x) in self.index:
            return self.index[id(x)]  # aliasing inside one value: outside the model, recorded once
        self.objs.append(x)
        self.kinds.append(kind)
        self.types.append(type(x))
        self.shallow.append(None)
        self.kidx.append(None)
        n = len(self.objs)
        self.index[id(x)] = n
        self.parent[n] = parent
        rec, kidx = [], []
        for key, ch in children(x, kind):
            ci = self._walk(ch, n)
            rec.append((key, ("ref", id(ch)) if ci is not None else atom_desc(ch)))
            kidx.append((key, ci))
        self.shallow[n - 1] = rec
        self.kidx[n - 1] = kidx
        return n

    def changed(self):
        """1-based indices of the containers whose type or shallow content differs now"""
        out = []
        for n, x in enumerate(self.objs, 1):
            if type(x) is not self.types[n - 1]:
                out.append(n)
                continue
            kind = self.kinds[n - 1]
            now = []
            try:
                for key, ch in children(x, kind):
                    now.append((key, ("ref", id(ch)) if kind_of(ch) is not None else atom_desc(ch)))
            except Exception:  # noqa: BLE001
                now = None
            if now != self.shallow[n - 1]:
                out.append(n)
        return out

    def path_kinds(self, n):
        """kinds from the root down to container n"""
        ks = []
        while n:
            ks.append(self.kinds[n - 1])
            n = self.parent[n]
        return ks[::-1]

    def describe(self, n):
        x = self.objs[n - 1]
        return {"index": n, "kind": self.kinds[n - 1], "path_kinds": self.path_kinds(n), "was": repr(self.shallow[n - 1])[:300], "now": repr(x)[:300]}

    def tree(self, n, _seen=None):
        """model tree (JSON for Drv/Heap) of container n as it was at snapshot time"""
        _seen = set() if _seen is None else _seen
        _seen.add(n)
        kids = []
        for key, ci in self.kidx[n - 1]:
            # a container met a second time (aliasing inside one value) is outside the model: an atom there
            kids.append([key, self.tree(ci, _seen) if ci is not None and ci not in _seen else 0])
        return {"k": self.kinds[n - 1], "i": n, "c": kids}


def canon(v, depth=0):
    """value-level canonical form (no identities)"""
    from jsonargparse import Namespace

    if depth > 40:
        return "<deep>"
    k = kind_of(v)
    if k is None:
        d = atom_desc(v)
        return (d[0], d[1]) + tuple(d[2:] if d[0] != "obj" else ())
    items = [(key, canon(ch, depth + 1)) for key, ch in children(v, k)]
    if k == "ns":
        items.sort()
    return (k, type(v).__qualname__, tuple(items))


CTX_VARS = ["parent_parser", "parser_capture", "defaults_cache", "lenient_check", "load_value_mode", "class_instantiators", "nested_links"]


def global_state():
    from jsonargparse import _common, _util

    try:
        cwd = os.getcwd()
    except OSError:
        cwd = "<deleted directory>"
    st = {
        "cwd": cwd,
        "environ": dict(os.environ),
        "argparse": dict(vars(argparse)),
        "sys.argv": (id(sys.argv), list(sys.argv)),
        "current_path_dir": _util.current_path_dir.get(),
    }
    for name in CTX_VARS:
        st["ctx." + name] = _common.parser_context_vars[name].get()
    return st


def global_diff(a, b):
    out = []
    for key in a:
        if key == "argparse":
            for n in set(a[key]) | set(b[key]):
                if a[key].get(n, None) is not b[key].get(n, None):
                    out.append("argparse.%s" % n)
        elif key.startswith("ctx.") or key == "current_path_dir":
            if a[key] is not b[key] and a[key] != b[key]:
                out.append(key)
        elif a[key] != b[key]:
            out.append(key)
    return out


def restore_globals(st):
    """undo what a defective call left behind so that later cases are judged on their own"""
    from ..lib.common import VERIF

    try:
        os.chdir(st["cwd"])
    except OSError:
        os.chdir(VERIF)
    os.environ.clear()
    os.environ.update(st["environ"])
    for n, v in st["argparse"].items():
        if getattr(argparse, n, None) is not v:
            setattr(argparse, n, v)
    from jsonargparse import _common, _util

    if _util.current_path_dir.get() != st["current_path_dir"]:
        _util.current_path_dir.set(st["current_path_dir"])
    for name in CTX_VARS:
        var = _common.parser_context_vars[name]
        if var.get() is not st["ctx." + name] and var.get() != st["ctx." + name]:
            var.set(st["ctx." + name])


def all_parsers(parser):
    out = [parser]
    sub = getattr(parser, "_subcommands_action", None)
    if sub is not None:
        for sp in sub._name_parser_map.values():
            out.extend(all_parsers(sp))
    return out


def declared_registry(parser):
    reg = Registry()
    for pi, p in enumerate(all_parsers(parser)):
        for ai, action in enumerate(p._actions):
            reg.add("p%d.action[%s].default" % (pi, action.dest), action.default)
        reg.add("p%d._defaults" % pi, p._defaults)
    return reg


def declared_atoms(parser):
    """value-level view of the declared defaults (atoms included)"""
    out = {}
    for pi, p in enumerate(all_parsers(parser)):
        for a in p._actions:
            out[(pi, id(a), a.dest)] = canon(a.default)
        out[(pi, "_defaults")] = canon(p._defaults)
    return out


def defaults_by_value(parser):
    try:
        return ("ok", canon(parser.get_defaults()))
    except BaseException as ex:  # noqa: BLE001
        return ("raises", type(ex).__name__)


# ====================================================================== type grammar
LEAVES = ["int", "str", "float", "bool", "Color", "OptInt", "Path"]


def build_type(d):
    from typing import Any, Dict, List, Optional, Set, Tuple, Union

    from jsonargparse.typing import Path_fr

    m = usermod()
    if isinstance(d, str):
        return {"int": int, "str": str, "float": float, "bool": bool, "Color": m.Color, "OptInt": Optional[int], "Path": Path_fr,
                "Any": Any, "Base": m.Base, "Holder": m.Holder}[d]
    h, rest = d[0], d[1:]
    if h == "List":
        return List[build_type(rest[0])]
    if h == "Tuple":
        return Tuple[tuple(build_type(x) for x in rest)]
    if h == "TupleE":
        return Tuple[build_type(rest[0]), ...]
    if h == "Set":
        return Set[build_type(rest[0])]
    if h == "Dict":
        return Dict[str, build_type(rest[0])]
    if h == "ODict":
        return collections.OrderedDict[str, build_type(rest[0])]
    if h == "Optional":
        return Optional[build_type(rest[0])]
    if h == "Union":
        return Union[tuple(build_type(x) for x in rest)]
    raise MachineryError("bad type descriptor %r" % (d,))


def hashable_type(d):
    if isinstance(d, str):
        return d in ("int", "str", "float", "bool", "Color", "OptInt")
    return d[0] in ("Tuple", "TupleE") and all(hashable_type(x) for x in d[1:])


def gen_type(rng, depth=0, odict=False, classes=True):
    """random type descriptor; containers nested inside tuples, sets, dicts and lists"""
    r = rng.random()
    if depth >= 3 or r < 0.22:
        return rng.choice(LEAVES)
    if classes and depth <= 1 and r < 0.34:
        return rng.choice(["Base", "Base", "Holder", ["List", "Base"], ["Dict", "Base"], ["Optional", "Base"], ["Tuple", "Base", "int"],
                           ["Dict", "Holder"], ["List", "Holder"], ["Optional", "Holder"]])
    if r < 0.40 and depth <= 1:
        return "Any"
    if odict and r < 0.50:
        return ["ODict", gen_type(rng, depth + 1, False, False)]
    k = rng.choice(["List", "List", "Tuple", "Tuple", "Tuple", "TupleE", "Set", "Dict", "Dict", "Optional", "Union"])
    if k == "List":
        return ["List", gen_type(rng, depth + 1, odict, False)]
    if k == "Tuple":
        return ["Tuple"] + [gen_type(rng, depth + 1, odict, False) for _ in range(rng.randint(1, 3))]
    if k == "TupleE":
        return ["TupleE", gen_type(rng, depth + 1, odict, False)]
    if k == "Set":
        for _ in range(6):
            t = gen_type(rng, depth + 1, False, False)
            if hashable_type(t):
                return ["Set", t]
        return ["Set", "int"]
    if k == "Dict":
        return ["Dict", gen_type(rng, depth + 1, odict, False)]
    if k == "Optional":
        t = gen_type(rng, depth + 1, odict, False)
        return t if t in ("OptInt", "Any") or (isinstance(t, list) and t[0] in ("Optional", "Union")) else ["Optional", t]
    # Union of a leaf and a container
    return ["Union", rng.choice(["int", "bool"]), ["List", gen_type(rng, depth + 2, odict, False)]]


def has_odict(d):
    return isinstance(d, list) and (d[0] == "ODict" or any(has_odict(x) for x in d[1:]))


def exists_file():
    return os.path.join(tmp_root(), "files", "exists.txt")


def gen_spec(rng, depth=0, boom=None):
    """a class_path/init_args spec (input form) for a Base-typed slot"""
    cls = rng.choice(["Base", "Sub", "Sub", "Other"]) if boom is None else "Boom"
    init = {}
    if cls == "Boom":
        init["x"] = boom
    elif rng.random() < 0.7:
        init["x"] = rng.randint(0, 9)
    if cls == "Sub":
        if rng.random() < 0.5:
            init["y"] = [rng.randint(0, 5), [rng.randint(0, 5) for _ in range(rng.randint(0, 2))]]
        if depth < 1 and rng.random() < 0.4:
            init["inner"] = gen_spec(rng, depth + 1)
    if cls == "Other" and rng.random() < 0.6:
        init["z"] = {"k%d" % i: [rng.choice(["red", "green", "blue"]) for _ in range(rng.randint(0, 2))] for i in range(rng.randint(0, 2))}
    out = {"class_path": MODNAME + "." + cls}
    if init:
        out["init_args"] = init
    return out


def gen_value(rng, d, depth=0):
    """valid input form (JSON-like) for a type descriptor"""
    if isinstance(d, str):
        if d == "int":
            return rng.randint(-5, 99)
        if d == "str":
            return rng.choice(["a", "bc", "x y", "red", "7"])
        if d == "float":
            return rng.choice([0.5, 1.25, -2.0, 3])
        if d == "bool":
            return rng.random() < 0.5
        if d == "Color":
            return rng.choice(["red", "green", "blue"])
        if d == "OptInt":
            return rng.choice([None, 3, 4])
        if d == "Path":
            return exists_file()
        if d == "Any":
            return rng.choice([1, "s", [1, [2, "x"]], {"a": [1, {"b": [2]}]}, None, [[1, 2], {"k": "v"}]])
        if d == "Base":
            return gen_spec(rng)
        if d == "Holder":
            init = {}
            if rng.random() < 0.5:
                init["a"] = gen_spec(rng)
            if rng.random() < 0.5:
                init["items"] = [gen_spec(rng, 1) for _ in range(rng.randint(0, 2))]
            if rng.random() < 0.4:
                init["t"] = [rng.randint(0, 3), {"k": [rng.randint(0, 3)], "j": []}]
            out = {"class_path": MODNAME + ".Holder"}
            if init:
                out["init_args"] = init
            return out
        raise MachineryError("bad leaf " + d)
    h, rest = d[0], d[1:]
    if h == "List":
        return [gen_value(rng, rest[0], depth + 1) for _ in range(rng.randint(0 if depth else 1, 3))]
    if h == "Tuple":
        return [gen_value(rng, x, depth + 1) for x in rest]
    if h == "TupleE":
        return [gen_value(rng, rest[0], depth + 1) for _ in range(rng.randint(1, 3))]
    if h == "Set":
        vals, seen = [], set()
        for _ in range(rng.randint(1, 3)):
            v = gen_value(rng, rest[0], depth + 1)
            key = json.dumps(v, sort_keys=True)
            if key not in seen:
                seen.add(key)
                vals.append(v)
        return vals
    if h in ("Dict", "ODict"):
        return {"k%d" % i: gen_value(rng, rest[0], depth + 1) for i in range(rng.randint(0 if depth else 1, 3))}
    if h == "Optional":
        return None if rng.random() < 0.15 else gen_value(rng, rest[0], depth)
    if h == "Union":
        return gen_value(rng, rng.choice(rest), depth + 1)
    raise MachineryError("bad type descriptor %r" % (d,))


BAD_LEAF = {"int": "zz", "float": "zz", "bool": "zz", "Color": "purple", "OptInt": "zz", "str": 12, "Path": "/nonexistent/c08/zz"}


def corrupt(rng, d, v):
    """(corrupted value, True) with one leaf deep inside replaced by an invalid one — the LAST possible position,
    so that everything before it has already been adapted when the call raises — or (v, False)"""
    if isinstance(d, str):
        if d in BAD_LEAF:
            return BAD_LEAF[d], True
        if d == "Base":
            w = copy.deepcopy(v)
            w.setdefault("init_args", {})["x"] = "zz"
            return w, True
        if d == "Holder":
            w = copy.deepcopy(v)
            w.setdefault("init_args", {})["items"] = [gen_spec(rng, 1), {"class_path": MODNAME + ".Sub", "init_args": {"y": [1, [2, "zz"]]}}]
            return w, True
        return v, False
    h, rest = d[0], d[1:]
    if v is None:
        return v, False
    if h in ("List", "TupleE", "Set"):
        if not isinstance(v, list) or not v:
            return v, False
        for i in range(len(v) - 1, -1, -1):
            w, ok = corrupt(rng, rest[0], v[i])
            if ok:
                return v[:i] + [w] + v[i + 1 :], True
        return v, False
    if h == "Tuple":
        if not isinstance(v, list):
            return v, False
        for i in range(len(v) - 1, -1, -1):
            w, ok = corrupt(rng, rest[i], v[i])
            if ok:
                return v[:i] + [w] + v[i + 1 :], True
        return v, False
    if h in ("Dict", "ODict"):
        if not isinstance(v, dict) or not v:
            return v, False
        for key in reversed(list(v)):
            w, ok = corrupt(rng, rest[0], v[key])
            if ok:
                out = dict(v)
                out[key] = w
                return out, True
        return v, False
    if h == "Optional":
        return corrupt(rng, rest[0], v)
    if h == "Union":
        if isinstance(v, list):
            return corrupt(rng, rest[1], v)
        return "zz", True
    return v, False


# ====================================================================== scenarios
def gen_scenario(rng, odict=False):
    """a parser description + a valid input + an input invalid deep inside"""
    n = rng.randint(2, 4)
    args, inp = [], {}
    for i in range(n):
        name = "a%d" % i if rng.random() < 0.8 else "g.b%d" % i
        t = gen_type(rng, 0, odict)
        a = {"name": name, "type": t, "default": "none"}
        r = rng.random()
        if r < 0.45:
            a["default"] = {"value": gen_value(rng, t)}                # given in input form (not normalised: lists for tuples …)
        elif r < 0.6 and t in ("Base", ["Optional", "Base"]):
            a["default"] = {"lazy": rng.choice(["Sub", "Other", "Base"]), "x": rng.randint(0, 9)}
        if rng.random() < 0.8 or a["default"] == "none":
            inp[name] = gen_value(rng, t)
        args.append(a)
    bad = None
    order = list(range(n))
    rng.shuffle(order)
    for i in order:
        a = args[i]
        base = inp.get(a["name"])
        if base is None:
            base = gen_value(rng, a["type"])
        w, ok = corrupt(rng, a["type"], base)
        if ok:
            bad = dict(inp)
            bad[a["name"]] = w
            break
    sc = {"args": args, "input": inp, "bad": bad, "seed": rng.randint(0, 10**9)}
    if rng.random() < 0.25:
        sc["default_config"] = rng.choice(["valid", "valid", "invalid"])
    if rng.random() < 0.15:
        sc["subcommand"] = True
    if rng.random() < 0.3:
        sc["group"] = True   # a class group whose parameters all have defaults: instantiated even from an empty configuration
    return sc


def nest(flat):
    """{'g.b1': v} -> {'g': {'b1': v}}"""
    out = {}
    for k, v in flat.items():
        cur = out
        parts = k.split(".")
        for p in parts[:-1]:
            cur = cur.setdefault(p, {})
        cur[parts[-1]] = copy.deepcopy(v)
    return out


def to_namespace(d):
    from jsonargparse import Namespace

    ns = Namespace()
    for k, v in d.items():
        ns[k] = to_namespace(v) if isinstance(v, dict) and k == "g" else copy.deepcopy(v)
    return ns


def build_parser(sc, workdir):
    from jsonargparse import ActionConfigFile, ArgumentParser, lazy_instance

    m = usermod()
    kw = {}
    if sc.get("default_config"):
        path = os.path.join(workdir, "defaults_%s.yaml" % sc["default_config"])
        content = nest(sc["input"] if sc["default_config"] == "valid" or not sc.get("bad") else sc["bad"])
        with open(path, "w") as f:
            json.dump(content, f)
        kw["default_config_files"] = [path]
    p = ArgumentParser(exit_on_error=False, prog="app", env_prefix="APP", default_env=False, **kw)
    p.add_argument("--cfg", action=ActionConfigFile)
    for a in sc["args"]:
        akw = {"type": build_type(a["type"])}
        d = a["default"]
        if d != "none":
            if "lazy" in d:
                akw["default"] = lazy_instance(getattr(m, d["lazy"]), x=d["x"])
            else:
                akw["default"] = copy.deepcopy(d["value"])
        p.add_argument("--" + a["name"], **akw)
    if sc.get("group"):
        p.add_class_arguments(m.Base, "grp")
    if sc.get("subcommand"):
        from typing import Dict, List, Tuple

        sub = ArgumentParser(exit_on_error=False)
        sub.add_argument("--s", type=List[Tuple[int, Dict[str, List[int]]]], default=[[1, {"k": [2]}]])
        sc2 = p.add_subcommands(required=False)
        sc2.add_subcommand("run", sub)
    return p


def to_argv(flat):
    return ["--%s=%s" % (k, v if isinstance(v, str) and not _looks_structured(v) else json.dumps(v)) for k, v in flat.items()]


def _looks_structured(s):
    return False


# ====================================================================== observed calls
class Observation:
    def __init__(self, label, outcome, arg_changes, decl_changes, glob_changes, defaults_changed, registry, result):
        self.label = label
        self.outcome = outcome
        self.arg_changes = arg_changes
        self.decl_changes = decl_changes
        self.glob_changes = glob_changes
        self.defaults_changed = defaults_changed
        self.registry = registry
        self.result = result

    @property
    def clean(self):
        return not (self.arg_changes or self.decl_changes or self.glob_changes or self.defaults_changed)


def finding_signature(reg, n):
    """is container n an OrderedDict / tuple subclass, or below one?"""
    ks = reg.path_kinds(n)
    return "odict" in ks or "ntuple" in ks[:-1] or ks[-1] == "odict"


_LAST_DV = {}


def observe(parser, label, fn, args, track_defaults=True):
    """snapshot, call, snapshot, compare.  `args`: name -> object handed to the call"""
    from ..lib.common import VERIF

    try:
        os.getcwd()
    except OSError:
        os.chdir(VERIF)  # a defective earlier call left the process in a directory that is gone
    reg = Registry()
    for name, x in args.items():
        reg.add(name, x)
    decl = declared_registry(parser)
    decl_atoms = declared_atoms(parser)
    g0 = global_state()
    # the answer of get_defaults() after the previous observed call is the "before" of this one
    dv0 = _LAST_DV.get(id(parser)) if track_defaults else None
    if track_defaults and dv0 is None:
        dv0 = defaults_by_value(parser)
    try:
        result = fn()
        outcome = "ok"
    except SystemExit as ex:
        result, outcome = None, "SystemExit(%s)" % (ex.code,)
    except BaseException as ex:  # noqa: BLE001 - the call may fail, that is part of the quantifier
        result, outcome = None, type(ex).__name__
    arg_changes = reg.changed()
    decl_changes = decl.changed()
    if not decl_changes:
        now = declared_atoms(parser)
        # actions added lazily by a parse (e.g. --print_shtab) are not declared defaults that changed
        if any(now.get(key, None) != val for key, val in decl_atoms.items()):
            decl_changes = [0]
    dv1 = defaults_by_value(parser) if track_defaults else None
    if track_defaults:
        _LAST_DV.clear()
        _LAST_DV[id(parser)] = dv1
        _LAST_DV["keep"] = parser
    g1 = global_state()
    glob_changes = global_diff(g0, g1)
    if glob_changes:
        restore_globals(g0)
    return Observation(label, outcome, arg_changes, [(n, decl) for n in decl_changes], glob_changes, dv0 != dv1, reg, result)


def judge(ctx, ob, replay, model_ops=None):
    """oracle: any change is a violation unless it carries the open finding's signature.  Returns True when clean or known."""
    ctx.count()
    ctx.hist("ops", ob.label.split(":")[0])
    ctx.hist("outcome", "ok" if ob.outcome == "ok" else "raises")
    if ob.clean:
        return True
    known = True
    details = []
    for n in ob.arg_changes:
        details.append({"what": "argument", **ob.registry.describe(n)})
        if not finding_signature(ob.registry, n):
            known = False
    for n, decl in ob.decl_changes:
        if n == 0:
            details.append({"what": "declared default (atom level)"})
            known = False
            continue
        details.append({"what": "declared default", **decl.describe(n)})
        if not finding_signature(decl, n):
            known = False
    for gname in ob.glob_changes:
        details.append({"what": "global", "name": gname})
        known = False
    if ob.defaults_changed and not ob.decl_changes:
        details.append({"what": "get_defaults() answers differently after the call"})
        known = False
    if known and ctx.is_open(FINDING):
        ctx.known(FINDING, "%s rewrites a container reachable through an OrderedDict / tuple subclass (%s)" % (ob.label, details[0].get("path_kinds")))
        return True
    body = dict(replay)
    body.setdefault("kind", "oracle")
    body.update({"op": ob.label, "outcome": ob.outcome, "changes": details[:6]})
    ctx.violation("%s modified %s" % (ob.label, ", ".join(sorted({d["what"] for d in details}))), body)
    return False


# ====================================================================== model side
def model_case(op, reg, roots, k=None, **extra):
    line = {"op": op, "k": k or (len(reg.objs) + 1)}
    names = list(roots)
    if names:
        line["t"] = reg.tree(reg.roots[names[0]]) if reg.roots.get(names[0]) else 0
    if len(names) > 1:
        line["t2"] = reg.tree(reg.roots[names[1]]) if reg.roots.get(names[1]) else None
    line.update(extra)
    return line


class ModelBatch:
    """collect driver lines during the run, evaluate them in one batch at the end"""

    def __init__(self):
        self.lines = []
        self.checks = []   # (line index, callable(model_out) -> None or disagreement text, replay info)

    def add(self, line, check, info):
        self.lines.append(line)
        self.checks.append((len(self.lines) - 1, check, info))

    def run(self, ctx):
        if not self.lines:
            return []
        try:
            outs = ctx.driver("Heap", self.lines)
        except MachineryError as ex:
            if ctx.lean_ok:
                raise
            ctx.tie_break("correspondence E11 not runnable (model does not build)", str(ex))
            return []
        bad = []
        for idx, check, info in self.checks:
            out = outs[idx]
            if "error" in out:
                raise MachineryError("driver Heap: %s on %s" % (out["error"], json.dumps(self.lines[idx])[:300]))
            msg = check(out)
            ctx.count()
            if msg:
                bad.append({"disagreement": msg, "line": self.lines[idx], "model": {k: out[k] for k in ("writes", "shared", "chg", "objs")}, "info": info})
        return bad


def shape_of_result(result, reg):
    """containers of a real result in traversal order: (kind, index of the argument container it IS, or 0 when new)"""
    out = []
    seen = set()

    def walk(x):
        k = kind_of(x)
        if k is None:
            return
        if id(x) in seen:
            return
        seen.add(id(x))
        out.append([k, reg.index.get(id(x), 0)])
        for _, ch in children(x, k):
            walk(ch)

    walk(result)
    return out


def shape_of_model(tree, k):
    out = []

    def walk(t):
        if not isinstance(t, dict):
            return
        out.append([t["k"], t["i"] if t["i"] < k else 0])
        for _, ch in t["c"]:
            walk(ch)

    walk(tree)
    return out


# ---------------------------------------------------------------------- a. recreate_branches
def gen_tree(rng, depth=0, hashable=False, finding=False):
    """random Python value over all container kinds"""
    from jsonargparse import Namespace

    r = rng.random()
    if depth >= 4 or r < 0.25:
        return rng.choice([0, 1, "s", None, 2.5, True])
    kinds = ["tuple", "tuple", "ntuple"] if hashable else ["list", "list", "tuple", "tuple", "set", "dict", "dict", "ns", "odict", "ntuple", "dictsub", "dictsub"]
    if not finding:
        kinds = [k for k in kinds if k not in ("odict", "ntuple")] or ["tuple"]
    k = rng.choice(kinds)
    n = rng.randint(0 if depth else 1, 3)
    if k == "list":
        return [gen_tree(rng, depth + 1, hashable, finding) for _ in range(n)]
    if k == "tuple":
        return tuple(gen_tree(rng, depth + 1, hashable, finding) for _ in range(n))
    if k == "ntuple":
        return NT(gen_tree(rng, depth + 1, hashable, finding), gen_tree(rng, depth + 1, hashable, finding))
    if k == "set":
        return {gen_tree(rng, depth + 2, True, finding) for _ in range(n)}
    keys = rng.sample(["a", "b", "c", "__path__", "class_path", "__orig__"], min(n, 3))
    if k == "dict":
        return {key: gen_tree(rng, depth + 1, False, finding) for key in keys}
    if k == "dictsub":
        items = [(key, gen_tree(rng, depth + 1, False, finding)) for key in keys]
        return MyDict(items) if rng.random() < 0.6 else collections.defaultdict(list, items)
    if k == "odict":
        return collections.OrderedDict((key, gen_tree(rng, depth + 1, False, finding)) for key in keys)
    ns = Namespace()
    for key in keys:
        vars(ns)[key] = gen_tree(rng, depth + 1, False, finding)
    return ns


def correspond_recreate(ctx, batch, n_cases):
    from jsonargparse import Namespace
    from jsonargparse._namespace import recreate_branches, strip_meta

    for i in range(n_cases):
        finding = ctx.rng.random() < 0.4
        x = gen_tree(ctx.rng, 0, False, finding)
        if kind_of(x) is None:
            continue
        which = ctx.rng.choice(["recreate", "strip_meta", "clone"])
        if which == "clone" and not isinstance(x, Namespace):
            which = "recreate"
        reg = Registry()
        reg.add("x", x)
        before = canon(x)
        if which == "recreate":
            res = recreate_branches(x)
        elif which == "strip_meta":
            res = strip_meta(x)
        else:
            res = x.clone()
        real_shape = shape_of_result(res, reg)
        changed = reg.changed()
        k = len(reg.objs) + 1
        ctx.hist("recreate", which)
        if len(reg.objs) >= 3:
            ctx.nontrivial(("recreate", repr(before)[:200]))

        def check(out, real_shape=real_shape, k=k, changed=changed):
            if changed:
                return "recreate_branches modified its argument: %s" % changed
            ms = shape_of_model(out["val"], k)
            if ms != real_shape:
                return "sharing shape differs: real %s model %s" % (real_shape[:12], ms[:12])
            return None

        batch.add(model_case(which, reg, ["x"]), check, {"kind": "recreate", "which": which, "value": repr(x)[:400]})


# ---------------------------------------------------------------------- b. adapt_typehints
def gen_changing(rng, depth=0, finding=False, hashable=False):
    """(type, value) such that the parse-direction adaptation changes every leaf ('1' -> 1) and every container holds >= 1 element"""
    from typing import Dict, List, Set, Tuple

    r = rng.random()
    if depth >= 3 or r < 0.2:
        return int, str(rng.randint(0, 9))
    kinds = ["tuple"] if hashable else ["list", "list", "tuple", "tuple", "dict", "set", "dictsub"] + (["odict", "ntuple"] if finding else [])
    k = rng.choice(kinds)
    if k == "list":
        t, v = gen_changing(rng, depth + 1, finding)
        vals = [v] + [regen(rng, t, v) for _ in range(rng.randint(0, 2))]
        return List[t], vals
    if k in ("tuple", "ntuple"):
        t1, v1 = gen_changing(rng, depth + 1, finding, hashable)
        t2, v2 = gen_changing(rng, depth + 1, finding, hashable)
        return Tuple[t1, t2], (NT(v1, v2) if k == "ntuple" else (v1, v2))
    if k == "set":
        t, v = gen_changing(rng, depth + 2, False, True)
        return Set[t], {v}
    t, v = gen_changing(rng, depth + 1, finding)
    items = [("a", v)] + ([("b", regen(rng, t, v))] if rng.random() < 0.5 else [])
    if k == "odict":
        return Dict[str, t], collections.OrderedDict(items)
    if k == "dictsub":
        return Dict[str, t], MyDict(items)
    return Dict[str, t], dict(items)


def regen(rng, t, v):
    """another value of the same shape (deep copy with fresh containers)"""
    return copy.deepcopy(v)


def gen_serialising(rng, depth=0, finding=False, hashable=False):
    """(type, value) such that serialisation changes every leaf (Enum member -> name)"""
    from typing import Dict, List, Set, Tuple

    m = usermod()
    r = rng.random()
    if depth >= 3 or r < 0.2:
        return m.Color, rng.choice(list(m.Color))
    kinds = ["tuple"] if hashable else ["list", "list", "tuple", "tuple", "dict", "set", "dictsub"] + (["odict", "ntuple"] if finding else [])
    k = rng.choice(kinds)
    if k == "list":
        t, v = gen_serialising(rng, depth + 1, finding)
        return List[t], [v] + [copy.deepcopy(v) for _ in range(rng.randint(0, 2))]
    if k in ("tuple", "ntuple"):
        t1, v1 = gen_serialising(rng, depth + 1, finding, hashable)
        t2, v2 = gen_serialising(rng, depth + 1, finding, hashable)
        return Tuple[t1, t2], (NT(v1, v2) if k == "ntuple" else (v1, v2))
    if k == "set":
        t, v = gen_serialising(rng, depth + 2, False, True)
        return Set[t], {v}
    t, v = gen_serialising(rng, depth + 1, finding)
    items = [("a", v)] + ([("b", copy.deepcopy(v))] if rng.random() < 0.5 else [])
    if k == "odict":
        return Dict[str, t], collections.OrderedDict(items)
    if k == "dictsub":
        return Dict[str, t], collections.defaultdict(list, items)
    return Dict[str, t], dict(items)


def correspond_adapt(ctx, batch, n_cases):
    from jsonargparse._typehints import adapt_typehints

    for i in range(n_cases):
        finding = ctx.rng.random() < 0.4
        ser = ctx.rng.random() < 0.5
        t, v = (gen_serialising if ser else gen_changing)(ctx.rng, 0, finding)
        if kind_of(v) is None:
            continue
        reg = Registry()
        reg.add("v", v)
        try:
            res = adapt_typehints(v, t, serialize=ser)
        except Exception as ex:  # noqa: BLE001
            raise MachineryError("adapt_typehints rejected a generated value: %r %r %r" % (t, v, ex))
        changed = sorted(reg.changed())
        same_root = res is v
        ctx.hist("adapt", "ser" if ser else "parse")
        if len(reg.objs) >= 2:
            ctx.nontrivial(("adapt", ser, repr(t)[:160]))

        def check(out, changed=changed, same_root=same_root, n=len(reg.objs)):
            want = sorted(x for x in out["chg"] if x <= n)
            if want != changed:
                return "changed containers differ: real %s model %s" % (changed, want)
            wr = sorted(set(x for x in out["writes"] if x <= n))
            if not set(changed) <= set(wr):
                return "a changed container is not in the model's write list: real %s writes %s" % (changed, wr)
            m_same = isinstance(out["val"], dict) and out["val"]["i"] <= n
            if m_same != same_root:
                return "identity of the result: real %s model %s" % ("argument itself" if same_root else "new object", "argument itself" if m_same else "new object")
            return None

        batch.add(model_case("ser" if ser else "adapt", reg, ["v"]), check, {"kind": "adapt", "serialize": ser, "type": repr(t), "value": repr(v)[:400]})


# ---------------------------------------------------------------------- exhaustive chains of container kinds
NT1 = collections.namedtuple("NT1", ["x"])


def chain_value(kinds, leaf):
    """kinds[0](kinds[1](… leaf)) — every container holds exactly one element; None if a set would hold something unhashable"""
    from jsonargparse import Namespace

    v = leaf
    for k in reversed(kinds):
        if k == "list":
            v = [v]
        elif k == "tuple":
            v = (v,)
        elif k == "ntuple":
            v = NT1(v)
        elif k == "set":
            try:
                v = {v}
            except TypeError:
                return None
        elif k == "dict":
            v = {"a": v}
        elif k == "odict":
            v = collections.OrderedDict(a=v)
        elif k == "dictsub":
            v = MyDict(a=v)
        elif k == "ns":
            v = Namespace(a=v)
    return v


def chain_type(kinds, leaf_type):
    from typing import Dict, List, Set, Tuple

    t = leaf_type
    for k in reversed(kinds):
        t = {"list": List[t], "tuple": Tuple[t], "ntuple": Tuple[t], "set": Set[t], "dict": Dict[str, t], "odict": Dict[str, t], "dictsub": Dict[str, t]}[k]
    return t


def exhaustive_chains(ctx, batch, depth):
    """all chains of container kinds up to `depth`: recreate_branches over 8 kinds, adapt_typehints (both directions) over 7"""
    import itertools

    from jsonargparse._namespace import recreate_branches
    from jsonargparse._typehints import adapt_typehints

    m = usermod()
    n_rec = n_ad = 0
    for d in range(1, depth + 1):
        for kinds in itertools.product(["list", "tuple", "set", "dict", "ns", "odict", "ntuple", "dictsub"], repeat=d):
            v = chain_value(kinds, 0)
            if v is None:
                continue
            reg = Registry()
            reg.add("x", v)
            res = recreate_branches(v)
            real_shape = shape_of_result(res, reg)
            k = len(reg.objs) + 1
            n_rec += 1

            def check(out, real_shape=real_shape, k=k, changed=reg.changed()):
                if changed:
                    return "recreate_branches modified its argument"
                ms = shape_of_model(out["val"], k)
                return None if ms == real_shape else "sharing shape differs: real %s model %s" % (real_shape, ms)

            batch.add(model_case("recreate", reg, ["x"]), check, {"kind": "recreate", "which": "chain", "value": repr(v)[:300]})
        for kinds in itertools.product(["list", "tuple", "set", "dict", "odict", "ntuple", "dictsub"], repeat=d):
            for ser in (False, True):
                v = chain_value(kinds, m.Color.red if ser else "1")
                if v is None:
                    continue
                t = chain_type(kinds, m.Color if ser else int)
                reg = Registry()
                reg.add("v", v)
                try:
                    res = adapt_typehints(v, t, serialize=ser)
                except Exception as ex:  # noqa: BLE001
                    raise MachineryError("adapt_typehints rejected a chain value: %r %r %r" % (t, v, ex))
                changed = sorted(reg.changed())
                same_root = res is v
                n_ad += 1

                def check(out, changed=changed, same_root=same_root, n=len(reg.objs)):
                    want = sorted(x for x in out["chg"] if x <= n)
                    if want != changed:
                        return "changed containers differ: real %s model %s" % (changed, want)
                    m_same = isinstance(out["val"], dict) and out["val"]["i"] <= n
                    if m_same != same_root:
                        return "identity of the result differs"
                    return None

                batch.add(model_case("ser" if ser else "adapt", reg, ["v"]), check, {"kind": "adapt", "serialize": ser, "type": repr(t), "value": repr(v)[:300]})
    ctx.extra["exhaustive_chains"] = {"max_depth": depth, "recreate_cases": n_rec, "adapt_cases": n_ad}


# ---------------------------------------------------------------------- c. parser-level operations
def check_writes(ob, names):
    """model's caller-side writes must cover the real changes; by the theorems they are inside `shared`"""
    changed = sorted(ob.arg_changes)
    n = len(ob.registry.objs)

    def check(out):
        caller = sorted(set(x for x in out["writes"] if x <= n))
        if not set(caller) <= set(out["shared"]):
            return "model writes caller cells outside sharedMut (contradicts the proved frame theorem): %s" % caller
        if not set(changed) <= set(caller):
            return "the real call changed caller containers %s, the model allows only %s" % (changed, caller)
        return None

    return check


def correspond_op(batch, op, ob, names, replay, **extra):
    if any(ob.registry.roots.get(nm) is None for nm in names):
        return
    batch.add(model_case(op, ob.registry, names, **extra), check_writes(ob, names), {"kind": "op", "op": ob.label, "scenario": replay})


def result_sharing(batch, op, ob, names, replay, **extra):
    """which argument containers ARE part of the result (merge_config, strip_unknown): compare with the model"""
    if ob.outcome != "ok" or any(ob.registry.roots.get(nm) is None for nm in names):
        return
    shared_real = sorted(idx for kind, idx in shape_of_result(ob.result, ob.registry) if idx)
    n = len(ob.registry.objs)

    def check(out):
        ms = sorted(i for kind, i in shape_of_model(out["val"], n + 1) if i)
        if ms != shared_real:
            return "argument containers that are part of the result: real %s model %s" % (shared_real, ms)
        return None

    batch.add(model_case(op, ob.registry, names, **extra), check, {"kind": "result-sharing", "op": ob.label, "scenario": replay})


def known_leaf_keys(parser, cfg):
    """the leaf keys strip_unknown keeps: those with an action (the library's own lookup) and the meta keys;
    spelled as the stored attribute names (clash-marked) joined by dots, which is how the model addresses them"""
    from jsonargparse import Namespace
    from jsonargparse._actions import _find_action
    from jsonargparse._namespace import is_meta_key

    out = []

    def walk(ns, stored, plain):
        for key, val in vars(ns).items():
            pk = key.lstrip("\u200b")
            if isinstance(val, Namespace) and vars(val):
                walk(val, stored + key + ".", plain + pk + ".")
            elif isinstance(val, Namespace):
                out.append(stored + key)  # an empty namespace has no leaf: nothing is deleted there
            elif _find_action(parser, plain + pk) is not None or is_meta_key(plain + pk):
                out.append(stored + key)

    walk(cfg, "", "")
    return out


def user_objects(x, acc=None, seen=None, depth=0):
    """instances of the temp module's classes reachable from x (through containers and object attributes)"""
    m = usermod()
    acc = [] if acc is None else acc
    seen = set() if seen is None else seen
    if id(x) in seen or depth > 30:
        return acc
    seen.add(id(x))
    if isinstance(x, (m.Base, m.Holder)):
        acc.append(x)
        for v in vars(x).values():
            user_objects(v, acc, seen, depth + 1)
        return acc
    k = kind_of(x)
    if k is not None:
        for _, ch in children(x, k):
            user_objects(ch, acc, seen, depth + 1)
    return acc


def live_signature_defaults():
    """the live objects that are signature defaults of the temp module's classes (lazy_instance(...)): they must never be
    part of an instantiated configuration — a spec derived from them has to be instantiated afresh"""
    import inspect

    m = usermod()
    out = []
    for cls in (m.Base, m.Sub, m.Other, m.Boom, m.Holder):
        for prm in inspect.signature(cls.__init__).parameters.values():
            if isinstance(prm.default, (m.Base, m.Holder)):
                out.append(prm.default)
    return out


def count_specs(x):
    """class_path specs in an accepted configuration (namespaces/dicts with a class_path entry)"""
    from jsonargparse import Namespace

    n = 0
    k = kind_of(x)
    if k is None:
        return 0
    if isinstance(x, (Namespace, dict)) and "class_path" in (vars(x) if isinstance(x, Namespace) else x):
        n += 1
    for _, ch in children(x, k):
        n += count_specs(ch)
    return n


def run_scenario(ctx, batch, sc, origin, only_op=None):
    """all operations on one generated parser; returns number of violations reported"""
    from jsonargparse import Namespace

    m = usermod()
    workdir = tempfile.mkdtemp(prefix="w_", dir=tmp_root())
    rng = __import__("random").Random(sc["seed"])
    replay = {"scenario": sc, "origin": origin}
    bad0 = len(ctx.violations) + getattr(ctx, "violations_total", 0)
    try:
        parser = build_parser(sc, workdir)
    except Exception as ex:  # noqa: BLE001 - e.g. an invalid default for a subclass type: not a case
        ctx.hist("scenario", "unbuildable:" + type(ex).__name__)
        return 0
    ctx.hist("scenario", "built")
    flat_ok, flat_bad = sc["input"], sc.get("bad")
    has_od = any(has_odict(a["type"]) for a in sc["args"])

    def want(op):
        return only_op is None or only_op == op

    def J(ob, op=None):
        return judge(ctx, ob, dict(replay, only_op=op or ob.label))

    # ---- get_defaults / format_help (no config argument: declared defaults + globals)
    if want("get_defaults"):
        ob = observe(parser, "get_defaults", lambda: parser.get_defaults(), {})
        J(ob)
        if ob.outcome == "ok":
            # writes to the namespace handed out must not reach the declared defaults
            res = ob.result
            decl = declared_registry(parser)
            shared = [i for kind, i in shape_of_result(res, decl) if i and kind in ("list", "dict", "ns", "odict", "dictsub")]
            if shared and not all(finding_signature(decl, i) for i in shared):
                ctx.violation("get_defaults() hands out the declared default object itself", dict(replay, kind="oracle", op="get_defaults", only_op="get_defaults", changes=[decl.describe(i) for i in shared[:4]]))
            elif shared and ctx.is_open(FINDING):
                ctx.known(FINDING, "get_defaults() hands out the declared OrderedDict default itself")
            # model: get_defaults over the declared defaults
            dreg = Registry()
            ds = []
            for action in parser._actions:
                if action.default is not None and action.default != argparse.SUPPRESS and kind_of(action.default) is not None and action.dest != "cfg":
                    dreg.add(action.dest, action.default)
            for dest, root in dreg.roots.items():
                if root:
                    ds.append([dest, dreg.tree(root)])
            if ds and not sc.get("default_config"):
                n = len(dreg.objs)
                shared_real = sorted(idx for kind, idx in shape_of_result(res, dreg) if idx)

                def check(out, shared_real=shared_real, n=n):
                    ms = sorted(i for kind, i in shape_of_model(out["val"], n + 1) if i)
                    if ms != shared_real:
                        return "declared-default containers that are part of get_defaults(): real %s model %s" % (shared_real, ms)
                    caller = [x for x in out["writes"] if x <= n]
                    if not set(caller) <= set(out["shared"]):
                        return "model writes declared defaults outside sharedMut: %s" % caller
                    return None

                batch.add({"op": "get_defaults", "ds": ds, "k": n + 1}, check, {"kind": "get_defaults", "scenario": replay})
    if want("format_help"):
        J(observe(parser, "format_help", lambda: parser.format_help(), {}))

    # ---- parse_* : valid and invalid inputs
    inputs = [("ok", flat_ok)] + ([("bad", flat_bad)] if flat_bad else [])
    cfg = None
    for tag, flat in inputs:
        nested = nest(flat)
        if want("parse_object"):
            arg = copy.deepcopy(nested)
            ob = observe(parser, "parse_object:dict:" + tag, lambda arg=arg: parser.parse_object(arg), {"cfg_obj": arg})
            J(ob, "parse_object")
            correspond_op(batch, "parse_object", ob, ["cfg_obj"], replay)
            if tag == "ok" and ob.outcome == "ok":
                cfg = ob.result
            arg = to_namespace(nested)
            ob = observe(parser, "parse_object:namespace:" + tag, lambda arg=arg: parser.parse_object(arg), {"cfg_obj": arg})
            J(ob, "parse_object")
            correspond_op(batch, "parse_object", ob, ["cfg_obj"], replay)
            arg = copy.deepcopy(nested)
            ob = observe(parser, "parse_object:dict:defaults=False:" + tag, lambda arg=arg: parser.parse_object(arg, defaults=False), {"cfg_obj": arg})
            J(ob, "parse_object")
            if cfg is not None and tag == "ok":
                arg, base = cfg.clone(), cfg.clone()
                ob = observe(parser, "parse_object:accepted+base:defaults=False", lambda arg=arg, base=base: parser.parse_object(arg, cfg_base=base, defaults=False), {"cfg_obj": arg, "cfg_base": base})
                J(ob, "parse_object")
            if cfg is not None and tag == "ok":
                # an accepted configuration (tuples, sets, enum members inside) as object and as base
                arg, base = cfg.clone(), cfg.clone()
                ob = observe(parser, "parse_object:accepted+base", lambda arg=arg, base=base: parser.parse_object(arg, cfg_base=base), {"cfg_obj": arg, "cfg_base": base})
                J(ob, "parse_object")
                correspond_op(batch, "parse_object", ob, ["cfg_obj", "cfg_base"], replay)
        if want("parse_args"):
            argv = to_argv(flat)
            if sc.get("subcommand") and tag == "ok":
                argv = argv + ["run", "--s=[[3, {\"a\": [4]}]]"]
            ob = observe(parser, "parse_args:" + tag, lambda argv=argv: parser.parse_args(argv), {"args": argv})
            J(ob, "parse_args")
            if cfg is not None and tag == "ok":
                nsarg = cfg.clone()
                ob = observe(parser, "parse_args:namespace", lambda argv=argv, nsarg=nsarg: parser.parse_args(argv[:1], namespace=nsarg), {"args": argv, "namespace": nsarg})
                J(ob, "parse_args")
                correspond_op(batch, "parse_args", ob, ["args", "namespace"], replay)
                # the same without the parser's defaults (nothing to merge the namespace into: seed C08-2B)
                nsarg = cfg.clone()
                ob = observe(parser, "parse_args:namespace:defaults=False", lambda argv=argv, nsarg=nsarg: parser.parse_args(argv[:1], namespace=nsarg, defaults=False), {"args": argv, "namespace": nsarg})
                J(ob, "parse_args")
            # through a config file in another directory (change_to_path_dir around the load)
            cdir = tempfile.mkdtemp(prefix="cfgdir_", dir=workdir)
            cpath = os.path.join(cdir, "c.json")
            with open(cpath, "w") as f:
                json.dump(nested, f)
            argv2 = ["--cfg", cpath]
            ob = observe(parser, "parse_args:cfgfile:" + tag, lambda argv2=argv2: parser.parse_args(argv2), {"args": argv2})
            J(ob, "parse_args")
            J(observe(parser, "parse_path:" + tag, lambda cpath=cpath: parser.parse_path(cpath), {}), "parse_args")
            old_argv = sys.argv
            sys.argv = ["app"] + argv
            try:
                ob = observe(parser, "parse_args:sys.argv:" + tag, lambda: parser.parse_args(), {"sys.argv": sys.argv})
                J(ob, "parse_args")
            finally:
                sys.argv = old_argv
        if want("parse_string"):
            text = json.dumps(nested)
            J(observe(parser, "parse_string:" + tag, lambda text=text: parser.parse_string(text), {}), "parse_string")
        if want("parse_env"):
            env = {"APP_" + k.upper().replace(".", "__"): (v if isinstance(v, str) else json.dumps(v)) for k, v in flat.items()}
            ob = observe(parser, "parse_env:" + tag, lambda env=env: parser.parse_env(env), {"env": env})
            J(ob, "parse_env")
            os.environ.update({k: v for k, v in env.items()})
            try:
                ob = observe(parser, "parse_env:os.environ:" + tag, lambda: parser.parse_env(), {})
                J(ob, "parse_env")
            finally:
                for k in env:
                    os.environ.pop(k, None)

    if cfg is None:
        try:
            cfg = parser.parse_object(copy.deepcopy(nest(flat_ok)))
        except BaseException:  # noqa: BLE001
            ctx.hist("scenario", "input-rejected")
            shutil.rmtree(workdir, ignore_errors=True)
            return 0
    if count_specs(cfg) or any(kind_of(v) for v in cfg.values()):
        ctx.nontrivial(json.dumps(sc["args"], sort_keys=True)[:300] + "|" + json.dumps(sc["input"], sort_keys=True, default=repr)[:300])

    # configurations for the operations that take one: accepted; caller-built (raw input form); invalid deep inside
    cfgs = [("accepted", cfg.clone())]
    try:
        cfgs.append(("raw", to_namespace(nest({**{a["name"]: None for a in sc["args"]}, **flat_ok}))))
    except Exception:  # noqa: BLE001
        pass
    if flat_bad:
        b = cfg.clone()
        for k, v in flat_bad.items():
            if flat_ok.get(k) != v:
                b[k] = copy.deepcopy(v)
        cfgs.append(("invalid", b))
    if has_od:
        # the tuple-subclass variant of the open finding: a caller-built namedtuple where a 2-tuple is expected
        c = cfg.clone()
        for key, v in list(c.items()):
            if type(v) is tuple and len(v) == 2:
                c[key] = NT(*v)
                cfgs.append(("namedtuple", c))
                break
    any_args = [a["name"] for a in sc["args"] if a["type"] == "Any"]
    if any_args:
        c = cfg.clone()
        for name in any_args:
            c[name] = exotic_value(rng)
        cfgs.append(("exotic", c))
        ctx.hist("container-kinds", "exotic-config")
    # the empty configuration (strip_meta handed it back itself before fix F29)
    cfgs.append(("empty", Namespace()))
    # a configuration whose instantiation raises midway (after other objects were built)
    boom = None
    for a in sc["args"]:
        if a["type"] in ("Base", ["Optional", "Base"]):
            boom = cfg.clone()
            boom[a["name"]] = Namespace(class_path=MODNAME + ".Boom", init_args=Namespace(x=-1))
    for tag, c in cfgs:
        if want("validate"):
            arg = c.clone()
            ob = observe(parser, "validate:" + tag, lambda arg=arg: parser.validate(arg), {"cfg": arg})
            J(ob, "validate")
            correspond_op(batch, "validate", ob, ["cfg"], replay)
            if isinstance(c.get("g"), Namespace):
                arg = c.clone().g
                ob = observe(parser, "validate:branch:" + tag, lambda arg=arg: parser.validate(arg, branch="g"), {"cfg": arg})
                J(ob, "validate")
                correspond_op(batch, "validate_branch", ob, ["cfg"], replay, branch="g")
        if want("dump"):
            for fmt, kw in (("yaml", {}), ("json", {}), ("json_indented", {"skip_none": False}), ("parser_mode", {"skip_default": True}), ("yaml", {"skip_validation": True, "yaml_comments": False})):
                arg = c.clone()
                ob = observe(parser, "dump:%s:%s%s" % (tag, fmt, ":" + ",".join(sorted(kw)) if kw else ""), lambda arg=arg, fmt=fmt, kw=kw: parser.dump(arg, format=fmt, **kw), {"cfg": arg})
                J(ob, "dump")
                correspond_op(batch, "dump", ob, ["cfg"], replay)
        if want("save"):
            for multifile in (False, True):
                arg = c.clone()
                sdir = tempfile.mkdtemp(prefix="save_", dir=workdir)
                path = os.path.join(sdir, "out.yaml")
                ob = observe(parser, "save:%s:%s" % (tag, "multi" if multifile else "single"), lambda arg=arg, path=path, multifile=multifile: parser.save(arg, path, multifile=multifile, overwrite=True), {"cfg": arg})
                J(ob, "save")
                correspond_op(batch, "save", ob, ["cfg"], replay, multifile=multifile)
        if want("strip_unknown"):
            arg = c.clone()
            arg["zz_unknown"] = [1, (2, [3])]
            ob = observe(parser, "strip_unknown:" + tag, lambda arg=arg: parser.strip_unknown(arg), {"cfg": arg})
            J(ob, "strip_unknown")
            known = known_leaf_keys(parser, arg)
            correspond_op(batch, "strip_unknown", ob, ["cfg"], replay, known=known)
            result_sharing(batch, "strip_unknown", ob, ["cfg"], replay, known=known)
        if want("merge_config"):
            a1, a2 = c.clone(), cfg.clone()
            ob = observe(parser, "merge_config:%s->accepted" % tag, lambda a1=a1, a2=a2: parser.merge_config(a1, a2), {"cfg_from": a1, "cfg_to": a2})
            J(ob, "merge_config")
            correspond_op(batch, "merge", ob, ["cfg_from", "cfg_to"], replay)
            if tag == "accepted":
                result_sharing(batch, "merge", ob, ["cfg_from", "cfg_to"], replay)
    if want("save") and sc.get("group"):
        # a configuration holding a value loaded from its own file (`__path__` meta): multifile save replaces it by the file
        # name — in its clone, never in the caller's configuration
        vdir = tempfile.mkdtemp(prefix="val_", dir=workdir)
        vpath = os.path.join(vdir, "value.json")
        with open(vpath, "w") as f:
            json.dump({"x": 4}, f)
        try:
            cmeta = parser.parse_args(["--grp=" + vpath], with_meta=True)
        except BaseException:  # noqa: BLE001 - e.g. other required arguments
            cmeta = None
        if cmeta is not None:
            for multifile in (True, False):
                arg = cmeta.clone()
                sdir = tempfile.mkdtemp(prefix="savem_", dir=workdir)
                ob = observe(parser, "save:loaded-from-file:%s" % ("multi" if multifile else "single"), lambda arg=arg, sdir=sdir, multifile=multifile: parser.save(arg, os.path.join(sdir, "out.yaml"), multifile=multifile, overwrite=True), {"cfg": arg})
                J(ob, "save")
            arg = cmeta.clone()
            J(observe(parser, "dump:loaded-from-file", lambda arg=arg: parser.dump(arg), {"cfg": arg}), "save")
            ctx.hist("save-with-meta", "__path__" if "__path__" in repr(cmeta) else "no-meta")
    if want("instantiate_classes"):
        for tag, c in cfgs[:1] + ([("boom", boom)] if boom is not None else []) + cfgs[2:]:
            arg = c.clone() if tag != "empty" else Namespace()
            n0 = len(m.CREATED)
            ob1 = observe(parser, "instantiate_classes:" + tag, lambda arg=arg: parser.instantiate_classes(arg), {"cfg": arg})
            n1 = len(m.CREATED)
            J(ob1, "instantiate_classes")
            correspond_op(batch, "instantiate", ob1, ["cfg"], replay)
            ob2 = observe(parser, "instantiate_classes:second:" + tag, lambda arg=arg: parser.instantiate_classes(arg), {"cfg": arg})
            J(ob2, "instantiate_classes")
            if ob1.outcome == "ok" and ob2.outcome == "ok":
                o1, o2 = user_objects(ob1.result), user_objects(ob2.result)
                nspec_cfg = count_specs(arg)
                nspec = nspec_cfg + (1 if sc.get("group") else 0)   # the class group is instantiated from any configuration
                ctx.hist("specs", min(nspec, 6))
                common = {id(x) for x in o1} & {id(x) for x in o2}
                live = {id(x) for x in live_signature_defaults()}
                problem = None
                if live & ({id(x) for x in o1} | {id(x) for x in o2}):
                    problem = "an instantiated configuration holds the live signature default object (lazy_instance) instead of a new one"
                elif common:
                    problem = "two instantiations share %d object(s)" % len(common)
                elif len({id(x) for x in o1}) != nspec or len({id(x) for x in o2}) != nspec:
                    problem = "%d specs but %d / %d distinct objects" % (nspec, len({id(x) for x in o1}), len({id(x) for x in o2}))
                elif n1 - n0 != nspec:
                    problem = "%d specs but %d constructor calls" % (nspec, n1 - n0)
                ctx.count()
                if problem:
                    ctx.violation("instantiate_classes: " + problem, dict(replay, kind="oracle", op="instantiate_classes:fresh", only_op="instantiate_classes", problem=problem))
                # model: one fresh object per spec
                if ob1.registry.roots.get("cfg"):
                    def check(out, nspec=nspec_cfg):
                        if len(out["objs"]) != nspec:
                            return "number of objects: model %d, real config has %d specs" % (len(out["objs"]), nspec)
                        return None
                    batch.add(model_case("instantiate", ob1.registry, ["cfg"]), check, {"kind": "instantiate-count", "scenario": replay})
    if want("history"):
        try:
            run_history(ctx, batch, sc, cfg, rng, workdir, replay)
        except MachineryError:
            raise
    shutil.rmtree(workdir, ignore_errors=True)
    return len(ctx.violations) + getattr(ctx, "violations_total", 0) - bad0


# ====================================================================== histories
def run_history(ctx, batch, sc, cfg, rng, workdir, replay):
    """a random sequence of operations on a FRESH parser of the scenario; results are fed back as arguments; before and
    after every step EVERYTHING the caller holds (its own objects and every earlier result) is snapshotted.
    Includes set_defaults / add_argument(default=) with the caller's own mutable objects: they must stay as they are
    through the whole history although the parser keeps them as declared defaults."""
    from jsonargparse import Namespace

    import warnings

    try:
        parser = build_parser(sc, workdir)
    except Exception:  # noqa: BLE001
        return
    warnings.filterwarnings("ignore", message=r"(?s).*Unable to serialize instance.*")   # dumping an instantiated result warns: not the point here
    J = lambda ob: judge(ctx, ob, dict(replay, only_op="history"))  # noqa: E731
    flat = sc["input"]
    raw = None
    try:
        raw = to_namespace(nest({**{a["name"]: None for a in sc["args"]}, **flat}))
    except Exception:  # noqa: BLE001
        pass
    argv = to_argv(flat)
    # the caller's own objects: an accepted config, a caller-built one, an argv list, an env mapping, values to become defaults
    pool = [cfg.clone(), raw if raw is not None else cfg.clone(), argv]
    givens = {}
    for a in sc["args"]:
        if a["name"] in flat and kind_of(flat[a["name"]]) is not None and "." not in a["name"]:
            givens[a["name"]] = copy.deepcopy(flat[a["name"]])
    pool.append(givens)
    n_initial = len(pool)
    reg0 = Registry()
    for i, x in enumerate(pool):
        reg0.add("p%d" % i, x)
    # declared defaults of the parser, as the model's `ds`
    ds = []
    dreg_names = []
    for action in parser._actions:
        if action.default is not None and action.default != argparse.SUPPRESS and kind_of(action.default) is not None and action.dest != "cfg":
            root = reg0.add("default:" + action.dest, action.default)
            if root:
                ds.append([action.dest, reg0.tree(root)])
                dreg_names.append(action.dest)
    n_ids = len(reg0.objs)
    ops_model = []
    steps = rng.randint(4, 8)
    did_set = False

    def held():
        return {"h%d" % i: x for i, x in enumerate(pool) if x is not None}

    def pick_ns():
        idx = [i for i, x in enumerate(pool) if isinstance(x, Namespace)]
        return rng.choice(idx)

    for step in range(steps):
        kind = rng.choice(["dump", "validate", "merge", "strip_unknown", "instantiate", "parse_object", "parse_object_base", "parse_args",
                           "parse_args_ns", "parse_text", "save", "get_defaults", "set_default", "set_default"])
        a = pick_ns()
        b = pick_ns()
        res_holder = {}
        mop = None
        if kind == "dump":
            fn, mop, hands = (lambda a=a: parser.dump(pool[a])), {"o": "dump", "a": a}, False
        elif kind == "validate":
            fn, mop, hands = (lambda a=a: parser.validate(pool[a])), {"o": "validate", "a": a}, False
        elif kind == "merge":
            fn, mop, hands = (lambda a=a, b=b: parser.merge_config(pool[a], pool[b])), {"o": "merge", "a": a, "b": b}, True
        elif kind == "strip_unknown":
            known = known_leaf_keys(parser, pool[a])
            fn, mop, hands = (lambda a=a: parser.strip_unknown(pool[a])), {"o": "strip_unknown", "a": a, "known": known}, True
        elif kind == "instantiate":
            fn, mop, hands = (lambda a=a: parser.instantiate_classes(pool[a])), {"o": "instantiate", "a": a}, True
        elif kind == "parse_object":
            fn, mop, hands = (lambda a=a: parser.parse_object(pool[a])), {"o": "parse_object", "a": a}, True
        elif kind == "parse_object_base":
            fn, mop, hands = (lambda a=a, b=b: parser.parse_object(pool[a], cfg_base=pool[b])), {"o": "parse_object", "a": a, "b": b}, True
        elif kind == "parse_args":
            fn, mop, hands = (lambda: parser.parse_args(pool[2])), {"o": "parse_args", "a": 2}, True
        elif kind == "parse_args_ns":
            fn, mop, hands = (lambda a=a: parser.parse_args(pool[2][:1], namespace=pool[a])), {"o": "parse_args", "a": 2, "b": a}, True
        elif kind == "parse_text":
            text = json.dumps(nest(flat))
            fn, mop, hands = (lambda text=text: parser.parse_string(text)), {"o": "parse_text", "shape": 0}, True
        elif kind == "save":
            mf = rng.random() < 0.5
            path = os.path.join(tempfile.mkdtemp(prefix="hs_", dir=workdir), "o.yaml")
            fn, mop, hands = (lambda a=a, mf=mf, path=path: parser.save(pool[a], path, multifile=mf, overwrite=True)), {"o": "save", "a": a, "multifile": mf}, False
        elif kind == "get_defaults":
            fn, mop, hands = (lambda: parser.get_defaults()), {"o": "get_defaults"}, True
        else:
            if not givens:
                continue
            did_set = True
            fn, mop, hands = (lambda: parser.set_defaults(pool[3])), None, False
        is_set = kind == "set_default"
        if is_set:
            # the declared defaults change by design; what must not change is everything the caller holds
            reg = Registry()
            for name, x in held().items():
                reg.add(name, x)
            g0 = global_state()
            try:
                fn()
                outcome = "ok"
            except BaseException as ex:  # noqa: BLE001
                outcome = type(ex).__name__
            _LAST_DV.clear()
            ob = Observation("history:set_defaults", outcome, reg.changed(), [], global_diff(g0, global_state()), False, reg, None)
            if outcome == "ok":
                for dest in givens:
                    ops_model.append({"o": "set_default", "s": dest, "a": 3})   # model: the held dict's values; the dict itself is index 3
        else:
            ob = observe(parser, "history:" + kind, fn, held(), track_defaults=False)
            ops_model.append(mop)
        ctx.hist("history-ops", kind)
        J(ob)
        if hands and not is_set:
            pool.append(ob.result if ob.outcome == "ok" and isinstance(ob.result, Namespace) else None)
    ctx.hist("history-len", steps)
    if did_set:
        ctx.hist("history-ops", "with-set_defaults")
        # aliasing in the other direction, characterised (argparse semantics, tie_defaults_kept): the parser kept the caller's objects
        kept = [a.default is givens[a.dest] for a in parser._actions if a.dest in givens]
        ctx.hist("set_defaults-keeps-caller-object", str(all(kept)))
    # model: the same history; whatever it writes inside the caller's initial objects must be inside `shared`,
    # and must cover what really changed there over the whole history
    changed0 = sorted(n for n in reg0.changed() if n <= n_ids)
    # declared defaults replaced by set_defaults are no longer the parser's: only in-place changes count (reg0 holds the old objects)
    env = [reg0.tree(reg0.roots["p%d" % i]) if reg0.roots.get("p%d" % i) else 0 for i in range(n_initial)]

    def check(out, changed0=changed0, n_ids=n_ids):
        caller = sorted(set(x for x in out["writes"] if x <= n_ids))
        if not set(caller) <= set(out["shared"]):
            return "model history writes caller cells outside shared (contradicts C08_history_exact): %s" % caller
        if not set(changed0) <= set(caller):
            return "the real history changed caller containers %s, the model allows only %s" % (changed0, caller)
        return None

    batch.add({"op": "history", "k": n_ids + 1, "ds": ds, "env": env, "ops": ops_model}, check, {"kind": "history", "scenario": replay, "ops": [o["o"] for o in ops_model]})


# ====================================================================== bracket cases (cwd under failure)
def bracket_cases(ctx):
    """calls that fail INSIDE change_to_path_dir / parser_context: the cwd and the context variables must be restored"""
    from typing import List

    from jsonargparse import ActionConfigFile, ArgumentParser

    root = tempfile.mkdtemp(prefix="br_", dir=tmp_root())
    other = os.path.join(root, "elsewhere")
    os.makedirs(other)
    cases = []
    # 1. --cfg file in another directory whose content is invalid
    bad_cfg = os.path.join(other, "bad.yaml")
    with open(bad_cfg, "w") as f:
        f.write("n: [1, 2, zz]\n")
    good_cfg = os.path.join(other, "good.yaml")
    with open(good_cfg, "w") as f:
        f.write("n: [1, 2]\n")
    lst = os.path.join(other, "list.txt")
    with open(lst, "w") as f:
        f.write("1\nzz\n")

    def mk(**kw):
        p = ArgumentParser(exit_on_error=False, **kw)
        p.add_argument("--cfg", action=ActionConfigFile)
        p.add_argument("--n", type=List[int], default=[0])
        return p

    cases.append(("parse_args:--cfg invalid file elsewhere", mk(), lambda p: p.parse_args(["--cfg", bad_cfg]), {"cfg": bad_cfg}))
    cases.append(("parse_args:--cfg valid file elsewhere", mk(), lambda p: p.parse_args(["--cfg", good_cfg]), {"cfg": good_cfg}))
    cases.append(("parse_path:invalid file elsewhere", mk(), lambda p: p.parse_path(bad_cfg), {}))
    cases.append(("get_defaults:invalid default_config_files", mk(default_config_files=[bad_cfg]), lambda p: p.get_defaults(), {}))
    cases.append(("parse_args:invalid default_config_files", mk(default_config_files=[bad_cfg]), lambda p: p.parse_args([]), {}))
    cases.append(("get_defaults:valid default_config_files", mk(default_config_files=[good_cfg]), lambda p: p.get_defaults(), {}))

    def mk_list():
        p = ArgumentParser(exit_on_error=False)
        p.add_argument("--n", type=List[int], enable_path=True)
        return p

    cases.append(("parse_args:list from file with invalid element", mk_list(), lambda p: p.parse_args(["--n", lst]), {}))

    def save_fail(p):
        cfg = p.parse_args(["--cfg", good_cfg])
        cfg.n = [1, "zz"]
        p.save(cfg, os.path.join(root, "out.yaml"), overwrite=True)

    cases.append(("save:multifile invalid", mk(), save_fail, {}))
    # Path OBJECTS resolved against a directory other than the process cwd (seed C08-B): the cwd to return to
    # is the process cwd at call time, not the one recorded in the Path
    from jsonargparse import Path
    from jsonargparse.typing import Path_fr

    work = os.path.join(root, "work")
    os.makedirs(work)
    home = os.getcwd()
    good_obj = Path("good.yaml", mode="fr", cwd=other)
    bad_obj = Path("bad.yaml", mode="fr", cwd=other)
    os.chdir(root)
    early = Path(os.path.join("elsewhere", "good.yaml"), mode="fr")
    os.chdir(home)
    out_obj = Path("out2.yaml", mode="fc", cwd=work)

    def mk_path():
        p = ArgumentParser(exit_on_error=False)
        p.add_argument("--p", type=Path_fr)
        p.add_argument("--l", type=List[Path_fr], default=[])
        return p

    def ctx_use(p):
        with good_obj.relative_path_context():
            pass

    def ctx_use_raise(p):
        with good_obj.relative_path_context():
            raise RuntimeError("inside")

    pobj = Path_fr("good.yaml", cwd=other)
    cases2 = [
        ("parse_path:Path object resolved elsewhere", mk(), lambda p: p.parse_path(good_obj), home),
        ("parse_path:Path object resolved elsewhere, invalid content", mk(), lambda p: p.parse_path(bad_obj), home),
        ("parse_path:Path object created before a chdir", mk(), lambda p: p.parse_path(early), work),
        ("save:to a Path object resolved elsewhere", mk(), lambda p: p.save(p.parse_args(["--n=[5]"]), out_obj, overwrite=True), home),
        ("Path.relative_path_context", mk(), ctx_use, home),
        ("Path.relative_path_context:raising body", mk(), ctx_use_raise, home),
        ("parse_object:Path value resolved elsewhere", mk_path(), lambda p: p.parse_object({"p": pobj, "l": [pobj, pobj]}), home),
        ("dump:Path value resolved elsewhere", mk_path(), lambda p: p.dump(p.parse_object({"p": pobj, "l": [pobj]})), home),
    ]
    for label, p, fn, _ in cases:
        ob = observe(p, label, lambda p=p, fn=fn: fn(p), {}, track_defaults=False)
        ctx.hist("bracket-case", ob.outcome if ob.outcome == "ok" else "raises")
        judge(ctx, ob, {"kind": "bracket", "case": label, "only_op": label})
    for label, p, fn, start in cases2:
        os.chdir(start)
        ob = observe(p, label, lambda p=p, fn=fn: fn(p), {}, track_defaults=False)
        os.chdir(home)
        ctx.hist("bracket-case", ob.outcome if ob.outcome == "ok" else "raises")
        judge(ctx, ob, {"kind": "bracket", "case": label, "only_op": label})
    shutil.rmtree(root, ignore_errors=True)
    return [c[0] for c in cases + cases2]


# ====================================================================== declared defaults of every container kind
def default_kind_cases(ctx):
    """one parser per kind of declared default — list, tuple holding a list, set, frozenset, dict subclass (defaultdict), list
    subclass, dataclass instance, lazy_instance, Path object, Namespace, and the two kinds of the open finding (OrderedDict,
    namedtuple) — given through add_argument(default=) AND through set_defaults; every operation afterwards must leave the
    caller's object (which the parser keeps as action.default) exactly as it was"""
    import dataclasses
    from typing import Any, Dict, List, Optional, Set, Tuple

    from jsonargparse import ArgumentParser, Namespace, lazy_instance
    from jsonargparse.typing import Path_fr

    m = usermod()

    @dataclasses.dataclass
    class DC:
        xs: List[int] = dataclasses.field(default_factory=lambda: [1, 2])
        t: Tuple[int, List[int]] = (1, [2])

    kinds = [
        ("list", List[List[int]], lambda: [[1], [2, 3]]),
        ("tuple-with-list", Tuple[int, List[int]], lambda: (1, [2])),
        ("dict", Dict[str, List[int]], lambda: {"a": [1], "b": []}),
        ("set", Set[int], lambda: {1, 2}),
        ("set-of-tuples", Set[Tuple[int, int]], lambda: {(1, 2), (3, 4)}),
        ("frozenset", Any, lambda: frozenset({(1, 2)})),
        ("defaultdict", Any, lambda: collections.defaultdict(list, a=[1, [2]])),
        ("list-subclass", Any, lambda: MyList([[1], {"k": [2]}])),
        ("dict-typed-defaultdict", Dict[str, List[int]], lambda: collections.defaultdict(list, a=[1])),
        ("dataclass-instance", DC, lambda: DC()),
        ("lazy_instance", m.Base, lambda: lazy_instance(m.Sub, x=4)),
        ("lazy_instance-with-containers", m.Base, lambda: lazy_instance(m.Sub, x=4, y=(3, [4, 5]))),
        ("spec-default", m.Base, lambda: {"class_path": MODNAME + ".Sub", "init_args": {"x": 7, "y": [1, [2]]}}),
        ("spec-default-nested", m.Base, lambda: {"class_path": MODNAME + ".Sub", "init_args": {"x": 7, "inner": {"class_path": MODNAME + ".Other", "init_args": {"z": {"k": ["red"]}}}}}),
        ("path-object", Optional[Path_fr], lambda: Path_fr(exists_file())),
        ("list-of-paths", List[Path_fr], lambda: [Path_fr(exists_file())]),
        ("input-form-strings", Dict[str, List[int]], lambda: {"k": ["1", "2"]}),
        ("ordereddict", collections.OrderedDict[str, Tuple[int, m.Color]], lambda: collections.OrderedDict(a=(1, m.Color.red))),
        ("namedtuple", Tuple[int, List[int]], lambda: NT(1, [2])),
    ]
    done = []
    for name, typ, mk in kinds:
        for how in ("add_argument", "set_defaults"):
            label = "default-kind:%s:%s" % (name, how)
            given = mk()
            try:
                p = ArgumentParser(exit_on_error=False, env_prefix="DK", default_env=False)
                if how == "add_argument":
                    p.add_argument("--v", type=typ, default=given)
                else:
                    p.add_argument("--v", type=typ)
                    holder = {"v": given}
                    p.set_defaults(holder)
            except Exception as ex:  # noqa: BLE001 - a default the parser refuses is not a case
                ctx.hist("default-kinds", "%s:unbuildable:%s" % (name, type(ex).__name__))
                continue
            ctx.hist("default-kinds", name)
            done.append(label)
            rep = {"kind": "default-kind", "case": label, "only_op": label}
            state = {}
            class_typed = typ is m.Base   # there also compare what get_defaults() answers before/after each call
            _LAST_DV.clear()

            def parse(p=p, state=state):
                state["cfg"] = p.parse_args([])
                return state["cfg"]

            ops = [("parse_args", parse), ("get_defaults", lambda p=p: p.get_defaults()),
                   ("dump", lambda p=p, state=state: p.dump(state["cfg"])),
                   ("instantiate_classes", lambda p=p, state=state: p.instantiate_classes(state["cfg"])),
                   ("instantiate_classes:second", lambda p=p, state=state: p.instantiate_classes(state["cfg"])),
                   ("parse_object", lambda p=p: p.parse_object({})),
                   ("validate", lambda p=p, state=state: p.validate(state["cfg"])),
                   ("format_help", lambda p=p: p.format_help()),
                   ("parse_string:empty", lambda p=p: p.parse_string("{}")),
                   ("parse_env:empty", lambda p=p: p.parse_env({}))]
            if typ is m.Base:
                # every parse route that checks a value against an EMPTY previous configuration, with a value that selects another
                # class than the declared default spec (whose init_args the other class does not accept) and with init_args only
                other = json.dumps({"class_path": MODNAME + ".Other", "init_args": {"z": {"k": ["red"]}}})
                only_init = json.dumps({"init_args": {"x": 9}})
                ops += [("parse_string:other-class", lambda p=p, other=other: p.parse_string('{"v": %s}' % other)),
                        ("parse_env:other-class", lambda p=p, other=other: p.parse_env({"DK_V": other})),
                        ("parse_args:other-class", lambda p=p, other=other: p.parse_args(["--v=" + other])),
                        ("parse_object:other-class", lambda p=p, other=other: p.parse_object({"v": json.loads(other)})),
                        ("parse_string:init_args-only", lambda p=p, only_init=only_init: p.parse_string('{"v": %s}' % only_init)),
                        ("parse_args:init_args-only", lambda p=p: p.parse_args(["--v.init_args.x=8"])),
                        ("parse_args:after", parse), ("get_defaults:after", lambda p=p: p.get_defaults())]
            for opname, fn in ops:
                if "cfg" not in state and opname in ("dump", "instantiate_classes", "instantiate_classes:second", "validate"):
                    continue
                ob = observe(p, "%s:%s" % (label, opname), fn, {"given": given}, track_defaults=class_typed)
                # what the library hands out must not contain a writable container of the caller's object
                if ob.outcome == "ok" and ob.result is not None and not isinstance(ob.result, str):
                    shared = [i for kind, i in shape_of_result(ob.result, ob.registry) if i and kind in ("list", "dict", "ns", "odict", "dictsub")]
                    if shared and not all(finding_signature(ob.registry, i) for i in shared):
                        ctx.violation("%s hands out a writable container of the declared default the caller gave" % ob.label,
                                      dict(rep, op=ob.label, changes=[ob.registry.describe(i) for i in shared[:4]]))
                judge(ctx, ob, rep)
    return done


# ====================================================================== findings
def witness_odict():
    """the open finding's witness; returns description of what changed, or None"""
    from typing import Tuple

    from jsonargparse import ArgumentParser

    m = usermod()
    p = ArgumentParser(exit_on_error=False)
    p.add_argument("--od", type=collections.OrderedDict[str, Tuple[int, m.Color]])
    cfg = p.parse_args(['--od={"a":[1,"red"]}'])
    before = canon(cfg)
    p.dump(cfg)
    return None if canon(cfg) == before else "dump changed %r" % (cfg,)


# ====================================================================== run
def run(ctx: Ctx):
    repo_python_path()
    tmp_root()
    ctx.rule = ("generated parsers (2-4 arguments, types over int/str/float/bool/Enum/Optional/Path/Any/List/Tuple/Tuple[...]/Set/Dict/"
                "Union/OrderedDict and class types with subclass specs, lazy_instance and signature defaults, optional default config file, "
                "optional subcommand) x {accepted, caller-built raw, invalid-deep-inside, raising-constructor} configurations x every "
                "operation of the property; each real call bracketed by deep snapshots of arguments, declared defaults, get_defaults(), "
                "cwd, environ, vars(argparse), sys.argv, context variables; non-trivial = scenario whose accepted configuration holds a "
                "container or a class spec (distinct by parser+input), plus recreate/adapt correspondence values with >= 2 containers; "
                "per scenario one random history (4-8 operations, results fed back, set_defaults with the caller's objects); 16 kinds "
                "of declared default x {add_argument, set_defaults} x 8 operations")
    ctx.assumptions = [
        "aliasing inside one value (the same list passed twice, YAML anchors) is outside the model; the harness records such a container once",
        "objects of user classes are atoms: what a constructor does with its arguments is not the library's doing",
        "the model's mutators are worst case (every container of the working copy is written); the correspondence checks inclusion for "
        "parser-level operations and equality for recreate_branches and adapt_typehints",
        "link targets, jsonnet ext_vars, fsspec/url paths and the no-reset context managers (parse_kwargs, dump_kwargs, subclass_arg_parser) "
        "are outside this property",
    ]
    ctx.lean_build(extractors=["brackets", "heap_sites", "ns_tables"])

    from ..lib import corpus as corpus_mod

    batch = ModelBatch()
    boost = ctx.search_boost
    phases = {"lean_build": round(ctx.elapsed(), 1)}
    ctx.extra["phase_s"] = phases

    # ---- (2a/2b) model correspondence on raw values
    correspond_recreate(ctx, batch, ctx.budget(400, 4000) * boost)
    correspond_adapt(ctx, batch, ctx.budget(400, 4000) * boost)
    exhaustive_chains(ctx, batch, ctx.budget(3, 4))

    phases["value_correspondence"] = round(ctx.elapsed(), 1)
    # ---- corpus first
    n_viol = 0
    for c in corpus_mod.load(ctx.prop):
        if c.get("kind") == "scenario":
            run_scenario(ctx, batch, c["scenario"], "corpus:" + c.get("name", "?"))
    # ---- bracket cases
    ctx.extra["bracket_cases"] = bracket_cases(ctx)
    ctx.extra["default_kind_cases"] = len(default_kind_cases(ctx))

    phases["corpus_and_brackets"] = round(ctx.elapsed(), 1)
    # ---- generated scenarios
    n_sc = ctx.budget(100, 1200) * (2 if boost > 1 else 1)
    for i in range(n_sc):
        if not ctx.thorough and ctx.elapsed() > 55:
            ctx.extra["stopped_early_after_scenarios"] = i
            break
        sc = gen_scenario(ctx.rng, odict=(i % 5 == 4))
        if i < 3:
            ctx.sample({"args": sc["args"], "input": sc["input"]})
        n_viol += run_scenario(ctx, batch, sc, "generated")
    ctx.extra["scenarios"] = n_sc

    phases["scenarios"] = round(ctx.elapsed(), 1)
    # ---- evaluate the model batch
    bad = batch.run(ctx)
    phases["model_batch"] = round(ctx.elapsed(), 1)
    ctx.extra["model_cases"] = len(batch.lines)
    ctx.extra["correspondence_disagreements"] = len(bad)
    for b in bad[:3]:
        ctx.tie_break("correspondence E11 (Heap model vs jsonargparse) disagrees: " + b["disagreement"][:200], json.dumps(b, default=repr, ensure_ascii=True)[:1800])
        if b["info"].get("kind") in ("recreate", "adapt"):
            # a concrete input on which the model (whose theorems hold) and the code differ
            ctx.violation("model and code disagree on %s: %s" % (b["info"]["kind"], b["disagreement"][:160]), {"kind": "correspondence", "info": b["info"], "model": b["model"], "disagreement": b["disagreement"]})

    # ---- findings
    ctx.replay_fixed_demos()
    for f in ctx.open_findings():
        w = witness_odict()
        ctx.count()
        if w:
            ctx.known(f["id"], f["description"])
        else:
            ctx.stale_findings.append(f["id"])


def replay(ctx: Ctx, body):
    repo_python_path()
    tmp_root()
    r = body["replay"]

    def record_only(what, rep, found_input=True):  # a replay reports, it does not write further replay files
        ctx.violations.append({"path": "-", "what": what, "found_input": found_input})
        print("  changes:", json.dumps(rep.get("changes", rep.get("problem")), default=repr)[:600])

    ctx.violation = record_only
    if r.get("kind") == "demo":
        import subprocess

        from ..lib.common import REPO, VERIF

        p = subprocess.run(["/venv/bin/python", os.path.join(VERIF, r["demo"])], env=dict(os.environ, PYTHONPATH=REPO))
        return 1 if p.returncode else 0
    if r.get("kind") == "default-kind":
        before = len(ctx.violations)
        default_kind_cases(ctx)
        for v in ctx.violations[before:]:
            print("still failing:", v["what"])
        return 1 if len(ctx.violations) > before else 0
    if r.get("kind") == "bracket" or "case" in r:
        before = len(ctx.violations)
        bracket_cases(ctx)
        for v in ctx.violations[before:]:
            print("still failing:", v["what"])
        return 1 if len(ctx.violations) > before else 0
    if r.get("kind") == "correspondence":
        print("model/code disagreement recorded:", json.dumps(r, default=repr)[:1500])
        print("re-run ./check C08 to re-evaluate the correspondence")
        return 1
    if "scenario" in r:
        batch = ModelBatch()
        before = len(ctx.violations)
        run_scenario(ctx, batch, r["scenario"], "replay", only_op=(r.get("only_op") or "").split(":")[0] or None)
        for v in ctx.violations[before:]:
            print("still failing:", v["what"])
        return 1 if len(ctx.violations) > before else 0
    print("nothing to replay in", list(r))
    return 0

"""C12 — auto_cli calls the component with exactly the parsed values.

Pipeline
  1. build lean/Jap/Props/C12.lean (theorems over the model lean/Jap/Core/Cli.lean: all signatures, all given values).
  2. correspondence (model = Drv/Cli): generated signatures are written as REAL functions / classes into a module of a
     temporary package (bodies record their local bindings into a global LOG and return a token), run through the real
     `auto_cli` (argv built by the harness: positionals, options, `--config`), and compared with the model on
       a. the parser that `auto_cli` builds (which parameter became a positional / an option, required or which default)
          — read from the real parser objects through `parser_class`;
       b. the outcome: call log + returned value, or the error class (construction / parse / TypeError / crash).
  3. property oracle on the real code, independent of the model: the expectation "each parameter = value given, else the
     signature default (None for Optional without default); component called once; constructor and method get only their
     own parameters; the return value is returned; a missing required parameter is a parse error with no call" is
     computed by the harness from the signature alone.
  4. a fixed-seed sweep over the CLI's own vocabulary (`config`, `subcommand`, `help`, `print_config`, prefixes of
     `--print_`, method names equal to constructor parameters, private Optional parameters): every deviation there must
     fall in the signature of an OPEN known finding; the findings' witnesses are replayed.
"""
from __future__ import annotations

import atexit
import ast
import contextlib
import enum
import hashlib
import importlib
import io
import itertools
import json
import os
import random
import shutil
import sys
import tempfile

from ..lib.common import Ctx, MachineryError, repo_python_path

MANIFEST = {
    "engine": "E10a-Cli",
    "technique": "Lean 4 proof over a model of _cli.py/_add_signature_parameter (all signatures, all given-value assignments, all component bodies, "
                 "all dicts of components) + regenerated literals of _run_component + differential correspondence of parser structure and call log "
                 "with the real auto_cli on generated modules + independent call-log oracle",
    "text": "Theorems in lean/Jap/Props/C12.lean prove that the model of auto_cli logs exactly one call of the selected function with every parameter "
            "bound to the given value or else the signature default and returns that call's value (C12_binding; C12_runs: it does run whenever the "
            "required parameters are given), that a class gets one construction with only the constructor's parameters and one call of the chosen "
            "method with only its own (C12_class, C12_class_plain), that a missing required parameter is an error without any call (C12_required, "
            "C12_class_required), that Optional parameters without default are options defaulting to None (C12_optional_none*), and that for every "
            "list / nested dict of components the subcommand chain leads to exactly the selected component (C12_dispatch, C12_tree_*; C12_tree_dispatch: "
            "for a tree of any depth exactly the component at the selected path runs - function once, or constructor then chosen method, each once, "
            "each with bind of its own signature over its own level's values (C12_bind_exact), the innermost value returned - under the decidable "
            "guard dispatchGuard that names the excluded finding classes; C12_root_dispatch for a single root component), and that a value "
            "is bound verbatim in every file system unless the parameter is class-typed / returns a class, the only kinds for which enable_path is set "
            "(C12_verbatim, C12_verbatim_values, C12_enable_path_witness; expression, sub_configs and a live per-annotation table regenerated and pinned by "
            "C12_enable_path_pinned). The model is "
            "tied to /repo by regenerating the keys popped by _run_component and the CLI's own options into Gen/CliTables (pinned by "
            "C12_tables_pinned) and the full statement list of _run_component plus the parser-building calls of _add_component_to_parser "
            "(add_class_arguments with / without group, required subcommands, per-method --config and add_method_arguments, add_function_arguments, "
            "sub_configs=True; pinned by C12_statements_pinned); auto_cli(set_defaults=...) and positional-only parameters are in the model "
            "(autoCliX): the callee receives the given value, else the set_defaults value, else the signature default "
            "(C12_set_defaults_binding, C12_set_defaults_param), a positional-only parameter with a parser argument makes the call a TypeError "
            "(open finding C12-positional-only-typeerror, C12_positional_only_witness) and without one nothing changes (C12_ext_conservative); "
            "tied by building real modules from generated signatures and comparing, for every case, the parser auto_cli constructs "
            "and the recorded calls / return value / error class with the model; the property is also evaluated directly on the real code against "
            "an expectation computed from the signature alone.",
    "level_note": "Trusted: Lean kernel; axioms propext/Quot.sound/Classical.choice only; the extractor; the correspondence harness and its generators; "
                  "the parse of one parser is abstract in the model (argparse/type conversion are the subject of C02/C04/C05) and tied by "
                  "correspondence only. The full statement is false for parameters named like the CLI's own keys (open finding C12-reserved-names, "
                  "negation proved: C12_binding_needs_guard) and is proved under the decidable guard noReserved. Further open findings reproduced by "
                  "the model: C12-subcommand-name-is-parent-dest, C12-private-optional. Outside the model: argparse abbreviation matching (open "
                  "finding C12-prefix-of-parent-options), docstrings, coroutines, properties, positional-only parameters of signatures with **kwargs, "
                  "set_defaults for private parameters and inside lists / dicts of components, untyped parameters, "
                  "a constructor parameter called `subcommand` of a class with methods (type-dependent).",
}

F_RESERVED = "C12-reserved-names"
F_PREFIX = "C12-prefix-of-parent-options"
F_PARENT_DEST = "C12-subcommand-name-is-parent-dest"
F_PRIVATE_OPT = "C12-private-optional"
F_STRDEF = "C12-string-default-reparsed"
F_ENUM_CLASH = "C12-namespace-member-name-unconverted"
F_POSONLY = "C12-positional-only-typeerror"
CLASH = {"items", "keys", "values", "get", "pop", "update", "clone", "as_dict"}

# ---------------------------------------------------------------------------------------------
# the type grammar: annotation source, and values as (argv text, config value, python source, canonical text)
# ---------------------------------------------------------------------------------------------
TYPES = {
    "int": ("int", [("3", 3, "3", "int:3"), ("0", 0, "0", "int:0"), ("17", 17, "17", "int:17"), ("-4", -4, "-4", "int:-4")]),
    "str": ("str", [("abc", "abc", "'abc'", "str:'abc'"), ("7", "7", "'7'", "str:'7'"), ("x y", "x y", "'x y'", "str:'x y'"),
                    ("notes.txt", "notes.txt", "'notes.txt'", "str:'notes.txt'")]),
    "float": ("float", [("2.5", 2.5, "2.5", "float:2.5"), ("3", 3, "3.0", "float:3.0"), ("-0.5", -0.5, "-0.5", "float:-0.5")]),
    "bool": ("bool", [("true", True, "True", "bool:True"), ("false", False, "False", "bool:False")]),
    "optint": ("Optional[int]", [("null", None, "None", None), ("5", 5, "5", "int:5"), ("12", 12, "12", "int:12")]),
    "listint": ("List[int]", [("[1, 2]", [1, 2], "[1, 2]", "list:[int:1,int:2]"), ("[]", [], "[]", "list:[]"), ("[7]", [7], "[7]", "list:[int:7]")]),
    "literal": ('Literal["u", "v"]', [("u", "u", "'u'", "str:'u'"), ("v", "v", "'v'", "str:'v'")]),
    "enum": ("Color", [("red", "red", "Color.red", "enum:red"), ("blue", "blue", "Color.blue", "enum:blue")]),
    # types that accept a plain string through the type-hint action; several values NAME EXISTING FILES of the working
    # directory (text / number / JSON content, see FILES): the callee must receive the name, never the content
    "intstr": ("Union[int, str]", [("notes.txt", "notes.txt", "'notes.txt'", "str:'notes.txt'"), ("count.txt", "count.txt", "'count.txt'", "str:'count.txt'"),
                                   ("data.json", "data.json", "'data.json'", "str:'data.json'"), ("abc", "abc", "'abc'", "str:'abc'"), ("5", 5, "5", "int:5")]),
    "any": ("Any", [("data.json", "data.json", "'data.json'", "str:'data.json'"), ("count.txt", "count.txt", "'count.txt'", "str:'count.txt'"),
                    ("notes.txt", "notes.txt", "'notes.txt'", "str:'notes.txt'"), ("abc", "abc", "'abc'", "str:'abc'")]),
    # Optional[...] of parametrised generics and of Literal: without a signature default they are OPTIONS defaulting to None
    "optlist": ("Optional[List[int]]", [("null", None, "None", None), ("[1, 2]", [1, 2], "[1, 2]", "list:[int:1,int:2]"), ("[]", [], "[]", "list:[]")]),
    "optlit": ('Optional[Literal["u", "v"]]', [("null", None, "None", None), ("u", "u", "'u'", "str:'u'"), ("v", "v", "'v'", "str:'v'")]),
    "optdict": ("Optional[Dict[str, int]]", [("null", None, "None", None), ('{"a": 1}', {"a": 1}, "{'a': 1}", "dict:{a=int:1}"), ("{}", {}, "{}", "dict:{}")]),
    "opttuple": ("Optional[Tuple[int, str]]", [("null", None, "None", None), ('[1, "a"]', [1, "a"], "(1, 'a')", "tuple:[int:1,str:'a']")]),
    # class-typed and container-of-class-typed parameters (required only): the callee must receive INSTANTIATED objects
    "widget": ("Widget", [('{"class_path": "Widget", "init_args": {"size": 3}}', {"class_path": "Widget", "init_args": {"size": 3}}, "Widget(size=3)", "obj:Widget(size=3)"),
                          ("Widget", "Widget", "Widget()", "obj:Widget(size=1)"),
                          ('{"class_path": "BigWidget", "init_args": {"size": 2, "extra": 4}}', {"class_path": "BigWidget", "init_args": {"size": 2, "extra": 4}}, "BigWidget(2, 4)", "obj:BigWidget(size=2,extra=4)")]),
    "listwidget": ("List[Widget]", [('[{"class_path": "Widget", "init_args": {"size": 3}}, "BigWidget"]', [{"class_path": "Widget", "init_args": {"size": 3}}, "BigWidget"], "None", "list:[obj:Widget(size=3),obj:BigWidget(size=1,extra=0)]"),
                                    ("[]", [], "None", "list:[]")]),
    "dictwidget": ("Dict[str, Widget]", [('{"a": "Widget", "b": {"class_path": "BigWidget", "init_args": {"extra": 9}}}', {"a": "Widget", "b": {"class_path": "BigWidget", "init_args": {"extra": 9}}}, "None", "dict:{a=obj:Widget(size=1),b=obj:BigWidget(size=1,extra=9)}")]),
    "strlist": ("Union[str, List[str]]", [("notes.txt", "notes.txt", "'notes.txt'", "str:'notes.txt'"), ("data.json", "data.json", "'data.json'", "str:'data.json'"),
                                          ("abc", "abc", "'abc'", "str:'abc'")]),
}
# files that exist in the working directory while the cases run
OBJECT_TYPES = ("widget", "listwidget", "dictwidget")       # generated without default only
# a string default that the type hint could read as something else: used by a finding witness only, never generated
WITNESS_TYPES = {"intstrdef": ("Union[int, str]", [("zz", "zz", "'1'", "str:'1'")]), "optstrdef": ("Optional[str]", [("zz", "zz", "'null'", "str:'null'")])}
OPTIONAL_TYPES = ("optint", "optlist", "optlit", "optdict", "opttuple")
FILES = {"notes.txt": "hello world\n", "count.txt": "42\n", "data.json": '{"injected": true}\n'}
TYPE_KEYS = list(TYPES)
TYPES.update(WITNESS_TYPES)

# ordinary names: pairwise prefix-free, none a prefix of two options of a parent parser, none equal to a CLI key
NAMES = ["alpha", "beta", "gamma", "delta", "omega", "kappa", "sigma", "theta", "zeta", "rho", "nu", "xi",
         "conf", "he", "subcommands", "version", "printer", "cfg",
         # ordinary Python names that coincide with members of jsonargparse's Namespace class (stored under a marked key)
         "items", "keys", "values", "get", "pop", "update", "clone", "as_dict"]
PRIVATE = ["_hid", "_aux"]
METHODS = ["fit", "run", "go", "stop", "evaluate"]
# the CLI's own vocabulary (fixed-seed sweep only)
VOCAB = ["config", "subcommand", "help", "print_config", "p", "pr", "print_", "c", "h", "print_c", "fit", "run"]

PREAMBLE = '''from typing import Any, Dict, Optional, List, Literal, Tuple, Union
from enum import Enum

LOG = []


class Color(Enum):
    red = 1
    blue = 2


class Widget:
    def __init__(self, size: int = 1):
        self.size = size

    def canon(self):
        return "Widget(size=%d)" % self.size


class BigWidget(Widget):
    def __init__(self, size: int = 1, extra: int = 0):
        self.size = size
        self.extra = extra

    def canon(self):
        return "BigWidget(size=%d,extra=%d)" % (self.size, self.extra)

'''


def canon(v):
    """canonical text of a converted value (None stays None)"""
    import enum

    if v is None:
        return None
    if isinstance(v, enum.Enum):
        return "enum:" + v.name
    if isinstance(v, (bool, int, float, str)):
        return "%s:%r" % (type(v).__name__, v)
    if isinstance(v, (list, tuple)):
        return "%s:[%s]" % (type(v).__name__, ",".join(str(canon(x)) for x in v))
    if hasattr(v, "canon") and not isinstance(v, type):
        return "obj:" + v.canon()
    if isinstance(v, dict):
        return "dict:{%s}" % ",".join("%s=%s" % (k, canon(x)) for k, x in sorted(v.items()))
    return "obj:" + type(v).__name__


# ---------------------------------------------------------------------------------------------
# signatures -> python source
# ---------------------------------------------------------------------------------------------
def param_src(p):
    if p["kind"] == "vp":
        return "*" + p["name"]
    if p["kind"] == "vk":
        return "**" + p["name"]
    s = "%s: %s" % (p["name"], TYPES[p["type"]][0])
    if p["default"] is not None:
        s += " = " + TYPES[p["type"]][1][p["default"]][2]
    return s


def sig_src(sig, with_self=False):
    parts = ["self"] if with_self else []
    star_done = False
    for i, p in enumerate(sig):
        if p["kind"] == "vp":
            star_done = True
        if p["kind"] == "ko" and not star_done:
            parts.append("*")
            star_done = True
        parts.append(param_src(p))
        if p["kind"] == "po" and (i + 1 == len(sig) or sig[i + 1]["kind"] != "po"):
            parts.append("/")               # the parameters before it are positional-only
    return ", ".join(parts)


def named(sig):
    return [p for p in sig if p["kind"] in ("pk", "ko", "po")]


def body_src(target, sig, indent, ret=True):
    names = [p["name"] for p in named(sig)]
    rec = "dict(%s)" % ", ".join("%s=%s" % (n, n) for n in names)
    out = "%sLOG.append((%r, %s))\n" % (indent, target, rec)
    if ret:
        out += "%sreturn %r\n" % (indent, "ret:" + target)
    return out


def comp_src(c):
    if c["kind"] == "func":
        return "def %s(%s):\n%s\n" % (c["name"], sig_src(c["sig"]), body_src("func:" + c["name"], c["sig"], "    "))
    out = "class %s:\n    def __init__(%s):\n%s\n" % (c["name"], sig_src(c["init"], True), body_src("init:" + c["name"], c["init"], "        ", ret=False))
    for m in c["methods"]:
        out += "    def %s(%s):\n%s\n" % (m["name"], sig_src(m["sig"], True), body_src("method:%s.%s" % (c["name"], m["name"]), m["sig"], "        "))
    return out


def leaves(tree, pre=()):
    """[(key path, comp)] in dict order"""
    if "dict" in tree:
        out = []
        for k, sub in tree["dict"]:
            out.extend(leaves(sub, pre + (k,)))
        return out
    if "list" in tree:
        return [((c["name"],), c) for c in tree["list"]]
    return [(pre, tree["comp"])]


def tree_src(tree):
    seen, out = set(), PREAMBLE
    for _, c in leaves(tree):
        if c["name"] not in seen:
            seen.add(c["name"])
            out += comp_src(c) + "\n"
    return out


# ---------------------------------------------------------------------------------------------
# temp package with the generated modules
# ---------------------------------------------------------------------------------------------
_PKG = {"dir": None, "mods": {}}


def pkg_dir():
    if _PKG["dir"] is None:
        d = tempfile.mkdtemp(prefix="c12pk_")
        os.makedirs(os.path.join(d, "c12gen"))
        open(os.path.join(d, "c12gen", "__init__.py"), "w").close()
        sys.path.insert(0, d)
        _PKG["dir"] = d
        atexit.register(cleanup)
    return _PKG["dir"]


def cleanup():
    d = _PKG["dir"]
    if d:
        shutil.rmtree(d, ignore_errors=True)
        if d in sys.path:
            sys.path.remove(d)
        _PKG["dir"] = None
        _PKG["mods"].clear()


def module_for(src):
    h = hashlib.sha256(src.encode()).hexdigest()[:16]
    if h in _PKG["mods"]:
        return _PKG["mods"][h]
    d = pkg_dir()
    name = "m_" + h
    with open(os.path.join(d, "c12gen", name + ".py"), "w") as f:
        f.write(src)
    importlib.invalidate_caches()
    mod = importlib.import_module("c12gen." + name)
    _PKG["mods"][h] = mod
    return mod


def components_object(tree, mod):
    if "dict" in tree:
        return {k: components_object(sub, mod) for k, sub in tree["dict"]}
    if "list" in tree:
        return [getattr(mod, c["name"]) for c in tree["list"]]
    return getattr(mod, tree["comp"]["name"])


# ---------------------------------------------------------------------------------------------
# the expectation computed from the signature alone (independent of the model)
# ---------------------------------------------------------------------------------------------
def eff_default(p):
    """(has, canonical) of what the parameter holds when nothing is given"""
    if p["default"] is not None:
        return True, TYPES[p["type"]][1][p["default"]][3]
    if p["type"] in OPTIONAL_TYPES:
        return True, None
    return False, None


def visible(p):
    """does the parameter become an argument of the parser?"""
    if p["kind"] in ("vp", "vk"):
        return False
    if p["name"].startswith("_") and eff_default(p)[0]:
        return False
    return True


def expect_binding(sig, given, sd=None):
    """name -> canonical value for every named parameter; None if a parameter has nothing to be bound to
    (sd: the values of auto_cli's set_defaults for this signature, {name: value index})"""
    out = {}
    for p in named(sig):
        if p["name"] in given:
            out[p["name"]] = TYPES[p["type"]][1][given[p["name"]]][3]
        elif sd and p["name"] in sd:
            out[p["name"]] = TYPES[p["type"]][1][sd[p["name"]]][3]
        else:
            has, d = eff_default(p)
            if not has:
                return None
            out[p["name"]] = d
    return out


def selected(case):
    lv = leaves(case["tree"])
    if "comp" in case["tree"] or ("list" in case["tree"] and len(lv) == 1):
        return lv[0][1]
    for k, c in lv:
        if list(k) == list(case["path"]):
            return c
    return None


def expectation(case):
    """('ok', calls, ret) or ('parse',)"""
    c = selected(case)
    sd = case.get("set_defaults") or {}
    if c["kind"] == "func":
        b = expect_binding(c["sig"], case["top"], sd.get("top"))
        if b is None:
            return ("parse",)
        return ("ok", [["func:" + c["name"], b]], "func:" + c["name"])
    b1 = expect_binding(c["init"], case["top"], sd.get("top"))
    if not c["methods"]:
        if b1 is None:
            return ("parse",)
        return ("ok", [["init:" + c["name"], b1]], "init:" + c["name"])
    m = [x for x in c["methods"] if x["name"] == case["method"]][0]
    b2 = expect_binding(m["sig"], case["sub"], sd.get("sub"))
    if b1 is None or b2 is None:
        return ("parse",)
    t = "method:%s.%s" % (c["name"], m["name"])
    return ("ok", [["init:" + c["name"], b1], [t, b2]], t)


# ---------------------------------------------------------------------------------------------
# argv
# ---------------------------------------------------------------------------------------------
def split_given(sig, given, as_pos):
    """(positional texts in order, [(name, text)] options, {name: config value})"""
    pos, opts, cfg = [], [], {}
    for p in named(sig):
        if p["name"] not in given:
            continue
        v = TYPES[p["type"]][1][given[p["name"]]]
        cfg[p["name"]] = v[1]
        if as_pos and visible(p) and not eff_default(p)[0]:
            pos.append(v[0])
        else:
            opts.append((p["name"], v[0]))
    return pos, opts, cfg


def opt_args(opts, rng):
    out = []
    for n, t in opts:
        if t.startswith("-") or rng.random() < 0.6:
            out.append("--%s=%s" % (n, t))
        else:
            out.extend(["--" + n, t])
    return out


def config_arg(obj, rng, tmp):
    """inline JSON, or a .json / .yaml file"""
    text = json.dumps(obj)
    r = rng.random()
    if r < 0.6 or tmp is None:
        return text
    name = os.path.join(tmp, "cfg_%s.%s" % (hashlib.sha256((text + str(r)).encode()).hexdigest()[:10], "json" if r < 0.8 else "yaml"))
    with open(name, "w") as f:
        if name.endswith(".json"):
            f.write(text)
        else:
            import yaml

            f.write(yaml.safe_dump(obj))
    return name


def level_args(sig, given, as_pos, how, rng, tmp, has_config=True):
    """argv items for one parser level; `how`: argv | mixed"""
    pos, opts, cfg = split_given(sig, given, as_pos)
    pre = []
    if how == "mixed" and opts and has_config:
        k = rng.randint(1, len(opts))
        in_cfg = opts[:k] if rng.random() < 0.5 else opts[-k:]
        opts = [o for o in opts if o not in in_cfg]
        pre = ["--config", config_arg({n: cfg[n] for n, _ in in_cfg}, rng, tmp)]
    o = opt_args(opts, rng)
    # the config comes first so that later command line values are not overridden by it
    return pre + (o + pos if rng.random() < 0.5 else pos + o)


def full_section(sig, given, as_pos, positional_on_argv=False):
    """config values of one parser level; with positional_on_argv the required positionals are left out"""
    pos, opts, cfg = split_given(sig, given, as_pos)
    if positional_on_argv:
        return {n: cfg[n] for n, _ in opts}, pos
    return cfg, []


def sibling_assignment(rng, sig):
    a = assignments(rng, sig, 1)
    return a[0] if a else {}


def build_multiconfig(case, rng, tmp):
    """one --config document BEFORE the subcommand token that carries a section for EVERY component / method of that
    level; argv then selects one of them: it must be called with the values of ITS section"""
    c = selected(case)
    as_pos = case["as_pos"]
    path = list(case["path"])

    def comp_section(cc, is_sel):
        """(section dict, argv tail after the component's own position)"""
        if cc["kind"] == "func":
            given = case["top"] if is_sel else sibling_assignment(rng, cc["sig"])
            return split_given(cc["sig"], given, as_pos)[2], []
        given = case["top"] if is_sel else sibling_assignment(rng, cc["init"])
        if not cc["methods"]:
            return split_given(cc["init"], given, as_pos)[2], []
        # a class with methods: the constructor's positionals go on the command line (a positional of the class parser
        # would swallow the method token), everything else into the section, with one sub-section per method
        sec, pos = full_section(cc["init"], given, as_pos, positional_on_argv=is_sel)
        if not is_sel:
            sec = split_given(cc["init"], given, as_pos)[2]
            return sec, []
        for m in cc["methods"]:
            mg = case["sub"] if m["name"] == case["method"] else sibling_assignment(rng, m["sig"])
            sec[m["name"]] = split_given(m["sig"], mg, as_pos)[2]
        return sec, pos + [case["method"]]

    if not path:
        sec, tail = comp_section(c, True)
        return ["--config", config_arg(sec, rng, tmp)] + tail
    doc, tail = {}, []
    for key, cc in leaves(case["tree"]):
        is_sel = list(key) == path
        sec, t = comp_section(cc, is_sel)
        if is_sel:
            tail = t
        node = doc
        for k in key[:-1]:
            node = node.setdefault(k, {})
        node[key[-1]] = sec
    return ["--config", config_arg(doc, rng, tmp)] + path + tail


def build_argv(case, rng, tmp=None):
    c = selected(case)
    as_pos = case["as_pos"]
    ch = case["channel"]
    path = list(case["path"])
    if ch == "multiconfig":
        return build_multiconfig(case, rng, tmp)
    if ch == "classconfig":
        # PATH Class --config {method sections} [constructor positionals] method : the config sits between the class token
        # and the method token, also for a class WITHOUT constructor parameters
        sec, pos = full_section(c["init"], case["top"], as_pos, positional_on_argv=True)
        for m in c["methods"]:
            mg = case["sub"] if m["name"] == case["method"] else sibling_assignment(rng, m["sig"])
            sec[m["name"]] = split_given(m["sig"], mg, as_pos)[2]
        return path + ["--config", config_arg(sec, rng, tmp)] + pos + [case["method"]]
    top_sig = c["sig"] if c["kind"] == "func" else c["init"]
    msig = None
    if c["kind"] == "cls" and c["methods"]:
        msig = [x for x in c["methods"] if x["name"] == case["method"]][0]["sig"]
    if ch == "config":
        inner = dict(split_given(top_sig, case["top"], as_pos)[2])
        if msig is not None:
            inner["subcommand"] = case["method"]
            sub = split_given(msig, case["sub"], as_pos)[2]
            if sub or rng.random() < 0.5:
                inner[case["method"]] = sub
        for k in reversed(path):
            inner = {"subcommand": k, k: inner}
        return ["--config", config_arg(inner, rng, tmp)]
    argv = list(path)
    leaf_has_config = (not path) or any(visible(p) for p in top_sig) or (msig is not None and any(visible(p) for m in c["methods"] for p in m["sig"]))
    argv += level_args(top_sig, case["top"], as_pos, ch, rng, tmp, leaf_has_config)
    if msig is not None:
        argv.append(case["method"])
        m_has_config = any(visible(p) for p in msig) and not any(p["name"] == "config" for p in msig)
        argv += level_args(msig, case["sub"], as_pos, ch, rng, tmp, m_has_config)
    return argv


# ---------------------------------------------------------------------------------------------
# real side
# ---------------------------------------------------------------------------------------------
_REC = {}


def rec_class():
    if "cls" not in _REC:
        from jsonargparse import ArgumentParser

        class Rec(ArgumentParser):
            made = []
            parsed = [0]

            def __init__(self, *a, **k):
                super().__init__(*a, **k)
                Rec.made.append(self)

            def parse_args(self, *a, **k):
                Rec.parsed[0] += 1
                return super().parse_args(*a, **k)

        _REC["cls"] = Rec
    return _REC["cls"]


def parser_args(parser):
    """[[dest, positional, [] | [canonical default]]] of the arguments that come from the signature"""
    out = []
    skip = {"_HelpAction", "ActionConfigFile", "_ActionPrintConfig", "ShtabAction", "_ActionSubCommands", "_ActionPrintConfig"}
    for a in parser._actions:
        if type(a).__name__ in skip or a.dest in ("print_shtab",) or type(a).__name__ == "_ActionHelpClassPath" or a.dest.endswith(".help"):
            continue                         # --NAME.help of a class-typed argument is not a parameter
        req = a.dest in parser.required_args
        d = a.default
        th = getattr(a, "_typehint", None)
        if isinstance(d, str) and isinstance(th, type) and issubclass(th, enum.Enum):
            d = th[d]                      # the action keeps an Enum default by its name
        out.append([a.dest, not a.option_strings, [] if req else [canon(d)]])
    return out


def real_structure(root, case):
    """the parsers of the selected component, in the model's format"""
    p = root
    try:
        for k in case["path"]:
            p = p._subcommands_action._name_parser_map[k]
        c = selected(case)
        res = {"top": parser_args(p), "methods": []}
        if c["kind"] == "cls" and c["methods"]:
            mp = p._subcommands_action._name_parser_map
            # the model lists the methods in declaration order; the real map is ordered by inspect.getmembers (sorted)
            res["methods"] = sorted([[m, parser_args(sp)] for m, sp in mp.items()])
        return res
    except Exception as ex:  # noqa: BLE001
        return {"unreadable": type(ex).__name__ + ": " + str(ex)[:100]}


def set_defaults_kw(case):
    """auto_cli(set_defaults={name: value, "method.name": value}) of a case (single component)"""
    sd = case.get("set_defaults")
    if not sd:
        return {}
    c = selected(case)
    top_sig = c["sig"] if c["kind"] == "func" else c["init"]
    d = {}
    for n, i in (sd.get("top") or {}).items():
        p = [q for q in named(top_sig) if q["name"] == n]
        d[n] = ast.literal_eval(TYPES[p[0]["type"]][1][i][2]) if p else i       # the Python value of the declared type
    if sd.get("sub"):
        msig = [x for x in c["methods"] if x["name"] == case["method"]][0]["sig"]
        for n, i in sd["sub"].items():
            p = [q for q in named(msig) if q["name"] == n]
            d["%s.%s" % (case["method"], n)] = ast.literal_eval(TYPES[p[0]["type"]][1][i][2]) if p else i
    return {"set_defaults": d}


def ext_of(case):
    """positional-only names and set_defaults of the selected component, for the model (None: a plain case)"""
    c = selected(case)
    top_sig = c["sig"] if c["kind"] == "func" else c["init"]
    msig = []
    if c["kind"] == "cls" and c["methods"] and case.get("method"):
        msig = [x for x in c["methods"] if x["name"] == case["method"]][0]["sig"]
    po_top = [p["name"] for p in top_sig if p["kind"] == "po"]
    po_sub = [p["name"] for p in msig if p["kind"] == "po"]
    sd = case.get("set_defaults") or {}
    if not (po_top or po_sub or sd):
        return None

    def kv(sig, d):
        out = []
        for n, i in (d or {}).items():
            p = [q for q in named(sig) if q["name"] == n]
            out.append([n, TYPES[p[0]["type"]][1][i][3] if p else "?"])
        return out
    return {"poTop": po_top, "poSub": po_sub, "sdTop": kv(top_sig, sd.get("top")), "sdSub": kv(msig, sd.get("sub"))}


def real_run(case, argv):
    from jsonargparse import auto_cli

    src = tree_src(case["tree"])
    mod = module_for(src)
    comps = components_object(case["tree"], mod)
    Rec = rec_class()
    Rec.made.clear()
    Rec.parsed[0] = 0
    mod.LOG.clear()
    err = io.StringIO()
    out = {}
    try:
        with contextlib.redirect_stderr(err), contextlib.redirect_stdout(io.StringIO()):
            ret = auto_cli(comps, args=list(argv), as_positional=case["as_pos"], parser_class=Rec, **set_defaults_kw(case))
        c = selected(case)
        if isinstance(ret, str) and ret.startswith("ret:"):
            out["ret"] = ret[4:]
        elif c["kind"] == "cls" and type(ret) is getattr(mod, c["name"]):
            out["ret"] = "init:" + c["name"]
        else:
            out["ret"] = "other:" + repr(ret)[:60]
        out["kind"] = "ok"
    except SystemExit as ex:
        out["kind"] = "parse" if ex.code == 2 else "exit:%r" % (ex.code,)
        out["stderr"] = err.getvalue().strip().split("\n")[-1][:300]
    except ValueError as ex:
        out["kind"] = "construction" if Rec.parsed[0] == 0 else "crash"
        out["msg"] = "ValueError: " + str(ex)[:200]
    except TypeError as ex:
        out["kind"] = "typeError" if Rec.parsed[0] > 0 else "construction"
        out["msg"] = "TypeError: " + str(ex)[:200]
    except Exception as ex:  # noqa: BLE001 - the error class is the observation
        out["kind"] = "crash"
        out["msg"] = type(ex).__name__ + ": " + str(ex)[:200]
    # snapshot immediately
    out["calls"] = [[t, {k: canon(v) for k, v in b.items()}] for t, b in mod.LOG]
    out["structure"] = real_structure(Rec.made[0], case) if Rec.made and out["kind"] != "construction" else None
    mod.LOG.clear()
    Rec.made.clear()
    return out


# ---------------------------------------------------------------------------------------------
# model side
# ---------------------------------------------------------------------------------------------
def wire_sig(sig):
    out = []
    for p in sig:
        has, d = (False, None)
        if p["kind"] in ("pk", "ko", "po") and p["default"] is not None:
            has, d = True, TYPES[p["type"]][1][p["default"]][3]
        out.append({"name": p["name"], "kind": p["kind"], "dflt": [d] if has else [], "optional": p.get("type") in OPTIONAL_TYPES})
    return out


def wire_comp(c):
    if c["kind"] == "func":
        return {"kind": "func", "name": c["name"], "sig": wire_sig(c["sig"])}
    return {"kind": "cls", "name": c["name"], "init": wire_sig(c["init"]),
            "methods": [{"name": m["name"], "sig": wire_sig(m["sig"])} for m in c["methods"]]}


def wire_given(sig, given):
    return [[p["name"], TYPES[p["type"]][1][given[p["name"]]][3]] for p in named(sig) if p["name"] in given]


def model_line(case):
    c = selected(case)
    top_sig = c["sig"] if c["kind"] == "func" else c["init"]
    msig = []
    if c["kind"] == "cls" and c["methods"] and case.get("method"):
        msig = [x for x in c["methods"] if x["name"] == case["method"]][0]["sig"]
    single = "comp" in case["tree"] or ("list" in case["tree"] and len(case["tree"]["list"]) == 1)
    ext = ext_of(case) if single else None
    return {
        **({"ext": ext} if ext else {}),
        "asPos": case["as_pos"], "single": single,
        "comps": [{"key": list(k), "comp": wire_comp(cc)} for k, cc in leaves(case["tree"])],
        "path": [] if single else list(case["path"]),
        "given": {"top": wire_given(top_sig, case["top"]), "method": case.get("method"), "sub": wire_given(msig, case["sub"]),
                  "cfgTop": "cfg" if case["channel"] not in ("argv",) and not (case["channel"] == "multiconfig" and case["path"]) else None, "cfgSub": None},
    }


def model_view(m):
    """the model's answer in the format of real_run"""
    if "err" in m:
        return {"kind": m["err"], "calls": [[c["t"], dict((k, v) for k, v in c["args"])] for c in m.get("calls", [])]}
    return {"kind": "ok", "ret": m["run"]["ret"], "calls": [[c["t"], dict((k, v) for k, v in c["args"])] for c in m["run"]["calls"]]}


def model_structure(m):
    p = m.get("parsers")
    if not p:
        return None
    return {"top": p["top"], "methods": sorted(p["methods"])}


# ---------------------------------------------------------------------------------------------
# generators
# ---------------------------------------------------------------------------------------------
def gen_sig(rng, n, names, extras=True):
    """n named visible parameters + sometimes a private one with default, *args, **kwargs"""
    ps = []
    n_ko = rng.randint(0, n) if rng.random() < 0.6 else 0
    for i in range(n):
        t = rng.choice(TYPE_KEYS)
        has_d = rng.random() < 0.55
        if t in OBJECT_TYPES:
            has_d = False
        if t in ("enum", "float", "intstr", "any", "strlist", "optlist", "optlit", "optdict", "opttuple") + OBJECT_TYPES and names[i] in CLASH:
            t = rng.choice(["int", "str", "bool", "optint", "listint", "literal"])      # open finding C12-namespace-member-name-unconverted
        ps.append({"name": names[i], "kind": "ko" if i >= n - n_ko else "pk", "type": t,
                   "default": rng.randrange(len(TYPES[t][1])) if has_d else None})
    pk = [p for p in ps if p["kind"] == "pk"]
    ko = [p for p in ps if p["kind"] == "ko"]
    if extras and rng.random() < 0.3:
        # a private parameter: with a default it is not offered (the callee gets its own default); without one it is required
        if rng.random() < 0.4:
            t = rng.choice(["int", "str", "float"])
            pk.append({"name": rng.choice(PRIVATE), "kind": rng.choice(["pk", "ko"]), "type": t, "default": None})
        else:
            t = rng.choice(["int", "str", "optint"])
            pk.append({"name": rng.choice(PRIVATE), "kind": "pk", "type": t, "default": rng.randrange(len(TYPES[t][1]))})
    ko = ko + [p for p in pk if p["kind"] == "ko"]
    pk = [p for p in pk if p["kind"] == "pk"]
    # python syntax: positional-or-keyword parameters without default come first
    pk = [p for p in pk if p["default"] is None] + [p for p in pk if p["default"] is not None]
    out = pk
    if extras and rng.random() < 0.15:
        out = out + [{"name": "args", "kind": "vp", "type": None, "default": None}]
    out = out + ko
    if extras and rng.random() < 0.15:
        out = out + [{"name": "kwargs", "kind": "vk", "type": None, "default": None}]
    return out


def gen_func(rng, name, names=None):
    n = rng.randint(1, 6) if rng.random() < 0.9 else 0
    pool = list(names or NAMES)
    rng.shuffle(pool)
    return {"kind": "func", "name": name, "sig": gen_sig(rng, n, pool)}


def gen_class(rng, name):
    pool = list(NAMES)
    rng.shuffle(pool)
    ni = rng.randint(0, 4)
    init = gen_sig(rng, ni, pool[:ni])
    nm = rng.choice([0, 1, 1, 2, 2, 3])
    methods = []
    for mname in rng.sample(METHODS, nm):
        k = rng.randint(0, 4)
        # a method's option must not be a proper prefix of two options of the class parser: the pool is prefix-free
        mp = list(NAMES)
        rng.shuffle(mp)
        # constructor and method often share parameter names (each must still receive only its own values)
        shared = [p["name"] for p in init if p["kind"] in ("pk", "ko") and not p["name"].startswith("_")]
        rng.shuffle(shared)
        names = (shared[: rng.randint(0, len(shared))] if rng.random() < 0.6 else [])
        names = (names + [n for n in mp if n not in names])[:k]
        rng.shuffle(names)
        methods.append({"name": mname, "sig": gen_sig(rng, k, names)})
    return {"kind": "cls", "name": name, "init": init, "methods": methods}


def gen_tree(rng, idx):
    r = rng.random()
    if r < 0.35:
        return {"comp": gen_func(rng, "f%d" % idx)}
    if r < 0.6:
        return {"comp": gen_class(rng, "K%d" % idx)}
    if r < 0.8:
        n = rng.randint(1, 4)
        return {"list": [gen_func(rng, "f%d_%d" % (idx, i)) if rng.random() < 0.8 else gen_class(rng, "K%d_%d" % (idx, i)) for i in range(n)]}
    # nested dict of functions (and sometimes a class)
    cnt = [0]

    def node(depth):
        items = []
        for k in rng.sample(["grp", "tools", "db", "net", "misc"], rng.randint(1, 3)):
            if depth < 2 and rng.random() < 0.4:
                items.append([k, node(depth + 1)])
            else:
                cnt[0] += 1
                c = gen_func(rng, "f%d_%d" % (idx, cnt[0])) if rng.random() < 0.85 else gen_class(rng, "K%d_%d" % (idx, cnt[0]))
                items.append([k, {"comp": c}])
        return {"dict": items}

    return node(0)


def assignments(rng, sig, max_n):
    """valid assignments of the visible parameters: {name: value index}; all given/absent subsets of the optional
    ones when few, a sample otherwise"""
    vis = [p for p in sig if visible(p)]
    req = [p for p in vis if not eff_default(p)[0]]
    opt = [p for p in vis if eff_default(p)[0]]

    def pick(p):
        return rng.randrange(len(TYPES[p["type"]][1]))

    subsets = []
    if len(opt) <= 3:
        for r in range(len(opt) + 1):
            subsets.extend(itertools.combinations(opt, r))
        rng.shuffle(subsets)
    else:
        subsets = [tuple(), tuple(opt)] + [tuple(p for p in opt if rng.random() < 0.5) for _ in range(max_n)]
    out = []
    for s in subsets[:max_n]:
        out.append({p["name"]: pick(p) for p in list(req) + list(s)})
    return out


def negative_safe(case):
    """negative numbers only travel as `--opt=-4` or in a config (as a positional, `-4` is argparse's business)"""
    if case["channel"] == "config" or not case["as_pos"]:
        return True
    c = selected(case)
    sigs = [(c["sig"] if c["kind"] == "func" else c["init"], case["top"])]
    if c["kind"] == "cls" and c["methods"]:
        sigs.append(([x for x in c["methods"] if x["name"] == case["method"]][0]["sig"], case["sub"]))
    for sig, given in sigs:
        for p in named(sig):
            if p["name"] in given and not eff_default(p)[0] and TYPES[p["type"]][1][given[p["name"]]][0].startswith("-"):
                return False
    return True


SD_TYPES = ("int", "str", "float", "bool", "optint", "listint", "literal")


def ext_cases(rng, idx):
    """single components with positional-only parameters and / or auto_cli(set_defaults=...): the callee must receive the
    given value, else the set_defaults value, else the signature default"""
    c = gen_func(rng, "f%d" % idx) if rng.random() < 0.55 else gen_class(rng, "K%d" % idx)
    c = json.loads(json.dumps(c))
    sigs = [c["sig"]] if c["kind"] == "func" else [c["init"]] + [m["sig"] for m in c["methods"]]
    if rng.random() < 0.45:
        for sig in sigs:
            k = rng.randint(0, 2)
            if any(p["kind"] == "vk" for p in sig):
                continue        # with **kwargs a positional-only NAME given by keyword lands in kwargs (outside the model)
            for p in sig:
                if p["kind"] != "pk" or k == 0:
                    break
                p["kind"] = "po"
                k -= 1
    tree = {"comp": c}
    top_sig = c["sig"] if c["kind"] == "func" else c["init"]
    out = []
    for top in assignments(rng, top_sig, 2):
        m = rng.choice(c["methods"]) if c["kind"] == "cls" and c["methods"] else None
        sub = assignments(rng, m["sig"], 1)[0] if m else {}
        case = {"tree": tree, "path": [], "method": m["name"] if m else None, "top": dict(top), "sub": dict(sub),
                "channel": rng.choice(["argv", "config", "mixed"]), "as_pos": rng.random() < 0.7}
        if rng.random() < 0.7:
            sd = {"top": {}, "sub": {}}
            for key, sig, given in (("top", top_sig, case["top"]), ("sub", m["sig"] if m else [], case["sub"])):
                for p in sig:
                    if visible(p) and not p["name"].startswith("_") and p["type"] in SD_TYPES and p["name"] not in CLASH and rng.random() < 0.5:
                        sd[key][p["name"]] = rng.randrange(len(TYPES[p["type"]][1]))
                        if p["name"] in given and rng.random() < 0.6:
                            del given[p["name"]]            # not given: the set_defaults value must arrive
                            case["as_pos"] = False
            if sd["top"] or sd["sub"]:
                case["set_defaults"] = sd
        if not negative_safe(case):
            case["as_pos"] = False
        out.append(case)
    return out


def cases_for_tree(rng, tree, per_leaf):
    out = []
    lv = leaves(tree)
    for k, c in lv:
        path = [] if "comp" in tree or ("list" in tree and len(tree["list"]) == 1) else list(k)
        tops = assignments(rng, c["sig"] if c["kind"] == "func" else c["init"], per_leaf)
        for top in tops:
            if c["kind"] == "cls" and c["methods"]:
                m = rng.choice(c["methods"])
                subs = assignments(rng, m["sig"], 2)
            else:
                m, subs = None, [{}]
            for sub in subs:
                multi = (bool(path) and len(lv) >= 2) or (c["kind"] == "cls" and len(c["methods"]) >= 2)
                class_cfg = c["kind"] == "cls" and c["methods"] and any(visible(p) for mm in c["methods"] for p in mm["sig"])
                for ch in ("argv", "config", "mixed") + (("multiconfig",) if multi else ()) + (("classconfig",) if class_cfg else ()):
                    case = {"tree": tree, "path": path, "method": m["name"] if m else None, "top": top, "sub": sub,
                            "channel": ch, "as_pos": rng.random() < 0.75}
                    if not negative_safe(case):
                        case["as_pos"] = False
                    out.append(case)
        # one assignment with a required parameter left out
        sig = c["sig"] if c["kind"] == "func" else c["init"]
        req = [p for p in sig if visible(p) and not eff_default(p)[0]]
        if req and tops:
            top = dict(tops[0])
            del top[rng.choice(req)["name"]]
            m = rng.choice(c["methods"]) if c["kind"] == "cls" and c["methods"] else None
            sub = assignments(rng, m["sig"], 1)[0] if m else {}
            out.append({"tree": tree, "path": path, "method": m["name"] if m else None, "top": top, "sub": sub,
                        "channel": rng.choice(["argv", "config"]), "as_pos": rng.random() < 0.5, "missing": True})
    return out


# ---------------------------------------------------------------------------------------------
# known-finding signatures
# ---------------------------------------------------------------------------------------------
BASE_OPTS = ["help", "config", "print_config", "print_shtab"]


def finding_classes(case):
    """the open-finding classes the case falls into (by its signature, not by its outcome)"""
    out = set()
    c = selected(case)
    lv = leaves(case["tree"])
    top_sig = c["sig"] if c["kind"] == "func" else c["init"]
    all_sigs = []
    for _, cc in lv:
        if cc["kind"] == "func":
            all_sigs.append(("top", cc["sig"]))
        else:
            all_sigs.append(("top", cc["init"]))
            all_sigs.extend(("method", m["sig"]) for m in cc["methods"])
    for where, sig in all_sigs:
        for p in named(sig):
            if p["name"] in ("help", "print_config") or (p["name"] == "config" and where == "top"):
                out.add(F_RESERVED)          # construction error, whichever component is selected
    if any(p["name"] == "subcommand" for p in named(top_sig)):
        out.add(F_RESERVED)
    # a positional-only parameter that gets a parser argument: the parsed value is handed over by keyword
    msig0 = [x for x in c["methods"] if x["name"] == case.get("method")][0]["sig"] if c["kind"] == "cls" and c["methods"] and case.get("method") else []
    if any(p["kind"] == "po" and visible(p) for p in list(top_sig) + list(msig0)):
        out.add(F_POSONLY)
    rel = [(top_sig, case["top"])]
    if c["kind"] == "cls" and c["methods"] and case.get("method"):
        rel.append(([x for x in c["methods"] if x["name"] == case["method"]][0]["sig"], case["sub"]))
    for sig, given in rel:
        if any(p["type"] in WITNESS_TYPES and p["default"] is not None and p["name"] not in given for p in named(sig)):
            out.add(F_STRDEF)
        if any(p["name"] in CLASH and p["type"] in ("enum", "float") for p in named(sig)):
            out.add(F_ENUM_CLASH)
    for p in named(top_sig):
        if p["name"].startswith("_") and p["type"] in OPTIONAL_TYPES and p["default"] is None:
            out.add(F_PRIVATE_OPT)
    parent_opts = list(BASE_OPTS)
    if c["kind"] == "cls" and c["methods"]:
        msig = [x for x in c["methods"] if x["name"] == case["method"]][0]["sig"]
        if any(p["name"] == "config" for p in named(msig)):
            out.add(F_RESERVED)
        for p in named(msig):
            if p["name"].startswith("_") and p["type"] in OPTIONAL_TYPES and p["default"] is None:
                out.add(F_PRIVATE_OPT)
        if case["method"] == "config" or any(p["name"] == case["method"] for p in named(c["init"]) if visible(p)):
            out.add(F_PARENT_DEST)
        if case["channel"] != "config":
            # a class-typed constructor parameter NAME also brings the option --NAME.help into the class parser
            opts = parent_opts + [p["name"] for p in named(c["init"]) if visible(p)] \
                + [p["name"] + ".help" for p in named(c["init"]) if visible(p) and p["type"] == "widget"]
            for p in named(msig):
                if p["name"] in case["sub"] and sum(1 for o in opts if o.startswith(p["name"]) and o != p["name"]) >= 2:
                    out.add(F_PREFIX)
    if case["path"] and case["channel"] != "config":
        for p in named(top_sig):
            if p["name"] in case["top"] and sum(1 for o in parent_opts if o.startswith(p["name"]) and o != p["name"]) >= 2:
                out.add(F_PREFIX)
    if any(k == "config" for k in case["path"]):
        out.add(F_PARENT_DEST)
    return out


# ---------------------------------------------------------------------------------------------
# evaluation of one case
# ---------------------------------------------------------------------------------------------
def oracle_deviation(case, real):
    """the property on the real code; returns a description or None"""
    exp = expectation(case)
    if exp[0] == "parse":
        if real["calls"]:
            return "a required parameter is missing and the component was called anyway: %s" % json.dumps(real["calls"])[:200]
        if real["kind"] != "parse":
            return "a required parameter is missing: expected a parse error (exit status 2), got %s %s" % (real["kind"], real.get("msg", ""))
        return None
    if real["kind"] != "ok":
        return "valid values given, auto_cli fails: %s %s" % (real["kind"], real.get("msg", real.get("stderr", "")))
    if real["calls"] != exp[1]:
        return "recorded calls differ from the signature's binding: got %s expected %s" % (json.dumps(real["calls"])[:300], json.dumps(exp[1])[:300])
    if real["ret"] != exp[2]:
        return "auto_cli returned %s instead of the return value of %s" % (real["ret"], exp[2])
    return None


def corr_diff(case, real, m):
    """real vs model; returns a description or None"""
    mv = model_view(m)
    if F_PARENT_DEST in finding_classes(case) and {real["kind"], mv["kind"]} <= {"parse", "ok"} and case["channel"] != "argv":
        # a subcommand called `config` with a --config somewhere above it: which level's `config` key holds what is beyond
        # the model's one-level view
        return None
    if real["kind"] != mv["kind"]:
        return "outcome: real %s %s, model %s" % (real["kind"], real.get("msg", real.get("stderr", "")), mv["kind"])
    if real["kind"] == "ok":
        if real["calls"] != mv["calls"]:
            return "call log: real %s, model %s" % (json.dumps(real["calls"])[:300], json.dumps(mv["calls"])[:300])
        if real["ret"] != mv["ret"]:
            return "return value: real %s, model %s" % (real["ret"], mv["ret"])
    elif real["calls"] != mv["calls"]:
        return "calls before the failure: real %s, model %s" % (json.dumps(real["calls"])[:200], json.dumps(mv["calls"])[:200])
    ms = model_structure(m) if not case.get("set_defaults") else None      # (the structure holds the overridden defaults)
    if real["structure"] is not None and ms is not None and real["structure"] != ms:
        return "parser structure: real %s, model %s" % (json.dumps(real["structure"])[:400], json.dumps(ms)[:400])
    return None


def case_rng(case):
    return random.Random(hashlib.sha256(json.dumps(case, sort_keys=True).encode()).hexdigest())


def evaluate(case, tmp=None):
    argv = build_argv(case, case_rng(case), tmp)
    real = real_run(case, argv)
    return argv, real


def shrink_case(case, still_bad):
    """drop components, methods and parameters while the failure persists"""
    cur = json.loads(json.dumps(case))
    changed = True
    while changed:
        changed = False
        for cand in shrink_candidates(cur):
            try:
                if still_bad(cand):
                    cur, changed = cand, True
                    break
            except Exception:  # noqa: BLE001
                continue
    return cur


def shrink_candidates(case):
    def clone():
        return json.loads(json.dumps(case))

    sel = selected(case)
    # parameters of the selected component
    for field, given in (("sig", "top"), ("init", "top")):
        if field in sel:
            for i, p in enumerate(sel[field]):
                c = clone()
                s = selected(c)
                del s[field][i]
                c[given].pop(p["name"], None)
                yield c
    if sel["kind"] == "cls":
        for mi, m in enumerate(sel["methods"]):
            if m["name"] != case.get("method"):
                c = clone()
                del selected(c)["methods"][mi]
                yield c
            else:
                for i, p in enumerate(m["sig"]):
                    c = clone()
                    del selected(c)["methods"][mi]["sig"][i]
                    c["sub"].pop(p["name"], None)
                    yield c
    # given values
    for g in ("top", "sub"):
        for k in list(case[g]):
            c = clone()
            del c[g][k]
            yield c
    if "list" in case["tree"] and len(case["tree"]["list"]) > 2:
        for i, cc in enumerate(case["tree"]["list"]):
            if cc["name"] != sel["name"]:
                c = clone()
                del c["tree"]["list"][i]
                yield c


# ---------------------------------------------------------------------------------------------
# the check
# ---------------------------------------------------------------------------------------------
def run_cases(ctx: Ctx, cases, origin, tmp, wide=False):
    """evaluate cases on the real code, the model and the oracle; report"""
    lines = [model_line(c) for c in cases]
    model = None
    if lines:
        try:
            model = ctx.driver("Cli", lines)
        except MachineryError as ex:
            if ctx.lean_ok:
                raise
            ctx.tie_break("correspondence E10a not runnable (model does not build)", str(ex))
    n_bad_corr = 0
    for i, case in enumerate(cases):
        argv, real = evaluate(case, tmp)
        ctx.count()
        fc = finding_classes(case)
        dev = oracle_deviation(case, real)
        if real["kind"] == "ok" and real["calls"]:
            ctx.nontrivial(json.dumps([tree_src(case["tree"]), argv], sort_keys=True))
        ctx.hist("channel", case["channel"])
        ctx.hist("outcome", real["kind"])
        sel = selected(case)
        ctx.hist("component", ("class/%d methods" % len(sel["methods"]) if sel["kind"] == "cls" else "function") +
                 ("" if "comp" in case["tree"] else " in list" if "list" in case["tree"] else " in dict"))
        if dev is not None:
            known = sorted(f for f in fc if ctx.is_open(f))
            if known:
                ctx.known(known[0], "%s (argv %s)" % (dev[:160], json.dumps(argv)[:120]))
            else:
                def still(c):
                    a, r = evaluate(c, tmp)
                    return oracle_deviation(c, r) is not None and not any(ctx.is_open(f) for f in finding_classes(c))

                if len(ctx.violations) >= 5:
                    ctx.violation("auto_cli does not call the component with the parsed values: " + dev, {"kind": "case", "case": case})
                    continue
                small = shrink_case(case, still)
                a2, r2 = evaluate(small, tmp)
                ctx.violation("auto_cli does not call the component with the parsed values: %s" % (oracle_deviation(small, r2) or dev),
                              {"kind": "case", "origin": origin, "case": small, "argv": a2, "module": tree_src(small["tree"]), "observed": r2})
        # correspondence (the abbreviation-matching finding is outside the model)
        init_subcommand = sel["kind"] == "cls" and sel["methods"] and any(p["name"] == "subcommand" for p in named(sel["init"]))
        if model is not None and F_PREFIX not in fc and F_ENUM_CLASH not in fc and F_STRDEF not in fc and not init_subcommand:
            d = corr_diff(case, real, model[i])
            if d is not None:
                n_bad_corr += 1
                if os.environ.get("VERIF_C12_DEBUG"):
                    print("CORR", d[:300], json.dumps(argv), json.dumps(case)[:700], file=sys.stderr)
                if n_bad_corr <= 3:
                    ctx.tie_break("correspondence E10a (auto_cli model vs jsonargparse._cli) disagrees",
                                  json.dumps({"diff": d, "argv": argv, "case": case, "module": tree_src(case["tree"])}, ensure_ascii=True)[:1900])
    return n_bad_corr


def exhaustive_small(max_params):
    import itertools as it

    shapes = [(k, d, t) for k in ("pk", "ko") for d in (False, True) for t in ("int", "optint")]
    sigs = [[]]
    for n in range(1, max_params + 1):
        for combo in it.product(shapes, repeat=n):
            ps = [{"name": ["alpha", "beta"][i], "kind": k, "type": t, "default": (1 if d else None)} for i, (k, d, t) in enumerate(combo)]
            pk = [p for p in ps if p["kind"] == "pk"]
            ko = [p for p in ps if p["kind"] == "ko"]
            if [p["default"] is None for p in pk] != sorted([p["default"] is None for p in pk], reverse=True):
                continue                     # python syntax: a parameter without default after one with default
            sigs.append(pk + ko)
    cases, idx = [], 0
    for sig in sigs:
        idx += 1
        vis = [p for p in sig if visible(p)]
        req = [p for p in vis if not eff_default(p)[0]]
        opt = [p for p in vis if eff_default(p)[0]]
        assigns = []
        for r in range(len(opt) + 1):
            for sub in it.combinations(opt, r):
                assigns.append({p["name"]: (2 if p["type"] == "int" else 1) for p in list(req) + list(sub)})
        f = {"kind": "func", "name": "e%d" % idx, "sig": sig}
        k = {"kind": "cls", "name": "E%d" % idx, "init": sig, "methods": [{"name": "fit", "sig": sig}, {"name": "stop", "sig": []}]}
        for a in assigns:
            for ch in ("argv", "config", "mixed"):
                for as_pos in (True, False):
                    cases.append({"tree": {"comp": f}, "path": [], "method": None, "top": a, "sub": {}, "channel": ch, "as_pos": as_pos})
                    cases.append({"tree": {"comp": k}, "path": [], "method": "fit", "top": a, "sub": a, "channel": ch, "as_pos": as_pos})
        for p in req:
            a = {q["name"]: 2 for q in req if q is not p}
            cases.append({"tree": {"comp": f}, "path": [], "method": None, "top": a, "sub": {}, "channel": "argv", "as_pos": True, "missing": True})
    return cases


def vocab_cases():
    """fixed-seed sweep over the CLI's own vocabulary (independent of VERIF_SEED)"""
    rng = random.Random(20260926)
    cases = []
    idx = 0
    for name in VOCAB:
        for has_d in (True, False):
            for t in ("int", "str", "optint"):
                idx += 1
                p = {"name": name, "kind": "pk", "type": t, "default": 1 if has_d else None}
                q = {"name": "alpha", "kind": "pk", "type": "int", "default": 0}
                sig = [p, q] if not has_d else [q, p]
                given = {name: 0 if t != "optint" else 1}
                # as a function, as a function in a list, as a constructor parameter, as a method parameter
                f = {"kind": "func", "name": "v%d" % idx, "sig": sig}
                other = {"kind": "func", "name": "w%d" % idx, "sig": [q]}
                trees = [({"comp": f}, [], None), ({"list": [f, other]}, [f["name"]], None)]
                if name not in ("fit", "run"):
                    trees.append(({"comp": {"kind": "cls", "name": "V%d" % idx, "init": [q], "methods": [{"name": "fit", "sig": sig}, {"name": "run", "sig": []}]}}, [], "fit"))
                trees.append(({"comp": {"kind": "cls", "name": "U%d" % idx, "init": sig, "methods": [{"name": "fit", "sig": [q]}, {"name": "run", "sig": []}]}}, [], "fit"))
                trees.append(({"comp": {"kind": "cls", "name": "T%d" % idx, "init": sig, "methods": [{"name": "fit", "sig": [q]}, {"name": "run", "sig": []}]}}, [], "run"))
                for tree, path, meth in trees:
                    sel_is_method_sig = meth == "fit" and tree["comp"]["name"].startswith("V") if "comp" in tree else False
                    for ch in ("argv", "config"):
                        for gv in (given, {}):
                            if not gv and not has_d and t != "optint":
                                continue
                            case = {"tree": tree, "path": path, "method": meth, "channel": ch, "as_pos": rng.random() < 0.5,
                                    "top": {} if sel_is_method_sig else dict(gv), "sub": dict(gv) if sel_is_method_sig else {}}
                            cases.append(case)
    # private Optional parameter without default
    for t in ("optint",):
        f = {"kind": "func", "name": "vp0", "sig": [{"name": "_hid", "kind": "pk", "type": t, "default": None}, {"name": "alpha", "kind": "pk", "type": "int", "default": 0}]}
        cases.append({"tree": {"comp": f}, "path": [], "method": None, "channel": "argv", "as_pos": True, "top": {}, "sub": {}})
    # subcommands called `config`
    f = {"kind": "func", "name": "config", "sig": [{"name": "alpha", "kind": "pk", "type": "int", "default": 0}]}
    g = {"kind": "func", "name": "other", "sig": [{"name": "alpha", "kind": "pk", "type": "int", "default": 0}]}
    for sel in ("config", "other"):
        cases.append({"tree": {"list": [f, g]}, "path": [sel], "method": None, "channel": "argv", "as_pos": True, "top": {"alpha": 0}, "sub": {}})
    k = {"kind": "cls", "name": "KC", "init": [], "methods": [{"name": "config", "sig": []}, {"name": "other", "sig": []}]}
    for sel in ("config", "other"):
        cases.append({"tree": {"comp": k}, "path": [], "method": sel, "channel": "argv", "as_pos": True, "top": {}, "sub": {}})
    return cases


def run(ctx: Ctx):
    repo_python_path()
    ctx.rule = ("case = (component tree: function | class with 0-3 methods | list | nested dict; signature of 0-6 typed parameters from "
                "{int,str,float,bool,Optional[int],List[int],Literal,Enum,Union[int,str],Any,Union[str,List[str]]} (string values include names of files that exist in the working directory), with/without default, positional-or-keyword / keyword-only, plus "
                "private, *args, **kwargs; assignment of given values; channel argv | --config | mixed; as_positional) run through the real "
                "auto_cli from a generated module; compared with the Lean model (parser structure + call log + return value + error class) and "
                "with the binding expected from the signature; non-trivial = the component was really called; distinct by (module source, argv)")
    ctx.assumptions = [
        "type conversion of a single value (text/config value -> Python value) is taken from a hand-written table per type; its correctness is C02/C05",
        "generated parameter names avoid the CLI's own keys and prefixes of two parent options (open findings); those are covered by the fixed-seed vocabulary sweep",
        "docstrings, coroutines, properties and untyped parameters are outside; positional-only parameters and set_defaults are generated for single components",
    ]
    ctx.lean_build(extractors=["cli_tables"])
    tmp = tempfile.mkdtemp(prefix="c12cfg_")
    cwd = os.getcwd()
    try:
        enter_workdir(tmp)
        from ..lib import corpus as corpus_mod

        corpus_cases = [c["case"] for c in corpus_mod.load(ctx.prop)]
        bad = run_cases(ctx, corpus_cases, "corpus", tmp)

        # generated trees
        n_trees = ctx.budget(78, 850) * (2 if ctx.search_boost > 1 else 1)
        cases = []
        for i in range(n_trees):
            tree = gen_tree(ctx.rng, i)
            cs = cases_for_tree(ctx.rng, tree, ctx.budget(4, 8))
            cases.extend(cs)
        for c in cases[:3]:
            ctx.sample({"argv": build_argv(c, case_rng(c)), "module": tree_src(c["tree"])[len(PREAMBLE):][:600]})
        bad += run_cases(ctx, cases, "generated", tmp)

        # positional-only parameters and auto_cli(set_defaults=...) on single components
        xcases = []
        for i in range(ctx.budget(60, 500)):
            xcases.extend(ext_cases(ctx.rng, i))
        bad += run_cases(ctx, xcases, "extended", tmp)
        ctx.extra["positional_only_and_set_defaults_cases"] = len(xcases)

        # exhaustive small scope: every signature of up to 1 (quick) / 2 (thorough) parameters over kind x default x
        # {int, Optional[int]}, as a function and as constructor + method, every assignment, every channel
        ex = exhaustive_small(2 if ctx.thorough else 1)
        bad += run_cases(ctx, ex, "exhaustive", tmp)
        ctx.extra["exhaustive_small_signatures"] = {"max_params": 2 if ctx.thorough else 1, "cases": len(ex)}

        # the CLI's own vocabulary, fixed seed
        vc = vocab_cases()
        bad += run_cases(ctx, vc, "vocabulary", tmp, wide=True)
        ctx.extra["cases"] = {"corpus": len(corpus_cases), "generated": len(cases), "vocabulary": len(vc), "trees": n_trees}
        ctx.extra["correspondence_disagreements"] = bad

        # replay of catalogued findings
        for f in ctx.open_findings():
            case = f["witness"]["case"]
            argv, real = evaluate(case, tmp)
            if oracle_deviation(case, real) is not None:
                ctx.known(f["id"], f["description"][:200])
            else:
                ctx.stale_findings.append(f["id"])
    finally:
        os.chdir(cwd)
        shutil.rmtree(tmp, ignore_errors=True)
        cleanup()


def enter_workdir(tmp):
    """the cases run in a directory that contains FILES: values that name them are ordinary strings for the callee"""
    for name, content in FILES.items():
        with open(os.path.join(tmp, name), "w") as f:
            f.write(content)
    os.chdir(tmp)


def replay(ctx: Ctx, body):
    repo_python_path()
    rp = body["replay"]
    if rp.get("kind") != "case":
        print("nothing to replay:", json.dumps(rp)[:500])
        return 1
    case = rp["case"]
    tmp = tempfile.mkdtemp(prefix="c12cfg_")
    cwd = os.getcwd()
    try:
        enter_workdir(tmp)
        argv, real = evaluate(case, tmp)
        print(tree_src(case["tree"])[len(PREAMBLE):])
        print("working directory contains:", sorted(FILES))
        print("auto_cli(<component>, args=%r, as_positional=%r)" % (argv, case["as_pos"]))
        print("observed:", json.dumps(real, ensure_ascii=True)[:1000])
        print("expected:", json.dumps(expectation(case), ensure_ascii=True)[:600])
        dev = oracle_deviation(case, real)
        print("deviation:", dev)
        return 1 if dev else 0
    finally:
        os.chdir(cwd)
        shutil.rmtree(tmp, ignore_errors=True)
        cleanup()

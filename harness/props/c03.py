"""C03 — Every parse failure surfaces as ArgumentError or exit status 2, nothing else.

Pipeline
 (1) regenerate Gen/ExcFlow (handler tuples and handler actions of the anchored code, error(),
     get_loader_exceptions, exit statuses, exit_on_error of internal parsers, live issubclass) and
     Gen/ExcFlowCert (candidate fixed point computed by Drv/ExcFlow.lean), build Props/C03
     (C03_routing / C03_routing_full_raising / C03_routing_exiting: every designed failure on every call path of any depth
     conforms, or - exit_on_error true only - carries the tag of the one catalogued origin left; C03_static_raises; C03_exit_codes; C03_model_total_partial; pins of the individual handlers);
 (2) SEARCH / ORACLE on the real code = the property itself: structured fuzz of parse_args / parse_object /
     parse_string / parse_env / parse_path over a grammar of option names and values, seven parser shapes,
     two loader modes (thorough: four), both exit_on_error modes, stdin closed or empty, stderr captured,
     a hard per-case timeout.  Allowed: a Namespace, ArgumentError (exit_on_error false), SystemExit(2)
     with usage + an `error:` line on stderr (exit_on_error true), SystemExit(0) only when the argv asks for
     help / print_config.  Anything else is a violation unless it matches the narrow signature of an OPEN
     known finding (known_findings.d/C03.json);
 (3) dynamic validation of the model, in the same runs: the entry points of the model's regions (stages) are
     wrapped (monkey-patching inside the harness process, no edit of /repo) and every exception is attributed
     to the innermost region boundary it crosses first (conversions `raise X from ex` are followed back to
     their origin); the observed (region, class) pairs are compared with `designed` (the undesigned ones are
     listed in the evidence: they are exactly the open findings plus attribution artefacts), and for the
     failure that decides the outcome of a conforming run the real outcome must be one that `route`
     (Drv/ExcFlow `routeRegion`: fixed point over all call paths) computes for (exit_on_error, mode, method,
     region, class);
 (4) replay of the repaired defects F02, F06, F06b, F06c and of the open findings.
"""
from __future__ import annotations

import atexit
import base64
import contextlib
import copy
import io
import json
import linecache
import os
import re
import shutil
import signal
import sys
import tempfile
import traceback

from ..lib.common import Ctx, MachineryError, jdump, repo_python_path

MANIFEST = {
    "engine": "E13-ExcFlow",
    "technique": "Lean 4 proof over regenerated exception-routing tables (least-fixed-point certificate checked by the kernel, lifted to call "
                 "paths of any depth by induction) + static raise sets of the leaf functions computed from the source and proved to be designed/"
                 "routed + structured fuzz oracle of the five parse methods with a systematic sweep of extreme values + dynamic stage attribution",
    "text": "Theorems in lean/Jap/Props/C03.lean prove, from the handler tuples / handler actions / error() / get_loader_exceptions / exit statuses / "
            "issubclass table regenerated from /repo on every run, that every failure a region of the anchored code is designed to raise reaches the "
            "caller of parse_args/parse_object/parse_string/parse_env/parse_path as ArgumentError (exit_on_error false) or exit status 2 (true), on "
            "every call path of any depth: for exit_on_error false without exception (C03_routing_full_raising), for exit_on_error true except for the one "
            "tagged origin left (get_defaults raising ArgumentError itself, an open finding with a refutation witness; the internal dataclass parser and "
            "the class-help parser were repaired by 52e5b95 / 45f35d9 and are kept as regression witnesses on the old tables); and that every run of the pipeline model under the hypothesis 'stages raise only what "
            "they are designed to' ends in ok | ArgumentError | exit 0 | exit 2. For 22 leaf functions (validation functions of the restricted types, "
            "deserializers of the registered types, loaders, import_object, ActionYesNo._boolean_type) the hypothesis is no longer assumed: "
            "C03_static_raises proves that every class in the static over-approximation of what can escape them (explicit raises, failure tables of "
            "int()/float()/timedelta()/Decimal()/json.loads.., minus the function's own handlers; regenerated from the source with the guards in front "
            "of each origin) is a designed failure of the leaf's region, or is excused by a guard present in the source / an open finding / a stated "
            "assumption; C03_static_routed composes it with the routing theorem. The hypothesis for the other stages and the property itself are "
            "attacked on the real code by a structured fuzz of all five methods (8 parser shapes; a systematic sweep of non-finite / extreme numbers, "
            "odd strings, NUL, deep nesting against every typed option through object, document, file, --cfg, argv and environment channels) with "
            "stage-boundary attribution of every exception.",
    "level_note": "Trusted: Lean kernel; axioms propext/Quot.sound/Classical.choice only; the extractors (ast + live classes), in particular the "
                  "failure tables of builtins/library callables in harness/extractors/excflow_raises.py (attacked by a self-test on every run and by "
                  "'observed class of a leaf is in its static set' in the fuzz) and the semantic claim behind each guard excuse of Core/ExcFlowRaises.lean "
                  "(its presence in front of the origin is checked, its meaning is not); the hand-written region/call structure of Core/ExcFlow.lean "
                  "(validated dynamically, not proved); the fuzz harness. Outside: undesigned (implicit) exceptions of the non-leaf stages by "
                  "construction (they are what the search hunts), Path.__init__/get_content and adapt_typehints itself as leaves, user callbacks "
                  "beyond links, ActionParser/ActionJsonnet/ActionJsonSchema, error_handler, JSONARGPARSE_DEBUG, KeyboardInterrupt/MemoryError, "
                  "inputs outside the declared parameter types.",
}

CASE_TIMEOUT = 4.0  # seconds, hard guard per parse call (termination is part of the property)
METHODS = ["parse_args", "parse_object", "parse_string", "parse_env", "parse_path"]
LEAN_METHOD = {"parse_args": "parseArgs", "parse_object": "parseObject", "parse_string": "parseString", "parse_env": "parseEnv", "parse_path": "parsePath"}
SHAPES = ["leaves", "groups", "subcommands", "subclass", "cfgfile", "links", "defcfg", "typed"]


class CaseTimeout(BaseException):
    pass


# ================================================================= temp package with importable components
_TMP = {"dir": None, "mod": None}

MOD_SRC = '''
from dataclasses import dataclass, field
from enum import Enum
from typing import Any, Dict, List, Optional, Union


class Color(Enum):
    red = 1
    blue = 2


class Base:
    def __init__(self, a: int = 1, name: str = "x"):
        self.a = a
        self.name = name


class Sub(Base):
    def __init__(self, b: float = 0.5, inner: Optional[Base] = None, tags: Optional[List[str]] = None, **kwargs):
        super().__init__(**kwargs)
        self.b = b
        self.inner = inner


class Other:
    def __init__(self, c: int = 0, color: Color = Color.red):
        self.c = c


class Req(Base):
    def __init__(self, must: int, **kwargs):
        super().__init__(**kwargs)


@dataclass
class DC:
    x: int = 1
    y: str = "a"


@dataclass
class DC2:
    d: DC = field(default_factory=DC)
    n: Optional[int] = None


def fn(x: int) -> int:
    return x


def make_base(a: int = 2) -> Base:
    return Base(a=a)


not_a_class = 3
'''


def tmp():
    if _TMP["dir"] is None:
        d = tempfile.mkdtemp(prefix="c03_")
        _TMP["dir"] = d
        atexit.register(shutil.rmtree, d, True)
        mod = "c03mod_%d" % os.getpid()
        with open(os.path.join(d, mod + ".py"), "w") as f:
            f.write(MOD_SRC)
        sys.path.insert(0, d)
        _TMP["mod"] = mod
        os.makedirs(os.path.join(d, "files"))
        os.makedirs(os.path.join(d, "files", "adir"))
    return _TMP["dir"]


def modname():
    tmp()
    return _TMP["mod"]


# ================================================================= parser shapes
def build_parser(shape, eoe, mode, variant, files_dir):
    """a fresh parser; `variant` is a small dict of booleans/strings that refine the shape"""
    import calendar
    from typing import Any, Callable, Dict, List, Literal, Optional, Tuple, Type, Union

    import jsonargparse
    from jsonargparse import ActionConfigFile, ActionYesNo, ArgumentParser
    from jsonargparse.typing import Path_fr, PositiveInt

    M = __import__(modname())
    kw = dict(exit_on_error=eoe, parser_mode=mode, prog="app")
    if variant.get("env"):
        kw.update(default_env=True, env_prefix="APP")
    else:
        kw.update(env_prefix="APP")
    if shape == "defcfg" or variant.get("defcfg"):
        kw["default_config_files"] = [os.path.join(files_dir, "default.cfg")]
    p = ArgumentParser(**kw)

    def leaves(q, small=False):
        q.add_argument("--i", type=int, default=1)
        q.add_argument("--s", type=str, default="x")
        q.add_argument("--li", type=List[int])
        q.add_argument("--la", type=List[Any])
        q.add_argument("--d", type=Dict[str, int])
        if small:
            return
        q.add_argument("--f", type=float)
        q.add_argument("--b", type=bool, default=False)
        q.add_argument("--da", type=dict)
        q.add_argument("--oi", type=Optional[int])
        q.add_argument("--u", type=Union[int, List[str], None])
        q.add_argument("--e", type=M.Color)
        q.add_argument("--lit", type=Literal["a", "b", 1])
        q.add_argument("--t", type=Tuple[int, str])
        q.add_argument("--pos", type=PositiveInt)
        q.add_argument("--any", type=Any)
        q.add_argument("--pth", type=Path_fr)
        q.add_argument("--lpth", type=List[Path_fr], enable_path=True)
        q.add_argument("--yn", action=ActionYesNo, default=False)
        q.add_argument("--plain", type=int, nargs="+")
        q.add_argument("--ch", choices=["x", "y"])

    if shape == "leaves":
        leaves(p)
        if variant.get("required"):
            p.add_argument("--req", type=int, required=True)
        if variant.get("positional"):
            p.add_argument("pos1", type=int, nargs="?")
    elif shape == "groups":
        p.add_argument("--cfg", action=ActionConfigFile)
        p.add_argument("--g.a", type=int, default=1)
        p.add_argument("--g.b.c", type=str)
        p.add_argument("--g.l", type=List[int])
        p.add_class_arguments(M.DC, "dc")
        p.add_argument("--odc", type=Optional[M.DC])
        p.add_argument("--ldc", type=List[M.DC])
        p.add_argument("--mdc", type=Dict[str, M.DC])
        p.add_argument("--dc2", type=M.DC2)
        p.add_class_arguments(M.Base, "cls")
        from jsonargparse import ActionParser

        inner = ArgumentParser(exit_on_error=eoe)
        inner.add_argument("--v", type=int, default=1)
        inner.add_argument("--w.z", type=List[int])
        p.add_argument("--ap", action=ActionParser(parser=inner))
    elif shape == "subcommands":
        p.add_argument("--cfg", action=ActionConfigFile)
        p.add_argument("--t", type=int, default=0)
        # what the sub-command parsers are CONSTRUCTED with: add_subcommand must overwrite it with the root's mode
        sub_eoe = variant.get("sub_eoe", "same")

        def sub_parser():
            if sub_eoe == "default":
                return ArgumentParser()
            if sub_eoe == "opposite":
                return ArgumentParser(exit_on_error=not eoe)
            return ArgumentParser(exit_on_error=eoe)

        s1 = sub_parser()
        s1.add_argument("--a", type=int, default=1)
        s1.add_argument("--n.x", type=str)
        s1.add_argument("--lst", type=List[int])
        s2 = sub_parser()
        s2.add_argument("--b", type=List[int])
        s2.add_argument("--c", type=Optional[M.Base])
        sc = p.add_subcommands(required=bool(variant.get("required", True)))
        sc.add_subcommand("s1", s1)
        sc.add_subcommand("s2", s2)
        if variant.get("nested"):
            x = sub_parser()
            x.add_argument("--p", type=int)
            y = sub_parser()
            y.add_argument("--q", type=Dict[str, int])
            sc2 = s2.add_subcommands(required=True, dest="sub2")
            sc2.add_subcommand("x", x)
            sc2.add_subcommand("y", y)
    elif shape == "subclass":
        p.add_argument("--cfg", action=ActionConfigFile)
        p.add_argument("--c", type=M.Base)
        p.add_argument("--oc", type=Optional[M.Base])
        p.add_argument("--lc", type=List[M.Base])
        p.add_argument("--mc", type=Dict[str, M.Base])
        p.add_argument("--cal", type=calendar.Calendar)
        p.add_argument("--fn", type=Callable[[int], int])
        p.add_argument("--fc", type=Callable[[int], M.Base])
        p.add_argument("--ty", type=Type[M.Base])
        p.add_argument("--uc", type=Union[M.Other, int])
        # subclass-typed arguments whose DEFAULT carries init_args (lazy_instance / dict spec): a source that is merged with the
        # defaults (config text, file, environment, default config file) may then name the class alone
        from jsonargparse import lazy_instance

        p.add_argument("--dm", type=M.Base, default=lazy_instance(M.Sub, a=5, b=0.1))
        p.add_argument("--dd", type=M.Base, default={"class_path": modname() + ".Sub", "init_args": {"a": 5, "b": 0.1}})
        p.add_argument("--dn", type=Optional[M.Base],
                       default=lazy_instance(M.Sub, a=3, inner=lazy_instance(M.Base, a=7)))
        if variant.get("required"):
            p.add_argument("--rc", type=M.Req, required=True)
    elif shape in ("cfgfile", "defcfg"):
        p.add_argument("--cfg", action=ActionConfigFile)
        leaves(p, small=True)
        p.add_argument("--g.a", type=int, default=1)
        p.add_argument("--c", type=Optional[M.Base])
        p.add_class_arguments(M.DC, "dc")
    elif shape == "typed":
        # restricted and registered types (their validation / deserializer functions are leaves of the pipeline), bare and inside
        # containers: a failure of the leaf inside List/Dict/Tuple has no Union handler above it
        import datetime
        import decimal
        import pathlib
        import uuid

        from jsonargparse.typing import (ClosedUnitInterval, Email, NonNegativeFloat, NonNegativeInt, NotEmptyStr, OpenUnitInterval,
                                         PositiveFloat, restricted_number_type, restricted_string_type)

        p.add_argument("--cfg", action=ActionConfigFile)
        p.add_argument("--pos", type=PositiveInt)
        p.add_argument("--nn", type=NonNegativeInt, default=0)
        p.add_argument("--lnn", type=List[NonNegativeInt])
        p.add_argument("--dpos", type=Dict[str, PositiveInt])
        p.add_argument("--tpos", type=Tuple[PositiveInt, NonNegativeInt])
        p.add_argument("--opos", type=Optional[PositiveInt])
        p.add_argument("--rint", type=restricted_number_type("C03Band", int, [(">=", -5), ("<", 100)]))
        p.add_argument("--rodd", type=restricted_number_type("C03Out", int, [("<", -5), (">", 5)], join="or"))
        p.add_argument("--pf", type=PositiveFloat)
        p.add_argument("--lpf", type=List[NonNegativeFloat])
        p.add_argument("--unit", type=ClosedUnitInterval)
        p.add_argument("--ounit", type=OpenUnitInterval)
        p.add_argument("--em", type=Email)
        p.add_argument("--nes", type=List[NotEmptyStr])
        p.add_argument("--hex", type=restricted_string_type("C03Hex", r"^[0-9a-f]+$"))
        p.add_argument("--td", type=datetime.timedelta)
        p.add_argument("--ltd", type=List[datetime.timedelta])
        p.add_argument("--cx", type=complex)
        p.add_argument("--dec", type=decimal.Decimal)
        p.add_argument("--ldec", type=List[decimal.Decimal])
        p.add_argument("--rng", type=range)
        p.add_argument("--uu", type=uuid.UUID)
        p.add_argument("--by", type=bytes)
        p.add_argument("--ba", type=bytearray)
        p.add_argument("--pp", type=pathlib.Path)
        p.add_argument("--fl", type=float)
        p.add_argument("--lfl", type=List[float])
        p.add_argument("--iv", type=int)
        p.add_argument("--din", type=Dict[int, int])
    elif shape == "links":
        p.add_argument("--cfg", action=ActionConfigFile)
        p.add_argument("--a", type=int, default=1)
        p.add_argument("--b", type=int, default=1)
        p.add_argument("--q", type=Optional[int])
        p.add_class_arguments(M.Base, "x")
        p.add_class_arguments(M.Other, "y")
        p.add_argument("--sub", type=M.Base)
        p.link_arguments("x.a", "y.c")
        p.link_arguments("a", "q", compute_fn=lambda v: 10 // v)
        p.link_arguments("b", "sub.init_args.a")
    else:
        raise MachineryError("unknown shape " + shape)
    return p


# option names per shape (the known ones; the grammar derives unknown / malformed ones from them)
OPTS = {
    "leaves": ["i", "s", "li", "la", "d", "f", "b", "da", "oi", "u", "e", "lit", "t", "pos", "any", "pth", "lpth", "yn", "no_yn", "plain", "ch", "req"],
    "groups": ["cfg", "g.a", "g.b.c", "g.l", "g", "g.b", "dc", "dc.x", "dc.y", "odc", "odc.x", "ldc", "mdc", "mdc.k", "dc2", "dc2.d.x", "dc2.d", "dc2.n", "cls.a", "cls.name", "cls", "ap", "ap.v", "ap.w.z", "ap.w"],
    "subcommands": ["cfg", "t", "s1.a", "s1", "s2", "a", "b", "n.x", "lst", "c", "subcommand", "p", "q", "sub2"],
    "subclass": ["cfg", "c", "c.a", "c.init_args.a", "c.class_path", "c.init_args", "c.dict_kwargs.k", "c.b", "c.inner", "c.inner.a", "c.inner.init_args.a",
                 "c.help", "oc", "oc.a", "lc", "lc.a", "mc", "mc.k", "cal", "cal.firstweekday", "fn", "fc", "fc.a", "ty", "uc", "uc.c", "rc", "rc.must",
                 "dm", "dm", "dd", "dd", "dn", "dm.a", "dd.init_args.b", "dn.inner", "dn.inner.a", "dm.class_path", "dd.class_path", "dn.init_args.inner.class_path"],
    "cfgfile": ["cfg", "i", "s", "li", "la", "d", "g.a", "c", "c.a", "dc", "dc.x"],
    "defcfg": ["cfg", "i", "s", "li", "la", "d", "g.a", "c", "c.a", "dc", "dc.x"],
    "links": ["cfg", "a", "b", "q", "x.a", "x.name", "y.c", "y.color", "sub", "sub.a", "sub.init_args.a"],
    "typed": ["cfg", "pos", "nn", "lnn", "dpos", "dpos.k", "tpos", "opos", "rint", "rodd", "pf", "lpf", "unit", "ounit", "em", "nes", "hex", "td", "ltd", "cx",
              "dec", "ldec", "rng", "uu", "by", "ba", "pp", "fl", "lfl", "iv", "din"],
}


# ================================================================= grammar
def strs(m):
    """value strings; @... markers are resolved at run time"""
    return [
        "", " ", "-", "--", "null", "true", "false", "1", "-1", "0", "1.5", "1e3", "0x_", "._", "0b_", ".inf", ".nan", "0x1f", "0o17", "1_000",
        "[1, 2", '{"a": 1', "[1, 2]", '["a", "b"]', '{"a": 1}', "{a: 1}", '{"a": {"b": [1, {"c": null}]}}', "[]", "{}", "[[[[[[1]]]]]]",
        "&a [*a]", "*a", "&a 1", "cfg: x", "{cfg: 3}", "cfg: @F:good", "[&a 1, *a]", "&a [1, *a, 2]", "{k: &a [*a]}", "!!python/object:os.system x", "!!binary x", "!!set {a, b}",
        "? [1]\n: 1", '"', "'", "a: b: c", "\t", "a\x00b", "é", " ", "x" * 300, "@HUGEINT", "9" * 400, "-0", "nan", "inf", "1e999", "yes", "~",
        "\u00b2", "\u00b9\u00b2\u00b3", "-\u00b3", "\u2460", " \u00b2 ", "\u0663", "\u00bd", "\uff11", "1\u00b2", "\u00b2.5", "1e\u00b2", "0x1\u00b2",
        "no.such", "os.nosuch", "os.path", "os.sep", "calendar.Calendar", "calendar.TextCalendar", "calendar", "Calendar", "TextCalendar",
        m + ".Base", m + ".Sub", m + ".Other", m + ".Req", m + ".fn", m + ".make_base", m + ".DC", m + ".not_a_class", m + ".nosuch", "Base", "Sub", "Other",
        "a..b", ".a", "a.", "1.2.3", "a b", "x,y", "a=b", "=",
        '{"class_path": "%s.Sub", "init_args": {"b": 1.5}}' % m, '{"class_path": "%s.Sub", "init_args": {"b": "x"}}' % m,
        '{"class_path": 3}', '{"class_path": null}', '{"class_path": ["a"]}', '{"class_path": "%s.Sub", "init_args": 3}' % m,
        '{"class_path": "%s.Sub", "init_args": [1]}' % m, '{"class_path": "%s.Sub", "init_args": {"nope": 1}}' % m,
        '{"class_path": "%s.Sub", "dict_kwargs": 3}' % m, '{"class_path": "%s.Sub", "dict_kwargs": {"z": "[1"}}' % m,
        '{"class_path": "%s.Sub", "init_args": {"inner": {"class_path": "%s.Base", "init_args": {"a": "q"}}}}' % (m, m),
        '{"class_path": "%s.Sub", "init_args": {"inner": "no.such"}}' % m, '{"init_args": {"a": 1}}', '{"class_path": "no.such"}',
        '{"class_path": "os.sep"}', '{"class_path": "%s.Other"}' % m, '{"class_path": "%s.Req"}' % m, '{"x": "a"}', '{"x": 1, "zz": 2}', '[{"x": "a"}]',
        '[{"x": 1}, 3]', '{"k": {"x": "a"}}', '{"d": {"x": "q"}}', '{"d": 3}',
        "@F:good", "@F:bad", "@F:bin", "@F:list", "@F:empty", "@F:scalar", "@F:alias", "@F:nested", "@D", "@M", "@F:good ", "adir", "./", "/", "/dev/null", "~",
    ]


def gen_value(rng, m):
    pool = strs(m)
    return rng.choice(pool)


def mutate_name(rng, name):
    r = rng.random()
    if r < 0.55:
        return name
    if r < 0.62:
        return name + "+"
    if r < 0.66:
        return name + ".zz"
    if r < 0.70:
        return name.replace(".", "..", 1) if "." in name else name + "..x"
    if r < 0.73:
        return name + "."
    if r < 0.76:
        return "." + name
    if r < 0.80:
        return rng.choice(["zz", "zz.y", "g.zz", "c.zz", "c.init_args.zz", "", "+", ".", "..", "a b", "é", "print_config", "help", "print_shtab", "cfg+", "__path__",
                           "class_path", "init_args", "dict_kwargs", "c.class_path.x", "subcommand", "s1", "s2.b", "s2.x.p", "x.p"])
    if r < 0.84:
        return name + ".help"
    if r < 0.88:
        return name + ".init_args.a"
    if r < 0.91:
        return name + ".class_path"
    if r < 0.94:
        return name + ".dict_kwargs.k"
    if r < 0.97:
        return name[: max(1, len(name) - 1)]  # abbreviation
    return name + "=" if rng.random() < 0.5 else name.upper()


def gen_argv(rng, shape, m):
    n = rng.choice([0, 1, 1, 1, 2, 2, 3, 4, 6])
    out = []
    opts = OPTS[shape]
    for _ in range(n):
        r = rng.random()
        if r < 0.06:
            out.append(rng.choice(["--help", "-h", "--print_config", "--print_config=skip_null", "--print_config=zz", "--print_config=", "--he", "--print_c",
                                   "--print_shtab=bash", "--c.help", "--c.help=%s.Sub" % m, "--cal.help=calendar.Calendar", "--c.help=no.such", "--version"]))
            continue
        if r < 0.12:
            out.append(rng.choice(["--", "-", "---", "--=", "--=1", "=", "-x", "-1", "s1", "s2", "x", "y", "s3", "", " ", "junk", "3", "-i", "-i=1", "--i", "--cfg", "@F:good"]))
            continue
        name = mutate_name(rng, rng.choice(opts))
        val = gen_value(rng, m)
        if rng.random() < 0.6:
            out.append("--%s=%s" % (name, val))
        else:
            out.append("--" + name)
            if rng.random() < 0.9:
                out.append(val)
            if rng.random() < 0.1:
                out.append(gen_value(rng, m))
    if shape == "subcommands" and rng.random() < 0.7:
        pos = rng.randint(0, len(out))
        out.insert(pos, rng.choice(["s1", "s1", "s2", "s2", "s3"]))
        if rng.random() < 0.5:
            # something for the sub-command parser itself to reject (or accept)
            out.append(rng.choice(["--a=x", "--a", "--zz=1", "--lst=[1, 2", "--n.x", "--b=x", "--b=[1]", "--c=no.such", "--a=2", "junk", "--n.zz=1"]))
        if rng.random() < 0.3:
            out.append(rng.choice(["x", "y", "z"]))
            if rng.random() < 0.6:
                out.append("--%s=%s" % (rng.choice(["p", "q", "q.k", "zz"]), gen_value(rng, m)))
    return out


def obj_values(m):
    """python values for config objects (JSON-able; markers resolved at run time)"""
    return [
        None, True, False, 0, 1, -1, 1.5, "x", "", "1", "null", "[1, 2", "0x_", "&a [*a]", [], {}, [1, 2], ["a"], [1, "a", None], [[1], [2]], {"a": 1}, {"a": {"b": 1}},
        {"a.b": 1}, {"": 1}, {"a b": 1}, {"a..b": 1}, [None], [{"x": 1}], [{"x": "a"}], [{"zz": 1}], [3], {"k": {"x": "a"}}, {"k": 3}, {"x": "a"}, {"x": 1, "zz": 2}, {"d": 3},
        {"d": {"x": "q"}}, "@SELFLIST", "@SELFDICT", "@HUGEINTV", "@NAN", "@INF", "@DEEP", "@TUPLE", "@SET", "@BYTES", "@OBJECT", "@NS",
        m + ".Sub", m + ".Base", "no.such", "os.sep", "os.nosuch", m + ".fn", m + ".not_a_class", "Sub", "calendar.Calendar",
        {"class_path": m + ".Sub"}, {"class_path": m + ".Sub", "init_args": {"b": 1.5}}, {"class_path": m + ".Sub", "init_args": {"b": "x"}},
        {"class_path": 3}, {"class_path": None}, {"class_path": ["a"]}, {"class_path": {}}, {"class_path": m + ".Sub", "init_args": 3},
        {"class_path": m + ".Sub", "init_args": [1]}, {"class_path": m + ".Sub", "init_args": None}, {"class_path": m + ".Sub", "init_args": {"nope": 1}},
        {"class_path": m + ".Sub", "init_args": {"": 1}}, {"class_path": m + ".Sub", "init_args": {"a.b": 1}},
        {"class_path": m + ".Sub", "dict_kwargs": 3}, {"class_path": m + ".Sub", "dict_kwargs": {"z": 1}}, {"class_path": m + ".Sub", "dict_kwargs": None},
        {"class_path": m + ".Sub", "init_args": {"inner": {"class_path": m + ".Base", "init_args": {"a": "q"}}}},
        {"class_path": m + ".Sub", "init_args": {"inner": "no.such"}}, {"init_args": {"a": 1}}, {"class_path": "no.such"}, {"class_path": "os.sep"},
        {"class_path": m + ".Other"}, {"class_path": m + ".Req"}, {"class_path": m + ".Sub", "zz": 1}, {"class_path": m + ".Sub", "__path__": "x"},
        "@F:good", "@F:bad", "@F:bin", "@D", "@M",
    ]


def gen_obj(rng, shape, m, depth=0):
    """a config object: nested dict over (mutated) option names"""
    opts = OPTS[shape]
    d = {}
    for _ in range(rng.choice([0, 1, 1, 2, 2, 3, 4])):
        name = mutate_name(rng, rng.choice(opts))
        if rng.random() < 0.1:
            name = rng.choice(["subcommand", "s1", "s2", "sub2", "__path__", "__default_config__", "cfg", "zz"])
        val = copy.deepcopy(rng.choice(obj_values(m)))
        if rng.random() < 0.35 and "." in name:
            # nest instead of dotting
            parts = name.split(".")
            cur = d
            ok = True
            for q in parts[:-1]:
                nxt = cur.setdefault(q, {})
                if not isinstance(nxt, dict):
                    ok = False
                    break
                cur = nxt
            if ok:
                cur[parts[-1]] = val
                continue
        d[name] = val
    if shape == "subcommands" and rng.random() < 0.6:
        d.setdefault("subcommand", rng.choice(["s1", "s2", "s3", None, 3, ["s1"], {"a": 1}, ""]))
        if rng.random() < 0.7:
            d.setdefault(rng.choice(["s1", "s2"]), copy.deepcopy(rng.choice([{}, {"a": 1}, {"a": "x"}, {"b": [1]}, {"zz": 1}, None, 3, [1], "x", {"sub2": "x", "x": {"p": 1}}, {"sub2": "z"}, {"x": 3}])))
    return d


def default_cfg_with_init_args(m, mode):
    """default config documents that give a subclass-typed argument non-empty init_args"""
    docs = [{"c": {"class_path": m + ".Sub", "init_args": {"a": 5, "b": 0.1}}},
            {"c": {"class_path": m + ".Sub", "init_args": {"a": 5, "inner": {"class_path": m + ".Base", "init_args": {"a": 7}}}}},
            {"dm": {"class_path": m + ".Base", "init_args": {"a": 9}}},
            {"dd": m + ".Base"}, {"dm": {"class_path": m + ".Sub"}}, {"dn": m + ".Base"}, {"c": m + ".Base"}]
    return docs


RAW_TEXTS = [
    "", " ", "\n", "[1]", "3", "null", "x", "\u00b2", "-\u00b3", " \u2460 ", "i: \u00b2", "li: [\u00b2, \u0663]", "f: \u00b2.5", "a: 1\n---\nb: 2\n", "a: [\n", "{", "}", "a: b: c", "\ta: 1", "a: 1\n\tb: 2", "? [1]\n: 1", "1: 1", "null: 1", "true: 1", '"": 1',
    "i: 0x_", "s: ._", "i: 0b_", "la: &a [*a]", "la: &a\n- *a\n", "la: [&a [1], *a, *a]", "la: *nope", "i: !!python/object:os.system x", "s: !!binary x",
    "d: !!set {a, b}", "li: !!python/tuple [1]", "a\x00: 1", "﻿i: 1", "i: 1\r\ns: y\r\n", "i: 1 # c", "%YAML 9.9\n---\ni: 1", "i: @HUGEINT", "la: [@HUGEINT]", "f: 1e999",
    "<<: {i: 2}", "i: 1\ni: 2", "{i: 1, i: 2}", '{"i": 1}', '{"i": "x"}', '{"i": 1,}', "{'i': 1}", '{"i": NaN}', '{"la": [1, 2}', '[{"i": 1}]', '{"i": 1} x', '{"i": 1e999}',
    '{"i": @HUGEINT}', '{"la": [@HUGEINT]}', "i = 1", "[tool]\ni = 1", "local x = 1; {i: x}", "{i: error 'x'}", "s1: 3", "subcommand: s1\ns1: [1]", "subcommand: nosuch",
    "subcommand: [1]", "s1: {a: 1}\ns2: {b: [2]}", "subcommand: s2\ns2: {sub2: z}", "dc: 3", "dc: [1]", "g: 3", "g: {a: x}", "cfg: x", "cfg: [x]", "__path__: x", "c: {class_path: 3}",
]


def dump_obj(obj, mode, rng):
    import yaml

    try:
        if mode == "json" or rng.random() < 0.3:
            return json.dumps(obj)
        return yaml.safe_dump(obj)
    except Exception:  # noqa: BLE001 - markers / odd keys
        return json.dumps(obj, default=str)


def jsonable_obj(rng, shape, m):
    """gen_obj restricted to JSON-able values (for texts)"""
    d = gen_obj(rng, shape, m)

    def clean(v):
        if isinstance(v, str) and v.startswith("@") and v[1:2].isupper() and not v.startswith("@F") and v not in ("@D", "@M"):
            return {"@HUGEINTV": "@HUGEINT"}.get(v, 1)
        if isinstance(v, dict):
            return {str(k): clean(x) for k, x in v.items()}
        if isinstance(v, list):
            return [clean(x) for x in v]
        return v

    return clean(d)


FILES = {
    "good": "i: 2\n",
    "bad": "i: [\n",
    "bin": {"b64": base64.b64encode(b"i: \xff\xfe\n").decode()},
    "list": "- 1\n- 2\n",
    "empty": "",
    "scalar": "3\n",
    "alias": "la: &a [*a]\n",
    "nested": "cfg: @F:good\n",
}


def gen_case(rng, thorough=False):
    m = modname()
    shape = rng.choice(SHAPES)
    modes = ["yaml", "yaml", "yaml", "json"] + (["jsonnet", "toml"] if thorough else [])
    mode = rng.choice(modes)
    method = rng.choice(["parse_args", "parse_args", "parse_args", "parse_object", "parse_object", "parse_string", "parse_string", "parse_env", "parse_path"])
    variant = {"env": rng.random() < 0.15, "required": rng.random() < 0.5, "positional": rng.random() < 0.3, "nested": rng.random() < 0.5,
               "defcfg": rng.random() < 0.12}
    if shape == "subcommands":
        variant["sub_eoe"] = rng.choice(["same", "default", "opposite"])
    case = {"shape": shape, "eoe": rng.random() < 0.5, "mode": mode, "method": method, "variant": variant,
            "stdin": rng.choice(["empty", "empty", "closed", "text"]), "files": {}}
    if rng.random() < 0.2:
        kw = {}
        if rng.random() < 0.5:
            kw["defaults"] = False
        if method != "parse_env" and rng.random() < 0.4:
            kw["env"] = rng.choice([True, False])
        if rng.random() < 0.4:
            kw["with_meta"] = rng.choice([True, False])
        if kw:
            case["kw"] = kw
    if shape == "defcfg" or variant["defcfg"]:
        r = rng.random()
        if r < 0.15:
            case["files"]["default.cfg"] = json.dumps(rng.choice(default_cfg_with_init_args(m, mode)))
        elif r < 0.5:
            case["files"]["default.cfg"] = dump_obj(jsonable_obj(rng, shape, m), mode, rng)
        elif r < 0.85:
            case["files"]["default.cfg"] = rng.choice(RAW_TEXTS)
        elif r < 0.93:
            case["files"]["default.cfg"] = {"b64": base64.b64encode(b"\xff\xfe\x00i").decode()}
        else:
            case["files"]["default.cfg"] = ""
    if rng.random() < 0.25:
        case["files"]["good"] = dump_obj(jsonable_obj(rng, shape, m), mode, rng)
    if method in ("parse_args", "parse_string", "parse_object") and rng.random() < 0.12:
        case["history"] = gen_history(rng, shape, m)
        if method == "parse_args" and rng.random() < 0.7:
            # a call that is (very likely) valid: the history must not change that
            case["input"] = [a % {"m": m} for a in rng.choice(VALID_ARGV[shape])]
            case["variant"].update(required=(shape == "subcommands"), positional=False)
            return case
    if method == "parse_args":
        case["input"] = gen_argv(rng, shape, m)
        if rng.random() < 0.15:
            case["env"] = gen_env(rng, shape, m)
            case["variant"]["env"] = True
    elif method == "parse_object":
        case["input"] = gen_obj(rng, shape, m)
    elif method == "parse_string":
        case["input"] = rng.choice(RAW_TEXTS) if rng.random() < 0.4 else dump_obj(jsonable_obj(rng, shape, m), mode, rng)
        if rng.random() < 0.1:
            case["input"] = mutate_text(rng, case["input"])
    elif method == "parse_env":
        case["input"] = gen_env(rng, shape, m)
    else:
        r = rng.random()
        if r < 0.55:
            case["files"]["in.cfg"] = rng.choice(RAW_TEXTS) if rng.random() < 0.4 else dump_obj(jsonable_obj(rng, shape, m), mode, rng)
            case["input"] = "@F:in.cfg"
        else:
            case["input"] = rng.choice(["@M", "@D", "", "-", "@F:bin", "@F:empty", "@F:list", "@F:alias", "@F:bad", "@F:good", "adir", "/", "/dev/null", "@F:good/x", "\x00", "a\nb"])
    return case


VALID_ARGV = {
    "leaves": [["--i=2"], ["--s=y", "--li=[1, 2]"], []],
    "groups": [["--g.a=2"], ["--dc.x=3"], []],
    "subcommands": [["s1", "--a=2"], ["s1"], ["--t=1", "s1", "--lst=[1]"]],
    "subclass": [[], ["--c=%(m)s.Sub"], ["--dm=%(m)s.Base"]],
    "cfgfile": [["--i=2"], ["--cfg", "i: 3"], []],
    "defcfg": [["--i=2"], []],
    "links": [["--a=2"], ["--x.a=3"], []],
    "typed": [["--pos=2"], ["--lnn=[0, 1]", "--td=1:2:3"], ["--dec=1.5", "--rng=range(3)"], []],
}


def gen_history(rng, shape, m):
    """one or two earlier parse_args argv lists for the same parser: every way of being rejected, with a --print_config
    request before or after the rejected item (a request that is consumed and then abandoned must not survive)"""
    opt = rng.choice(OPTS[shape])
    pc = rng.choice(["--print_config", "--print_config", "--print_config=skip_null", "--print_config="])
    kinds = [
        [pc, "extra"],                                   # unrecognized arguments: direct self.error
        [pc, "--zz=1"],                                  # unknown option
        [pc, "--" + opt],                                # option without its value: argparse error via parse_known_args
        [pc, "--%s=%s" % (opt, gen_value(rng, m))],      # (probably) a bad value: TypeError path
        [pc, "--%s.zz=1" % opt],
        ["extra", pc], ["--zz=1", pc], ["--" + opt, pc],
        [pc, pc + "zz"], [pc], ["--help"], ["--print_shtab=bash"], ["--print_shtab=bash", "--zz"],
    ]
    if shape == "leaves":
        kinds += [[pc, "--ch=z"], [pc, "--plain", "x"], [pc, "--yn=maybe"]]
    if shape == "subcommands":
        kinds += [[pc, "s1", "--zz=1"], [pc, "s3"], [pc, "s1", "--a"], ["s1", pc, "--a=x"], ["s1", pc, "junk"], [pc, "s2", "z"], [pc, "s1", "--a=x"]]
    out = [rng.choice(kinds)]
    if rng.random() < 0.25:
        out.append(gen_argv(rng, shape, m))
    return out


def mutate_text(rng, s):
    if not s:
        return s
    i = rng.randrange(len(s))
    r = rng.random()
    if r < 0.3:
        return s[:i] + s[i + 1:]
    if r < 0.6:
        return s[:i] + rng.choice("[]{}:,&*!|>'\"#%@`\t\n- ") + s[i:]
    if r < 0.8:
        return s[:i]
    return s[:i] + s[i:] + s[i:]


def gen_env(rng, shape, m):
    """{dest-or-raw-name: value}; dests are mapped to the real variable names at run time"""
    env = {}
    for _ in range(rng.choice([0, 1, 1, 2, 3])):
        name = rng.choice(OPTS[shape])
        if rng.random() < 0.15:
            name = rng.choice(["zz", "subcommand", "s1.a", "s2.b", "cfg", "print_config", "help"])
        env[name] = gen_value(rng, m)
    if shape == "subcommands" and rng.random() < 0.6:
        env["subcommand"] = rng.choice(["s1", "s2", "s3", "", "[1]"])
    if rng.random() < 0.1:
        env["@RAW:APP_ZZ"] = "1"
    return env


# ================================================================= typed edge probes (systematic sweep)
# every (numeric-ish / restricted / registered option) x (extreme or non-finite value) x (bare | in a list | in a mapping), sent once as a
# typed OBJECT (parse_object / a YAML or JSON document through parse_string, parse_path, --cfg: the value reaches the type as a Python
# float / int / ... ) and once as a STRING (argv `--opt=text` or an environment variable)
PROBE_OPTS = {
    "typed": ["pos", "nn", "lnn", "dpos", "tpos", "opos", "rint", "rodd", "pf", "lpf", "unit", "ounit", "em", "nes", "hex", "td", "ltd", "cx", "dec", "ldec",
              "rng", "uu", "by", "ba", "pp", "fl", "lfl", "iv", "din"],
    "leaves": ["i", "f", "li", "d", "oi", "u", "t", "pos", "any", "plain", "lit", "b", "e", "s", "la", "da", "ch", "yn", "pth"],
    "groups": ["g.a", "g.l", "dc.x", "odc", "ldc", "mdc", "dc2.n", "dc2.d.x", "cls.a", "ap.v", "ap.w.z"],
    "cfgfile": ["i", "li", "d", "g.a", "dc.x", "c"],
    "links": ["a", "b", "q", "x.a", "y.c", "y.color", "sub"],
    "subclass": ["uc", "fn", "ty", "cal", "c", "mc"],
}
EDGE_NUM = ["@INF", "@NINF", "@NAN", "@NEGZERO", "@HUGEINTV", "@NEGHUGEINTV", "@BIGINT", "@BIGFLOAT", "@TINYFLOAT", "@I64", "@NI64", 1.0, 2.5, -1, 0, True, None]
EDGE_STR = ["", " ", "1e999", "-1e999", ".inf", "-.inf", "+.inf", ".nan", "inf", "nan", "Infinity", "-0", "-0.0", "9" * 400, "-" + "9" * 400, "0" * 400 + "1",
            "9" * 400 + ":0:0", "9999999999 days, 0:0:0", "range(1, 2, 0)", "range(" + "9" * 400 + ")", "1_0", "0x10", "1e5", "1e400", "٣", "a\x00b", "\x00",
            "é", "\U0001f600", "a b", "\x85", "﻿1", "‮1", "abc", "x@y.z", "1:2:3", "QUJD", "12345678-1234-5678-1234-567812345678", "1+2j",
            "@@NEST"]
PROBE_WRAPS = ["bare", "list", "map"]


def _nest(name, val):
    parts = name.split(".")
    out = val
    for q in reversed(parts):
        out = {q: out}
    return out


def _wrap(v, wrap):
    return v if wrap == "bare" else [v] if wrap == "list" else {"k": v}


_SENT = {"@INF": float("inf"), "@NINF": float("-inf"), "@NAN": float("nan"), "@NEGZERO": -0.0, "@HUGEINTV": 777000777001, "@NEGHUGEINTV": -777000777001,
         "@BIGINT": 10 ** 400, "@BIGFLOAT": 1.7976931348623157e308, "@TINYFLOAT": 5e-324, "@I64": 2 ** 63, "@NI64": -(2 ** 63) - 1}


def _unmark(v):
    """markers -> the Python values they stand for (huge ints: a sentinel that the text form turns into @HUGEINT)"""
    if isinstance(v, str):
        if v == "@@NEST":
            return "[" * 60 + "]" * 60
        return _SENT.get(v, v)
    if isinstance(v, list):
        return [_unmark(x) for x in v]
    if isinstance(v, dict):
        return {k: _unmark(x) for k, x in v.items()}
    return v


def probe_text(obj, mode, flow):
    """the document / value text a user would write for `obj`"""
    import yaml

    o = _unmark(obj)
    if mode == "json":
        t = json.dumps(o)  # Infinity / NaN literals: json.loads takes them
    else:
        try:
            t = yaml.safe_dump(o, default_flow_style=flow, allow_unicode=True, width=100000)
        except Exception:  # noqa: BLE001 - characters the emitter refuses
            t = json.dumps(o)
        if t.endswith("\n...\n"):
            t = t[:-5]
        t = t.rstrip("\n") if flow else t
    return t.replace("777000777001", "@HUGEINT")


def gen_probes(rng, thorough, boost=1):
    combos = []
    for shape, opts in PROBE_OPTS.items():
        for opt in opts:
            for v in EDGE_NUM + EDGE_STR:
                for wrap in PROBE_WRAPS:
                    combos.append((shape, opt, v, wrap))
    both = ("typed", "string")
    if thorough:
        plan = [(c, both) for c in combos]
    else:
        # always: the restricted / registered types against every non-finite / extreme number, bare (both channels) and in a list
        # (typed channel); the rest sampled
        core_vals = ["@INF", "@NINF", "@NAN", "@NEGZERO", "@HUGEINTV", "@BIGINT", "@BIGFLOAT", "@I64", 2.5, True]
        plan, rest = [], []
        for c in combos:
            if c[0] == "typed" and c[3] != "map" and any(c[2] is v or (type(c[2]) is type(v) and c[2] == v) for v in core_vals):
                plan.append((c, both if c[3] == "bare" else ("typed",)))
            else:
                rest.append(c)
        rng.shuffle(rest)
        plan += [(c, both) for c in rest[: 450 * boost]]
    cases = []
    for (shape, opt, v, wrap), channels in plan:
        mode = rng.choice(["yaml", "yaml", "json"])
        w = _wrap(v, wrap)
        has_cfg = shape != "leaves"
        base = {"shape": shape, "mode": mode, "variant": {"required": False}, "stdin": "empty", "files": {}, "probe": [opt, jdump(v)[:24], wrap]}
        # typed channel
        ch = rng.choice(["object", "string", "path"] + (["cfgarg"] if has_cfg else []))
        c = dict(base, eoe=rng.random() < 0.5, channel=ch)
        if ch == "object":
            c.update(method="parse_object", input=_nest(opt, w))
        else:
            text = probe_text(_nest(opt, w), mode, flow=rng.random() < 0.5)
            if ch == "string":
                c.update(method="parse_string", input=text)
            elif ch == "path":
                c.update(method="parse_path", input="@F:in.cfg", files={"in.cfg": text})
            else:
                c.update(method="parse_args", input=["--cfg", text])
        if "typed" in channels:
            cases.append(c)
        if "string" not in channels:
            continue
        # string channel
        if "\x00" in (v if isinstance(v, str) else ""):
            sch = "argv"
        else:
            sch = rng.choice(["argv", "argv", "env"])
        text = _unmark(v) if (isinstance(v, str) and wrap == "bare" and v not in _SENT) else probe_text(w, mode, flow=True)
        c2 = dict(base, eoe=rng.random() < 0.5, channel=sch)
        if sch == "argv":
            c2.update(method="parse_args", input=["--%s=%s" % (opt, text)] if rng.random() < 0.6 else ["--" + opt, text])
        else:
            c2.update(method="parse_env", input={opt: text})
        cases.append(c2)
    return cases


# ================================================================= running one case on the real code
HUGEINT = "1" * 5000


def materialise_files(case, files_dir):
    base = dict(FILES)
    base.update(case.get("files") or {})
    for name, content in base.items():
        path = os.path.join(files_dir, name)
        if isinstance(content, dict):
            with open(path, "wb") as f:
                f.write(base64.b64decode(content["b64"]))
        else:
            with open(path, "w", encoding="utf-8", errors="surrogateescape", newline="") as f:
                f.write(resolve_str(content, files_dir))


def resolve_str(s, files_dir):
    if "@" not in s:
        return s
    s = s.replace("@HUGEINT", HUGEINT)
    s = re.sub(r"@F:([\w.]+)", lambda mo: os.path.join(files_dir, mo.group(1)), s)
    s = s.replace("@D", os.path.join(files_dir, "adir")).replace("@M", os.path.join(files_dir, "missing", "nope.yaml"))
    return s


def resolve_obj(v, files_dir):
    from jsonargparse import Namespace

    if isinstance(v, str):
        if v == "@SELFLIST":
            l = [1]
            l.append(l)
            return l
        if v == "@SELFDICT":
            d = {"a": 1}
            d["self"] = d
            return d
        if v == "@HUGEINTV":
            return int(HUGEINT[:4000]) * 10 ** 1200
        if v == "@NAN":
            return float("nan")
        if v == "@INF":
            return float("inf")
        if v == "@@NEST":
            x = []
            for _ in range(60):
                x = [x]
            return x
        if v == "@NINF":
            return float("-inf")
        if v == "@NEGZERO":
            return -0.0
        if v == "@NEGHUGEINTV":
            return -(int(HUGEINT[:4000]) * 10 ** 1200)
        if v == "@BIGINT":
            return 10 ** 400  # beyond the float range, below the int->str digit limit
        if v == "@BIGFLOAT":
            return 1.7976931348623157e308
        if v == "@TINYFLOAT":
            return 5e-324
        if v == "@I64":
            return 2 ** 63
        if v == "@NI64":
            return -(2 ** 63) - 1
        if v == "@DEEP":
            x = []
            for _ in range(40):
                x = [x]
            return x
        if v == "@TUPLE":
            return (1, "a")
        if v == "@SET":
            return {1, 2}
        if v == "@BYTES":
            return b"ab"
        if v == "@OBJECT":
            return object()
        if v == "@NS":
            return Namespace(a=1, b=Namespace(c=2))
        return resolve_str(v, files_dir)
    if isinstance(v, dict):
        return {(resolve_str(k, files_dir) if isinstance(k, str) else k): resolve_obj(x, files_dir) for k, x in v.items()}
    if isinstance(v, list):
        return [resolve_obj(x, files_dir) for x in v]
    return v


def env_names(parser):
    """dest (dotted through sub-commands) -> environment variable name"""
    from jsonargparse._actions import _ActionSubCommands, filter_default_actions
    from jsonargparse._formatters import get_env_var

    out = {}

    def walk(p, prefix):
        for a in filter_default_actions(p._actions):
            try:
                out[prefix + a.dest] = get_env_var(p, a)
            except Exception:  # noqa: BLE001
                continue
            if isinstance(a, _ActionSubCommands):
                for name, sp in a._name_parser_map.items():
                    walk(sp, prefix + name + ".")

    walk(parser, "")
    return out


def _alarm(signum, frame):
    raise CaseTimeout()


def frames_of(tb):
    """[(function, filename-basename, source line)] of the jsonargparse / stdlib frames (harness frames skipped), outermost first"""
    out = []
    for fs in traceback.extract_tb(tb):
        fn = fs.filename
        if os.sep + "harness" + os.sep in fn:
            continue
        out.append((fs.name, os.path.basename(fn), (fs.line or "").strip()))
    return out


def chain_of(ex):
    """[(class name, innermost jsonargparse/stdlib function, file)] of the exception and of everything it was converted from"""
    out, cur, hops = [], ex, 0
    while cur is not None and hops < 12:
        fr = frames_of(cur.__traceback__)
        # (an exception that was caught in the frame that raised it has a one-frame traceback: it never LEFT that function)
        if len(fr) >= 2 or hops == 0:
            out.append([type(cur).__name__, [c.__name__ for c in type(cur).__mro__], fr[-1][0] if fr else "?", fr[-1][1] if fr else "?"])
        cur, hops = (cur.__cause__ or (None if cur.__suppress_context__ else cur.__context__)), hops + 1
    return out


def run_case_raw(case):
    """run one parse call on the real code; returns a JSON-able result"""
    import jsonargparse
    from jsonargparse import ArgumentError, Namespace

    root = tmp()
    files_dir = os.path.join(root, "files")
    for name in os.listdir(files_dir):
        pth = os.path.join(files_dir, name)
        if os.path.isfile(pth):
            os.remove(pth)
    materialise_files(case, files_dir)
    eoe = case["eoe"]
    res = {"outcome": None}
    old_stdin, old_cwd, old_env = sys.stdin, os.getcwd(), dict(os.environ)
    os.environ.pop("JSONARGPARSE_DEBUG", None)
    for k in [k for k in os.environ if k.startswith("APP_")]:
        del os.environ[k]
    err, out = io.StringIO(), io.StringIO()
    tracer = TRACER
    tracer.start()
    try:
        os.chdir(files_dir)
        try:
            parser = build_parser(case["shape"], eoe, case["mode"], case.get("variant") or {}, files_dir)
        except Exception as ex:  # noqa: BLE001 - a shape that cannot be built is a harness problem
            raise MachineryError("cannot build parser %s: %r" % (case["shape"], ex))
        method = case["method"]
        inp = case.get("input")
        names = env_names(parser)
        kw = dict(case.get("kw") or {})
        if case.get("env") is not None and method != "parse_env":
            for k, v in case["env"].items():
                var = k[5:] if k.startswith("@RAW:") else names.get(k, "APP_" + k.replace(".", "__").upper())
                vv = resolve_str(v, files_dir)
                if "\x00" not in vv and "\x00" not in var and var:
                    os.environ[var] = vv
        hist_out = []
        for prior in case.get("history") or []:
            # earlier parse_args calls on the SAME parser object; whatever they do is swallowed
            sys.stdin = io.StringIO("")
            old_h = signal.signal(signal.SIGALRM, _alarm)
            signal.setitimer(signal.ITIMER_REAL, CASE_TIMEOUT)
            try:
                with contextlib.redirect_stderr(io.StringIO()), contextlib.redirect_stdout(io.StringIO()):
                    parser.parse_args([resolve_str(a, files_dir) for a in prior])
                hist_out.append("ok")
            except CaseTimeout:
                hist_out.append("timeout")
            except SystemExit as ex:
                hist_out.append("exit:%r" % (ex.code,))
            except BaseException as ex:  # noqa: BLE001 - the history is only a preparation
                hist_out.append("raise:" + type(ex).__name__)
            finally:
                signal.setitimer(signal.ITIMER_REAL, 0)
                signal.signal(signal.SIGALRM, old_h)
            with contextlib.suppress(OSError):
                os.chdir(files_dir)
        if hist_out:
            res["history_outcomes"] = hist_out
            tracer.start()  # the attribution is about the judged call only
        if case.get("stdin") == "closed":
            s = io.StringIO("")
            s.close()
            sys.stdin = s
        elif case.get("stdin") == "text":
            sys.stdin = io.StringIO("i: 3\n")
        else:
            sys.stdin = io.StringIO("")
        if method == "parse_args":
            arg = [resolve_str(a, files_dir) for a in inp]
            call = lambda: parser.parse_args(arg, **kw)  # noqa: E731
        elif method == "parse_object":
            arg = resolve_obj(inp, files_dir)
            call = lambda: parser.parse_object(arg, **kw)  # noqa: E731
        elif method == "parse_string":
            arg = resolve_str(inp, files_dir)
            call = lambda: parser.parse_string(arg, **kw)  # noqa: E731
        elif method == "parse_env":
            arg = {}
            for k, v in inp.items():
                var = k[5:] if k.startswith("@RAW:") else names.get(k, "APP_" + k.replace(".", "__").upper())
                arg[var] = resolve_str(v, files_dir)
            call = lambda: parser.parse_env(arg, **kw)  # noqa: E731
        else:
            arg = resolve_str(inp, files_dir)
            call = lambda: parser.parse_path(arg, **kw)  # noqa: E731
        old_handler = signal.signal(signal.SIGALRM, _alarm)
        signal.setitimer(signal.ITIMER_REAL, CASE_TIMEOUT)
        try:
            with contextlib.redirect_stderr(err), contextlib.redirect_stdout(out):
                r = call()
            signal.setitimer(signal.ITIMER_REAL, 0)
            res["outcome"] = "ok" if isinstance(r, Namespace) else "returned:" + type(r).__name__
        except CaseTimeout:
            res["outcome"] = "timeout"
        except SystemExit as ex:
            signal.setitimer(signal.ITIMER_REAL, 0)
            res["outcome"] = "exit:%r" % (ex.code,)
            res["chain"] = chain_of(ex)
            res["frames"] = frames_of(ex.__traceback__)
            res["root"] = tracer.root_of(ex)
        except ArgumentError as ex:
            signal.setitimer(signal.ITIMER_REAL, 0)
            res["outcome"] = "argerr"
            res["chain"] = chain_of(ex)
            res["msg"] = str(ex)[:300]
            res["frames"] = frames_of(ex.__traceback__)
            res["root"] = tracer.root_of(ex)
        except RecursionError as ex:
            signal.setitimer(signal.ITIMER_REAL, 0)
            res["outcome"] = "raise:RecursionError"
            res["msg"] = str(ex)[:200]
            fr = frames_of(ex.__traceback__)
            res["frames"] = fr[:24] + fr[-8:]
            res["root"] = tracer.root_of(ex)
        except Exception as ex:  # noqa: BLE001 - the class that escapes is the observation
            signal.setitimer(signal.ITIMER_REAL, 0)
            res["outcome"] = "raise:" + type(ex).__name__
            res["chain"] = chain_of(ex)
            res["mro"] = [c.__name__ for c in type(ex).__mro__]
            res["msg"] = str(ex)[:300]
            res["frames"] = frames_of(ex.__traceback__)
            res["root"] = tracer.root_of(ex)
        finally:
            signal.setitimer(signal.ITIMER_REAL, 0)
            signal.signal(signal.SIGALRM, old_handler)
    finally:
        res["events"] = tracer.stop()
        sys.stdin = old_stdin
        try:
            os.chdir(old_cwd)
        except OSError:
            pass
        os.environ.clear()
        os.environ.update(old_env)
    res["stderr"] = err.getvalue()[-400:]
    res["stderr_usage"] = "usage:" in err.getvalue()
    res["stderr_error"] = bool(re.search(r"^error: ", err.getvalue(), re.M))
    return res


def run_case(case):
    """run_case_raw + the history oracle: a call that returns normally on a fresh parser must also return normally on a
    parser that has seen earlier (possibly rejected) parse_args calls"""
    res = run_case_raw(case)
    # (after an earlier call that SUCCEEDED in printing help / config / a completion script and exiting 0 the process is
    # gone: re-using that parser is outside the property; --print_shtab in particular rewrites the parser's actions)
    if case.get("history") and res["outcome"] != "ok" and "exit:0" not in (res.get("history_outcomes") or []):
        fresh = dict(case)
        fresh.pop("history", None)
        r0 = run_case_raw(fresh)
        if r0["outcome"] == "ok":
            res["history_dev"] = ("%s returns a configuration on a fresh parser but ends in %s after %d earlier parse_args call(s) on the same parser"
                                  % (case["method"], res["outcome"], len(case["history"])))
    return res


# ================================================================= dynamic stage attribution
class Tracer:
    """wraps the stage entry points (once per process); while `on`, every exception is attributed to the
    innermost stage boundary it crosses first"""

    def __init__(self):
        self.installed = False
        self.on = False
        self.events = []
        self.stack = []
        self.universe = {}

    # --- universe of classes (same list as `inductive Exc`)
    def load_universe(self):
        import argparse
        import builtins

        from jsonargparse._namespace import NSKeyError
        from jsonargparse._util import PathError

        from ..lib.common import LEAN

        src = open(os.path.join(LEAN, "Jap", "Core", "ExcFlow.lean")).read()
        mo = re.search(r"inductive Exc\n(.*?)\nderiving", src, re.S)
        names = re.findall(r"\|\s*([A-Za-z_]\w*)", mo.group(1))
        special = {"ArgumentError": argparse.ArgumentError, "ArgumentTypeError": argparse.ArgumentTypeError, "JSONDecodeError": json.JSONDecodeError,
                   "PathError": PathError, "NSKeyError": NSKeyError}
        with contextlib.suppress(ImportError):
            special["YAMLError"] = __import__("yaml").YAMLError
        with contextlib.suppress(ImportError):
            special["TOMLDecodeError"] = __import__("tomllib").TOMLDecodeError
        for n in names:
            c = special.get(n) or getattr(builtins, n, None)
            if c is not None:
                self.universe[c] = n

    def cls_name(self, ex_type):
        for c in ex_type.__mro__:
            if c in self.universe:
                return self.universe[c]
        return "BaseException"

    # --- recording
    def start(self):
        self.install()
        self.events = []
        self.stack = []
        self.on = True

    def stop(self):
        self.on = False
        ev, self.events = self.events, []
        return ev

    def observe(self, stage, ex):
        if not self.on:
            return
        if getattr(ex, "_c03_root", None) is not None:
            return
        # a conversion of an exception that was already seen (raise X from ex / raised while handling ex)?
        # (only explicit `raise X from ex` chains: __context__ also links exceptions that were swallowed and are unrelated)
        seen = None
        cur, hops = ex, 0
        while cur is not None and hops < 50:
            nxt = cur.__cause__
            if nxt is not None and getattr(nxt, "_c03_root", None) is not None:
                seen = nxt._c03_root
                break
            cur, hops = nxt, hops + 1
        if seen is not None:
            try:
                ex._c03_root = seen
            except Exception:  # noqa: BLE001
                pass
            return
        if stage == "validate" and "is required but not included" in str(ex):
            stage = "required"
        idx = len(self.events)
        self.events.append({"region": stage, "cls": self.cls_name(type(ex)), "raw": type(ex).__name__, "msg": str(ex)[:120]})
        try:
            ex._c03_root = idx
        except Exception:  # noqa: BLE001
            pass

    def root_of(self, ex):
        cur, hops = ex, 0
        while cur is not None and hops < 80:
            r = getattr(cur, "_c03_root", None)
            if r is not None:
                return r
            cur, hops = cur.__cause__, hops + 1
        return None

    def wrap(self, stage, fn, skip_if=None):
        tracer = self

        def w(*a, **k):
            if not tracer.on or (skip_if is not None and skip_if(a, k)):
                return fn(*a, **k)
            st = stage(tracer) if callable(stage) else stage
            tracer.stack.append(st)
            try:
                return fn(*a, **k)
            except Exception as ex:  # noqa: BLE001 - observed and re-raised unchanged
                tracer.observe(st, ex)
                raise
            finally:
                tracer.stack.pop()

        w.__name__ = getattr(fn, "__name__", "wrapped")
        w.__wrapped__ = fn
        return w

    def install(self):
        """labels are REGION names of lean/Jap/Core/ExcFlow.lean; where one function serves several regions
        the caller's frame decides"""
        if self.installed:
            return
        import argparse

        from jsonargparse import _actions, _core, _link_arguments, _loaders_dumpers, _typehints, _util

        self.load_universe()
        AP = _core.ArgumentParser
        W = self.wrap

        def caller(depth=3):
            f = sys._getframe(depth)
            return f.f_code.co_name, (linecache.getline(f.f_code.co_filename, f.f_lineno) or "").strip()

        argparse.ArgumentParser._parse_known_args = W("knownArgs", argparse.ArgumentParser._parse_known_args)
        no_args = lambda a, k: len(a) <= 1  # noqa: E731 - the action classes are also their own factories
        _typehints.ActionTypeHint.__call__ = W("typehintAction", _typehints.ActionTypeHint.__call__, no_args)
        _actions.ActionConfigFile.apply_config = staticmethod(W("applyConfig", _actions.ActionConfigFile.apply_config))
        _actions._ActionConfigLoad._load_config = W("configLoad", _actions._ActionConfigLoad._load_config)
        _actions._ActionSubCommands.__call__ = W("subcmdAction", _actions._ActionSubCommands.__call__)
        _actions._ActionPrintConfig.__call__ = W("printConfigAction", _actions._ActionPrintConfig.__call__)
        _actions._ActionHelpClassPath.print_help = W("helpClassPath", _actions._ActionHelpClassPath.print_help)
        _typehints.adapt_typehints = W("adapt", _typehints.adapt_typehints)
        _typehints.adapt_class_type = W("classType", _typehints.adapt_class_type)
        _typehints.ActionTypeHint._check_type = W("checkType", _typehints.ActionTypeHint._check_type)
        AP._check_value_key = W("checkValueKey", AP._check_value_key)
        AP.merge_config = W("merge", AP.merge_config)
        _typehints.ActionTypeHint.discard_init_args_on_class_path_change = staticmethod(
            W("discardStatic", _typehints.ActionTypeHint.discard_init_args_on_class_path_change))

        def import_region(tr):
            fn, line = caller()
            if fn == "print_help":
                return "helpImport"
            if fn == "adapt_class_type":
                return "classType"
            if fn == "adapt_typehints":
                if line == "val = import_object(val)":
                    return "typeImport"
                if "resolve_class_path_by_name(typehint, val[" in line:
                    return "subclass"
                return "callable"
            return "adapt"

        for mod in (_typehints, _actions):
            if hasattr(mod, "import_object"):
                mod.import_object = W(import_region, mod.import_object)
            if hasattr(mod, "parse_value_or_config"):
                mod.parse_value_or_config = W("valueOrConfig", mod.parse_value_or_config)

        def yaml_region(tr):
            # yaml_load as the loader of the mode (yaml; jsonnet: jsonnet_load -> json_or_yaml_load) or as the
            # mode-independent helper of the basic-types branch (json_or_yaml_load from adapt_typehints)
            fn, _ = caller()
            if fn == "json_or_yaml_load":
                fn2, _ = caller(4)
                return "yamlConstruct" if fn2 == "jsonnet_load" else "yamlAlways"
            return "yamlConstruct"

        def loader_region(tr):
            # a whole document (directly inside _load_config_parser_mode) or a value
            for s in reversed(tr.stack):
                if s == "lcpm":
                    return "loadDoc"
                if s in ("valueOrConfig", "checkType", "applyConfig", "envLoad", "classType", "adapt"):
                    return "loadValue"
            return "loadValue"

        for mode, fn in list(_loaders_dumpers.loaders.items()):
            if mode == "yaml":
                _loaders_dumpers.loaders[mode] = W(yaml_region, fn)
                _loaders_dumpers.yaml_load = _loaders_dumpers.loaders[mode]
            else:
                _loaders_dumpers.loaders[mode] = W(loader_region, fn)

        def path_init_region(tr):
            fn, _ = caller()
            return {"parse_path": "pathCtor", "_get_default_config_files": "defPaths", "<listcomp>": "defPaths", "parse_value_or_config": "vocPath",
                    "apply_config": "acPath"}.get(fn, "registered")

        def path_content_region(tr):
            fn, _ = caller()
            return {"parse_path": "pathContent", "get_defaults": "defContent", "parse_value_or_config": "vocContent"}.get(fn, "vocContent")

        _util.Path.__init__ = W(path_init_region, _util.Path.__init__)
        _util.Path.get_content = W(path_content_region, _util.Path.get_content)
        AP._apply_actions = W("applyActions", AP._apply_actions)
        AP._load_config_parser_mode = W("lcpm", AP._load_config_parser_mode)
        AP.get_defaults = W("getDefaults", AP.get_defaults)
        AP._load_env_vars = W("envLoad", AP._load_env_vars)
        _actions._ActionSubCommands.handle_subcommands = staticmethod(W("subcommands", _actions._ActionSubCommands.handle_subcommands))
        _typehints.ActionTypeHint.add_sub_defaults = staticmethod(W("subDefaults", _typehints.ActionTypeHint.add_sub_defaults))
        _link_arguments.ActionLink.apply_parsing_links = staticmethod(W("links", _link_arguments.ActionLink.apply_parsing_links))
        AP.validate = W("validate", AP.validate)
        _actions._ActionPrintConfig.print_config_if_requested = staticmethod(W("printConfig", _actions._ActionPrintConfig.print_config_if_requested))
        self.installed = True


TRACER = Tracer()


# ================================================================= judging
EXIT0_OPTS = ["--help", "--print_config", "--print_shtab", "--version"]


def asks_exit0(argv):
    for t in argv:
        name = t.split("=", 1)[0]
        if name == "-h" or (name.startswith("-h") and not name.startswith("--")):
            return True
        if name.startswith("--") and len(name) >= 3 and any(full.startswith(name) for full in EXIT0_OPTS):
            return True
        if name.endswith(".help") or ".help" in name:
            return True
    return False


def real_outcome_model(res, eoe):
    """the real outcome in the vocabulary of the model"""
    o = res["outcome"]
    if o == "ok":
        return "ok"
    if o == "argerr":
        return "argErr" if not eoe else "escapes ArgumentError"
    if o.startswith("exit:"):
        return "exit " + o[5:]
    if o.startswith("raise:"):
        return "escapes"  # class compared separately through the universe
    return o


def deviation(case, res):
    """None when the outcome is what the property allows; else a short description"""
    o = res["outcome"]
    eoe = case["eoe"]
    if o == "ok":
        return None
    if res.get("history_dev"):
        return res["history_dev"]
    if o == "timeout":
        return "the parse call did not return within %.0f s" % CASE_TIMEOUT
    if o == "argerr":
        return None if not eoe else "ArgumentError raised although exit_on_error is true"
    if o.startswith("exit:"):
        code = o[5:]
        if code == "0":
            if case["method"] == "parse_args" and asks_exit0(case["input"]):
                return None
            return "exit status 0 without a help / print_config request"
        if code == "2":
            if not eoe:
                return "SystemExit(2) although exit_on_error is false"
            if not (res["stderr_usage"] and res["stderr_error"]):
                return "exit status 2 without usage + 'error:' line on stderr"
            return None
        return "exit status %s" % code
    return "%s escapes %s" % (o[6:] if o.startswith("raise:") else o, case["method"])


_SELFREF_RE = re.compile(r"&(\w+)\b.*\*\1\b", re.S)


def has_selfref(case):
    """does any part of the input hold a container that contains itself (anchor + alias of the same name, or the object markers)"""
    blob = json.dumps([case.get("input"), case.get("env"), case.get("files")])
    if "@SELFLIST" in blob or "@SELFDICT" in blob:
        return True
    texts = []

    def walk(v):
        if isinstance(v, str):
            texts.append(v)
            mo = re.search(r"@F:([\w.]+)", v)
            if mo and isinstance(FILES.get(mo.group(1)), str):
                texts.append(FILES[mo.group(1)])
        elif isinstance(v, dict):
            for k, x in v.items():
                walk(k)
                walk(x)
        elif isinstance(v, list):
            for x in v:
                walk(x)

    walk(case.get("input"))
    walk(case.get("env"))
    walk(case.get("files"))
    return any(_SELFREF_RE.search(t) for t in texts)


def matches(finding, case, res):
    """does the failing result fall under the narrow signature `match` of an open finding"""
    m = finding.get("match") or {}
    if m.get("feature") == "selfref" and not has_selfref(case):
        return False
    if not re.fullmatch(m.get("outcome", ".*"), res["outcome"]):
        return False
    if "eoe" in m and bool(m["eoe"]) != bool(case["eoe"]):
        return False
    if "mode" in m and case["mode"] not in m["mode"]:
        return False
    if "message" in m and not re.search(m["message"], res.get("msg", "") or "", re.S):
        return False
    frames = res.get("frames") or []
    if "where" in m:
        if not frames or not re.fullmatch(m["where"], frames[-1][0]):
            return False
    if "where_line" in m:
        if not frames or not re.search(m["where_line"], frames[-1][2]):
            return False
    for need in m.get("trace_has", []):
        if not any(re.fullmatch(need, f[0]) for f in frames):
            return False
    for need in m.get("trace_line", []):
        if not any(re.search(need, f[2]) for f in frames):
            return False
    return True


def sig_of(res):
    fr = res.get("frames") or []
    last = fr[-1] if fr else ("?", "?", "")
    msg = re.sub(r"\d+", "N", (res.get("msg") or ""))[:60]
    return "%s @%s:%s | %s" % (res["outcome"], last[1], last[0], msg)


def shrink_case(case, still):
    """greedy: drop argv items / object keys / env entries / default config / variant flags"""
    cur = copy.deepcopy(case)

    def try_(cand):
        nonlocal cur
        try:
            if still(cand):
                cur = cand
                return True
        except MachineryError:
            raise
        except Exception:  # noqa: BLE001
            return False
        return False

    changed = True
    rounds = 0
    while changed and rounds < 6:
        changed = False
        rounds += 1
        inp = cur.get("input")
        if isinstance(inp, list):
            for i in range(len(inp)):
                cand = copy.deepcopy(cur)
                del cand["input"][i]
                if try_(cand):
                    changed = True
                    break
        elif isinstance(inp, dict):
            for k in list(inp):
                cand = copy.deepcopy(cur)
                del cand["input"][k]
                if try_(cand):
                    changed = True
                    break
        for k in ("env",):
            if cur.get(k):
                for kk in list(cur[k]):
                    cand = copy.deepcopy(cur)
                    del cand[k][kk]
                    if try_(cand):
                        changed = True
                        break
        for f in list((cur.get("files") or {})):
            if f == "in.cfg":
                continue
            cand = copy.deepcopy(cur)
            del cand["files"][f]
            if f == "default.cfg":
                cand["variant"]["defcfg"] = False
                if cand["shape"] == "defcfg":
                    continue
            if try_(cand):
                changed = True
                break
        for flag in ("env", "nested", "positional", "defcfg"):
            if (cur.get("variant") or {}).get(flag) and not (flag == "env" and cur.get("env")):
                cand = copy.deepcopy(cur)
                cand["variant"][flag] = False
                if flag == "defcfg" and cand["shape"] == "defcfg":
                    continue
                if try_(cand):
                    changed = True
    return cur


# ================================================================= the check
def judge(ctx: Ctx, case, res, origin, stats):
    if res["outcome"] == "timeout" and not has_selfref(case):
        # a loaded machine is not a non-terminating parse: confirm with five times the limit before judging
        global CASE_TIMEOUT
        old = CASE_TIMEOUT
        CASE_TIMEOUT = old * 5
        try:
            res2 = run_case(case)
        finally:
            CASE_TIMEOUT = old
        res.clear()
        res.update(res2)
    dev = deviation(case, res)
    stats["outcomes"][res["outcome"].split(":")[0] if not res["outcome"].startswith("exit") else res["outcome"]] = \
        stats["outcomes"].get(res["outcome"].split(":")[0] if not res["outcome"].startswith("exit") else res["outcome"], 0) + 1
    if dev is None:
        return None
    for f in ctx.open_findings():
        if matches(f, case, res):
            ctx.known(f["id"], "%s (e.g. %s %s)" % (f["description"][:160], case["method"], jdump(case["input"])[:100]))
            stats["known"][f["id"]] = stats["known"].get(f["id"], 0) + 1
            return ("known", f["id"])
    sig = sig_of(res)
    if sig in stats["violation_sigs"]:
        stats["violation_sigs"][sig] += 1
        return ("dup", sig)
    stats["violation_sigs"][sig] = 1

    def still(c):
        r = run_case(c)
        return deviation(c, r) is not None and sig_of(r) == sig

    small = shrink_case(case, still)
    r2 = run_case(small)
    ctx.violation("C03: %s [%s]" % (dev, sig),
                  {"kind": "oracle", "origin": origin, "case": small, "outcome": r2["outcome"], "message": r2.get("msg"),
                   "frames": (r2.get("frames") or [])[-8:], "stderr": r2.get("stderr", "")[-200:]})
    return ("violation", sig)


def corpus_cases(ctx):
    from ..lib import corpus as corpus_mod

    out = []
    for c in corpus_mod.load(ctx.prop):
        for case in c.get("cases", [c] if "method" in c else []):
            out.append(case)
    return out


def subst_mod(obj):
    """corpus / finding witnesses name the temp module as <MOD>"""
    s = json.dumps(obj)
    return json.loads(s.replace("<MOD>", modname()))


def run(ctx: Ctx):
    repo_python_path()
    if os.environ.get("JSONARGPARSE_DEBUG"):
        raise MachineryError("JSONARGPARSE_DEBUG is set: error() raises instead of exiting")
    ctx.rule = ("one case = (parser shape of 8, exit_on_error, loader mode, stdin state, default config file or none, env on/off) x one call of "
                "parse_args(argv) | parse_object(dict) | parse_string(text) | parse_env(mapping) | parse_path(path) with an input drawn from the grammar of "
                "harness/props/c03.py (known / unknown / dotted / empty-segment / '+' / sub-key option names x ~150 well- and ill-formed values); evaluation = "
                "one call judged by the property; non-trivial = the call FAILED (ArgumentError, SystemExit or escape), distinct by (method, shape, "
                "exit_on_error, mode, raising stage, exception class, normalised message)")
    ctx.assumptions = [
        "inputs stay inside the declared parameter types (argv: list of str, object: dict with str keys or Namespace, text/path: str, env: str->str)",
        "container nesting depth <= 60 (RecursionError from sheer depth is not hunted; a self-referential alias is a finite input and is)",
        "static raise sets: attribute access / iteration on LOCAL values and len/set/iter are taken not to fail; failure tables of library callables are "
        "hand-written (self-tested each run); a guard excuse trusts that the named test rules the class out",
        "JSONARGPARSE_DEBUG unset, no error_handler, no logger",
        "histories: a parser is re-used after REJECTED parse_args calls; re-use after a call that printed help / config / completion and exited 0 is "
        "only judged by the channel of the later call (ArgumentError / exit 2), not by 'returns like a fresh parser'",
        "the region / call structure of Core/ExcFlow.lean is hand-written; it is validated by the dynamic stage attribution, not proved",
    ]
    ctx.lean_build(extractors=["excflow", "excflow_raises"])

    stats = {"outcomes": {}, "known": {}, "violation_sigs": {}, "stage_class": {}, "undesigned": {}, "roots": {}, "leaf_obs": {},
             "leaf_keys": leaf_keys()}
    TRACER.install()
    cases = []
    for c in corpus_cases(ctx):
        cases.append(("corpus", subst_mod(c)))
    for c in gen_probes(ctx.rng, ctx.thorough, 3 if ctx.search_boost > 1 else 1):
        cases.append(("probe", c))
    n_corpus = len(cases)   # corpus + probes: always run completely
    n_random = ctx.budget(6000, 90000) * (3 if ctx.search_boost > 1 else 1)
    for _ in range(n_random):
        cases.append(("generated", gen_case(ctx.rng, ctx.thorough)))

    budget_s = ctx.budget(50, 600) * (2 if ctx.search_boost > 1 else 1)
    t_fuzz = ctx.elapsed()
    results = []
    for idx, (origin, case) in enumerate(cases):
        if idx >= n_corpus and ctx.elapsed() - t_fuzz > budget_s:
            ctx.extra["stopped_early_after_cases"] = idx
            break
        res = run_case(case)
        ctx.count()
        ctx.hist("method", case["method"])
        ctx.hist("shape", case["shape"])
        ctx.hist("mode", case["mode"])
        ctx.hist("exit_on_error", case["eoe"])
        ctx.hist("history", len(case.get("history") or []))
        if origin == "probe":
            ctx.hist("probe_channel", case["channel"])
            ctx.hist("probe_value", case["probe"][1])
            ctx.hist("probe_wrap", case["probe"][2])
        verdict = judge(ctx, case, res, origin, stats)
        for cname, mro, fn_name, fname in res.get("chain") or []:
            k = (fname, fn_name)
            if k in stats["leaf_keys"]:
                stats["leaf_obs"].setdefault(k, {}).setdefault(TRACER.cls_name_from_mro(mro), case)
        root = res.get("root")
        ev = res.get("events") or []
        for e in ev:
            key = e["region"] + ":" + e["cls"]
            stats["stage_class"][key] = stats["stage_class"].get(key, 0) + 1
        if res["outcome"] != "ok":
            rk = ev[root] if root is not None and root < len(ev) else None
            ctx.nontrivial((case["method"], case["shape"], case["eoe"], case["mode"], rk["region"] if rk else "?", res["outcome"],
                            re.sub(r"\d+", "N", (res.get("msg") or ""))[:40]))
            if rk is not None:
                results.append((case, res, rk, verdict))
        if idx < n_corpus + 4 and idx >= n_corpus:
            ctx.sample({"case": case, "outcome": res["outcome"]})

    # ---------------------------------------------------------------- dynamic validation against the model
    validate_model(ctx, results, stats)
    validate_static(ctx, stats)

    # ---------------------------------------------------------------- fixed and open findings
    ctx.replay_fixed_demos()
    # the harness' own witness of every FIXED finding: it must conform now (a fixed entry suppresses nothing)
    for f in ctx.fixed_findings():
        w = f.get("witness") or {}
        if "method" not in w:
            continue
        w = subst_mod({k: v for k, v in w.items() if k != "demo"})
        r = run_case(w)
        ctx.count()
        dev = deviation(w, r)
        if dev is not None and not any(matches(g, w, r) for g in ctx.open_findings()):
            ctx.violation("repaired defect %s (%s) is back: %s" % (f["id"], f.get("commit"), dev),
                          {"kind": "oracle", "origin": "fixed-finding", "case": w, "outcome": r["outcome"], "message": r.get("msg"),
                           "frames": (r.get("frames") or [])[-8:]})
    for f in ctx.open_findings():
        w = subst_mod(f["witness"])
        r = run_case(w)
        ctx.count()
        if deviation(w, r) is not None and matches(f, w, r):
            ctx.known(f["id"], f["description"][:200])
        else:
            ctx.stale_findings.append(f["id"])
    ctx.extra["outcomes"] = stats["outcomes"]
    ctx.extra["known_finding_hits"] = stats["known"]
    ctx.extra["violation_signatures"] = stats["violation_sigs"]
    ctx.extra["observed_region_class_pairs"] = stats["stage_class"]
    ctx.extra["cases"] = len(cases)


def validate_model(ctx: Ctx, results, stats):
    """the failure that decides the outcome of a case was first seen leaving region R with class C: if the model
    says R is designed to raise C, the real outcome must be one of those `route` computes for (exit_on_error,
    mode, method, R, C) over all call paths; every observed (R, C) is compared with `designed`"""
    if not ctx.lean_ok:
        # the model does not build (a proof obligation failed): the oracle above is what looks for the input
        return
    keys = {}
    for case, res, rk, verdict in results:
        k = (bool(case["eoe"]), case["mode"], rk["region"], rk["cls"])
        keys.setdefault(k, []).append((case, res, verdict))
    qs = [{"q": "stageRaises", "mode": m} for m in ("yaml", "json", "toml", "jsonnet")]
    klist = sorted(keys)
    for (eoe, mode, region, cls) in klist:
        qs.append({"q": "routeRegion", "top": eoe, "mode": mode, "region": region, "exc": cls})
    qs.append({"q": "tables"})
    try:
        ans = ctx.driver("ExcFlow", qs, timeout=900)
    except MachineryError as ex:
        ctx.tie_break("ExcFlow driver not runnable", str(ex))
        return
    raises = dict(zip(("yaml", "json", "toml", "jsonnet"), ans[:4]))
    ctx.extra["tables"] = ans[-1]
    covered, undesigned, mismatches, stage_pairs = set(), {}, [], {}
    for k, a in zip(klist, ans[4:-1]):
        eoe, mode, region, cls = k
        if "error" in a:
            ctx.tie_break("ExcFlow driver rejects an observed region/class", jdump([k, a]))
            continue
        sk = "%s:%s" % (a.get("stage"), cls)
        stage_pairs[sk] = stage_pairs.get(sk, 0) + len(keys[k])
        for case, res, verdict in keys[k]:
            meth = LEAN_METHOD[case["method"]]
            real = real_outcome_model(res, eoe)
            pred = a["outcomes"][meth]
            if real == "escapes":
                real = "escapes " + TRACER.cls_name_from_mro(res.get("mro") or [res["outcome"][6:]])
                ok = any(p["o"].startswith("escapes") and p["o"] != "escapes ArgumentError" for p in pred)
            else:
                ok = any(p["o"] == real for p in pred)
            if a["designed"]:
                covered.add((meth, region, cls, eoe, mode))
                # a deviating outcome is the oracle's business (violation / known finding); here: the model must be able
                # to produce what the code correctly did
                if not ok and deviation(case, res) is None:
                    mismatches.append({"case": case, "region": region, "class": cls, "real": real, "model": pred})
            else:
                u = undesigned.setdefault(region + ":" + cls, {"n": 0, "real": set()})
                u["n"] += 1
                u["real"].add(real)
    ctx.extra["routing_entries_exercised"] = len(covered)
    ctx.extra["undesigned_roots_observed"] = {k: {"n": v["n"], "outcomes": sorted(v["real"])} for k, v in sorted(undesigned.items())}
    ctx.extra["observed_stage_class_pairs_of_deciding_failures"] = stage_pairs
    ctx.extra["stage_raises_model"] = raises.get("yaml")
    for mm in mismatches[:3]:
        ctx.tie_break("correspondence ExcFlow: the real outcome of a designed failure is not one the model routes to",
                      jdump(mm)[:1800])
    ctx.extra["correspondence_mismatches"] = len(mismatches)
    # an undesigned (region, class) whose outcome conforms is a gap of `designed` (model too narrow), reported in the
    # evidence, never an alarm by itself; an undesigned one that escapes is exactly what the oracle above reports


def leaf_keys():
    """(file, function name) of the leaf functions of harness/extractors/excflow_raises.py -> names of the leaves that share it"""
    from ..extractors.excflow_raises import LEAVES

    out = {}
    for spec in LEAVES:
        out.setdefault((spec["file"], spec["qual"].split(".")[-1]), []).append(spec["name"])
    out.setdefault(("typing.py", "deserializer"), []).append("registered:*")
    return out


def validate_static(ctx: Ctx, stats):
    """the static raise table (Gen/ExcFlowRaises) against the runs: every class that was SEEN leaving a leaf function (the innermost
    frame of an exception in the cause chain of a failure) must be one the static over-approximation lists for that function (or a
    subclass); when the proof obligation C03_static_raises failed, the (leaf, class, origin) triples are reported as search hints"""
    try:
        ans = ctx.driver("ExcFlow", [{"q": "staticLeaves"}], timeout=600)[0]
    except Exception as ex:  # noqa: BLE001 - no model, no static validation
        if ctx.lean_ok:
            ctx.tie_break("ExcFlow driver not runnable (staticLeaves)", str(ex)[:400])
        return
    if ans.get("uncovered"):
        ctx.extra["static_uncovered_hints"] = ans["uncovered"]
        ctx.tie_break("C03_static_raises: a class can escape a leaf function that its region is not designed to raise and no guard excuses",
                      jdump(ans["uncovered"])[:1500])
    static = {}
    for l in ans["leaves"]:
        static[l["name"]] = set(l["classes"])
    ctx.extra["static_leaves"] = {l["name"]: {"region": l["region"], "classes": l["classes"], "origins": l["origins"], "covered": l["covered"],
                                              "excused": l["excused"]} for l in ans["leaves"]}
    import builtins

    def is_sub(c, d):
        cc, dd = getattr(builtins, c, None), getattr(builtins, d, None)
        uni = {v: k for k, v in TRACER.universe.items()}
        cc, dd = cc or uni.get(c), dd or uni.get(d)
        return cc is not None and dd is not None and issubclass(cc, dd)

    seen = {}
    for (fname, fn_name), per_cls in stats["leaf_obs"].items():
        names = stats["leaf_keys"][(fname, fn_name)]
        allowed = set()
        for n in names:
            if n == "registered:*":
                for k, v in static.items():
                    if k.startswith("registered:"):
                        allowed |= v
                allowed.add("ValueError")  # the conversion `raise ex2 from ex` itself
            else:
                allowed |= static.get(n, set())
        for cls, case in per_cls.items():
            seen["%s:%s:%s" % (fname, fn_name, cls)] = True
            if not any(is_sub(cls, a) for a in allowed):
                ctx.tie_break("static raise table is not an over-approximation: %s was seen leaving %s (%s), listed: %s"
                              % (cls, fn_name, fname, sorted(allowed)), jdump(case)[:1200])
    ctx.extra["static_leaf_classes_observed"] = sorted(seen)


def _cls_name_from_mro(self, names):
    known = set(self.universe.values())
    for n in names:
        if n in known:
            return n
    return "BaseException"


Tracer.cls_name_from_mro = _cls_name_from_mro


def replay(ctx: Ctx, body):
    repo_python_path()
    rp = body["replay"]
    if rp.get("kind") == "demo":
        import subprocess

        from ..lib.common import REPO, VERIF

        p = subprocess.run(["/venv/bin/python", os.path.join(VERIF, rp["demo"])], env=dict(os.environ, PYTHONPATH=REPO))
        return 1 if p.returncode != 0 else 0
    if "case" not in rp:
        print("no concrete case in this replay file (a broken tie without a failing input):")
        print(json.dumps(rp, indent=1)[:3000])
        return 1
    case = subst_mod(rp["case"])
    res = run_case(case)
    dev = deviation(case, res)
    print("case:", json.dumps(case, ensure_ascii=True)[:2000])
    print("outcome:", res["outcome"], "|", (res.get("msg") or "")[:200])
    for f in (res.get("frames") or [])[-8:]:
        print("   ", f)
    print("stderr tail:", repr(res.get("stderr", "")[-200:]))
    print("deviation:", dev)
    return 1 if dev is not None else 0
